// STUB (replaced by the structured generator)
pub struct GenCase { pub wgsl: String, pub features: Vec<&'static str> }
pub const PROFILES: &[&str] = &["general"];
pub fn generate(_profile: &str, _seed: u64, index: u64) -> GenCase {
    GenCase { wgsl: format!("@group(0) @binding({index}) var<uniform> a: vec4<f32>;\n@compute @workgroup_size(1) fn main() {{ let x = a.x; }}\n"), features: vec![] }
}
pub fn chain(_d: usize, _v: bool) -> String { String::new() }
pub fn diamond(_d: usize) -> String { String::new() }
pub fn fanout(_d: usize) -> String { String::new() }
pub fn nested_structs(_d: usize) -> String { String::new() }
