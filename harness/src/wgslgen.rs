//! Seeded, structured random generator of valid WGSL shaders (naga 24.0.0 dialect)
//! used for differential testing of `wgsl_to_wgpu`.
//!
//! * No global state, no I/O, no external crates: a splitmix64 PRNG seeded from a hash of
//!   `(profile, seed, index)` drives every random choice.
//! * Programs are valid by construction: the generator tracks types, layouts (WGSL size /
//!   alignment rules incl. the uniform address-space constraints), shader-stage restrictions
//!   of builtins, call-graph depth, IO location / builtin uniqueness, identifier uniqueness.
//! * Only the profile `bindings` intentionally emits modules that may fail *validation*
//!   (duplicate `(group, binding)` pairs used by the same entry point); they still parse.
#![allow(clippy::all)]
#![allow(dead_code)]

use std::collections::BTreeSet;

pub struct GenCase {
    pub wgsl: String,
    pub features: Vec<&'static str>,
}

pub const PROFILES: &[&str] = &[
    "general", "bindings", "callgraph", "structs", "vertex", "consts", "entries", "unicode",
    "textures", "scale",
];

// ---------------------------------------------------------------------------------------------
// PRNG
// ---------------------------------------------------------------------------------------------

struct Rng {
    s: u64,
}

impl Rng {
    fn new(profile: &str, seed: u64, index: u64) -> Rng {
        // FNV-1a over the profile name, then mix seed and index through splitmix64 rounds.
        let mut h: u64 = 0xcbf29ce484222325;
        for b in profile.bytes() {
            h ^= b as u64;
            h = h.wrapping_mul(0x100000001b3);
        }
        let mut r = Rng { s: h };
        let a = r.next_u64();
        r.s = a ^ seed.wrapping_mul(0x9E3779B97F4A7C15);
        let b = r.next_u64();
        r.s = b ^ index.wrapping_mul(0xD1B54A32D192ED03);
        r.next_u64();
        r
    }
    fn next_u64(&mut self) -> u64 {
        self.s = self.s.wrapping_add(0x9E3779B97F4A7C15);
        let mut z = self.s;
        z = (z ^ (z >> 30)).wrapping_mul(0xBF58476D1CE4E5B9);
        z = (z ^ (z >> 27)).wrapping_mul(0x94D049BB133111EB);
        z ^ (z >> 31)
    }
    fn below(&mut self, n: usize) -> usize {
        if n == 0 {
            0
        } else {
            (self.next_u64() % n as u64) as usize
        }
    }
    /// inclusive range
    fn range(&mut self, lo: usize, hi: usize) -> usize {
        if hi <= lo {
            lo
        } else {
            lo + self.below(hi - lo + 1)
        }
    }
    fn pct(&mut self, p: u32) -> bool {
        (self.next_u64() % 100) < p as u64
    }
    fn permille(&mut self, p: u32) -> bool {
        (self.next_u64() % 1000) < p as u64
    }
    fn pick<'a, T>(&mut self, xs: &'a [T]) -> &'a T {
        let i = self.below(xs.len());
        &xs[i]
    }
    fn shuffle<T>(&mut self, xs: &mut [T]) {
        let n = xs.len();
        if n < 2 {
            return;
        }
        for i in (1..n).rev() {
            let j = self.below(i + 1);
            xs.swap(i, j);
        }
    }
    /// weighted choice; returns index
    fn weighted(&mut self, w: &[u32]) -> usize {
        let total: u32 = w.iter().sum();
        if total == 0 {
            return 0;
        }
        let mut x = (self.next_u64() % total as u64) as u32;
        for (i, wi) in w.iter().enumerate() {
            if x < *wi {
                return i;
            }
            x -= *wi;
        }
        w.len() - 1
    }
}

// ---------------------------------------------------------------------------------------------
// Type model + WGSL layout rules
// ---------------------------------------------------------------------------------------------

#[derive(Clone, Copy, PartialEq, Eq, Debug)]
enum Sc {
    F32,
    I32,
    U32,
    F64,
    Bool,
    U64,
}

impl Sc {
    fn name(self) -> &'static str {
        match self {
            Sc::F32 => "f32",
            Sc::I32 => "i32",
            Sc::U32 => "u32",
            Sc::F64 => "f64",
            Sc::Bool => "bool",
            Sc::U64 => "u64",
        }
    }
    fn width(self) -> u32 {
        match self {
            Sc::F64 | Sc::U64 => 8,
            Sc::Bool => 1,
            _ => 4,
        }
    }
}

#[derive(Clone, PartialEq, Debug)]
enum Ty {
    Scalar(Sc),
    Vec(u8, Sc),
    /// columns, rows (f32)
    Mat(u8, u8),
    Atomic(Sc),
    Array(Box<Ty>, u32),
    RtArray(Box<Ty>),
    Struct(usize),
}

#[derive(Clone, Debug)]
struct Member {
    name: String,
    ty: Ty,
    align: Option<u32>,
    size: Option<u32>,
    /// IO attribute text such as `@location(3) @interpolate(flat)` or `@builtin(position)`
    io: Option<String>,
}

#[derive(Clone, Debug)]
struct StructDef {
    name: String,
    members: Vec<Member>,
}

fn round_up(a: u32, x: u32) -> u32 {
    if a == 0 {
        x
    } else {
        (x + a - 1) / a * a
    }
}

fn size_align(st: &[StructDef], ty: &Ty) -> (u32, u32) {
    match ty {
        Ty::Scalar(s) | Ty::Atomic(s) => (s.width(), s.width()),
        Ty::Vec(n, s) => {
            let w = s.width();
            let n = *n as u32;
            (n * w, if n == 2 { 2 * w } else { 4 * w })
        }
        Ty::Mat(c, r) => {
            let (vs, va) = size_align(st, &Ty::Vec(*r, Sc::F32));
            (round_up(va, vs) * *c as u32, va)
        }
        Ty::Array(b, n) => {
            let (s, a) = size_align(st, b);
            (round_up(a, s).saturating_mul(*n), a)
        }
        Ty::RtArray(b) => {
            let (s, a) = size_align(st, b);
            (round_up(a, s), a)
        }
        Ty::Struct(i) => {
            let l = struct_layout(st, *i);
            (l.size, l.align)
        }
    }
}

struct SLayout {
    offsets: Vec<u32>,
    size: u32,
    align: u32,
}

fn struct_layout(st: &[StructDef], i: usize) -> SLayout {
    // Mirrors naga 24: the WGSL front end computes member offsets and the struct span with
    // `@align` / `@size` taken into account, but `naga::proc::Layouter` (which is consulted when
    // the struct is nested in another struct / array) derives the struct *alignment* from the
    // natural alignments of the member types only, ignoring `@align` attributes.
    let mut off = 0u32;
    let mut fe_align = 1u32;
    let mut lay_align = 1u32;
    let mut offsets = Vec::new();
    for m in &st[i].members {
        let (s, nat) = size_align(st, &m.ty);
        let a = m.align.map(|x| x.max(nat)).unwrap_or(nat);
        let s = m.size.map(|x| x.max(s)).unwrap_or(s);
        off = round_up(a, off);
        offsets.push(off);
        off = off.saturating_add(s);
        fe_align = fe_align.max(a);
        lay_align = lay_align.max(nat);
    }
    SLayout { offsets, size: round_up(fe_align, off), align: lay_align }
}

/// naga's uniform-address-space layout rule; `Some(required alignment)` when the type may be
/// placed in `var<uniform>`.
fn uniform_align(st: &[StructDef], ty: &Ty) -> Option<u32> {
    match ty {
        Ty::Scalar(Sc::Bool) | Ty::Vec(_, Sc::Bool) => None,
        Ty::Scalar(_) | Ty::Vec(..) | Ty::Mat(..) => Some(size_align(st, ty).1),
        Ty::Atomic(_) | Ty::RtArray(_) => None,
        Ty::Array(b, _) => {
            let ua = uniform_align(st, b)?;
            let (s, a) = size_align(st, b);
            let al = ua.max(a).max(16);
            if round_up(a, s) % al == 0 {
                Some(al)
            } else {
                None
            }
        }
        Ty::Struct(i) => {
            let l = struct_layout(st, *i);
            let mut cur = 16;
            let mut prev: Option<(u32, u32)> = None;
            for (m, off) in st[*i].members.iter().zip(l.offsets.iter()) {
                let ua = uniform_align(st, &m.ty)?;
                if off % ua != 0 {
                    return None;
                }
                cur = cur.max(ua);
                if let Some((span, po)) = prev {
                    if off - po < round_up(16, span) {
                        return None;
                    }
                }
                prev = match &m.ty {
                    Ty::Struct(j) => Some((struct_layout(st, *j).size, *off)),
                    _ => None,
                };
            }
            Some(cur)
        }
    }
}

#[derive(Clone, Copy, Default, Debug)]
struct TFlags {
    has_bool: bool,
    has_atomic: bool,
    has_rt: bool,
    has_f64: bool,
}

fn ty_flags(st: &[StructDef], ty: &Ty) -> TFlags {
    let mut f = TFlags::default();
    match ty {
        Ty::Scalar(s) | Ty::Vec(_, s) => {
            f.has_bool = *s == Sc::Bool;
            f.has_f64 = *s == Sc::F64;
        }
        Ty::Mat(..) => {}
        Ty::Atomic(_) => f.has_atomic = true,
        Ty::Array(b, _) => f = ty_flags(st, b),
        Ty::RtArray(b) => {
            f = ty_flags(st, b);
            f.has_rt = true;
        }
        Ty::Struct(i) => {
            for m in &st[*i].members {
                let g = ty_flags(st, &m.ty);
                f.has_bool |= g.has_bool;
                f.has_atomic |= g.has_atomic;
                f.has_rt |= g.has_rt;
                f.has_f64 |= g.has_f64;
            }
        }
    }
    f
}

/// Requirements on generated data types depending on where the type will live.
#[derive(Clone, Copy, Debug)]
struct Req {
    bool_ok: bool,
    atomic_ok: bool,
    f64_ok: bool,
    uniform: bool,
}

impl Req {
    const UNIFORM: Req = Req { bool_ok: false, atomic_ok: false, f64_ok: false, uniform: true };
    const STORAGE_RO: Req = Req { bool_ok: false, atomic_ok: false, f64_ok: false, uniform: false };
    const STORAGE_RW: Req = Req { bool_ok: false, atomic_ok: true, f64_ok: false, uniform: false };
    const PRIVATE: Req = Req { bool_ok: true, atomic_ok: false, f64_ok: false, uniform: false };
    const WORKGROUP: Req = Req { bool_ok: true, atomic_ok: true, f64_ok: false, uniform: false };
}

fn satisfies(st: &[StructDef], ty: &Ty, req: Req) -> bool {
    let f = ty_flags(st, ty);
    if f.has_bool && !req.bool_ok {
        return false;
    }
    if f.has_atomic && !req.atomic_ok {
        return false;
    }
    if f.has_f64 && !req.f64_ok {
        return false;
    }
    if req.uniform && uniform_align(st, ty).is_none() {
        return false;
    }
    true
}

fn ty_str(st: &[StructDef], ty: &Ty, short: bool) -> String {
    match ty {
        Ty::Scalar(s) => s.name().to_string(),
        Ty::Vec(n, s) => {
            if short && matches!(s, Sc::F32 | Sc::I32 | Sc::U32) {
                let c = match s {
                    Sc::F32 => 'f',
                    Sc::I32 => 'i',
                    _ => 'u',
                };
                format!("vec{}{}", n, c)
            } else {
                format!("vec{}<{}>", n, s.name())
            }
        }
        Ty::Mat(c, r) => {
            if short {
                format!("mat{}x{}f", c, r)
            } else {
                format!("mat{}x{}<f32>", c, r)
            }
        }
        Ty::Atomic(s) => format!("atomic<{}>", s.name()),
        Ty::Array(b, n) => format!("array<{}, {}>", ty_str(st, b, short), n),
        Ty::RtArray(b) => format!("array<{}>", ty_str(st, b, short)),
        Ty::Struct(i) => st[*i].name.clone(),
    }
}

/// `f32`-typed expression `v` converted to scalar kind `s`.
fn conv_from_f32(s: Sc, v: &str) -> String {
    // numeric literal: emit a literal of the right type (naga refuses `u32(4.0)` in const
    // expressions: abstract floats do not convert to integers)
    if v.chars().next().map(|c| c.is_ascii_digit()).unwrap_or(false) && v.chars().all(|c| c.is_ascii_digit() || c == '.') {
        let int_part = v.split('.').next().unwrap_or("0");
        let int_part = if int_part.is_empty() { "0" } else { int_part };
        return match s {
            Sc::F32 => v.to_string(),
            Sc::F64 => format!("{}lf", if v.contains('.') { v.to_string() } else { format!("{}.0", v) }),
            Sc::I32 => int_part.to_string(),
            Sc::U32 => format!("{}u", int_part),
            Sc::U64 => format!("{}lu", int_part),
            Sc::Bool => "true".to_string(),
        };
    }
    match s {
        Sc::F32 => v.to_string(),
        Sc::Bool => format!("({} > 0.5)", v),
        other => format!("{}({})", other.name(), v),
    }
}

/// expression `e` of scalar kind `s` converted to f32
fn conv_to_f32(s: Sc, e: &str) -> String {
    match s {
        Sc::F32 => e.to_string(),
        Sc::Bool => format!("select(0.0, 1.0, {})", e),
        _ => format!("f32({})", e),
    }
}

fn ind(n: usize) -> String {
    "    ".repeat(n)
}

const COMPS: [&str; 4] = ["x", "y", "z", "w"];
const COMPS_RGBA: [&str; 4] = ["r", "g", "b", "a"];

// ---------------------------------------------------------------------------------------------
// Vocabulary
// ---------------------------------------------------------------------------------------------

/// ASCII words that are neither WGSL keywords / reserved words nor predeclared type / builtin
/// function names, and that never collide with the generator's local names
/// (`acc`, `lvN`, `ixN`, `argN`, `vinN`, `finN`, `cinN`, `outv`, `biN`).
const WORDS: &[&str] = &[
    "color", "light", "pos", "nrm", "uv", "view", "proj", "model", "world", "time", "scale",
    "offset", "idx", "count", "data", "buf", "tex", "smp", "params", "config", "camera",
    "material", "bone", "weight", "tint", "depth", "shadow", "noise", "grid", "cell", "particle",
    "velocity", "mass", "force", "frame", "delta", "alpha", "beta", "gamma", "radius", "extent",
    "bounds", "flags", "key", "value", "item", "node", "edge", "src", "dst", "lhs", "rhs", "temp",
    "state", "globals", "locals", "instance", "vertex_data", "tile", "cluster", "probe", "fog",
    "sky", "sun", "ambient", "specular", "rough", "metal", "emissive", "occlusion", "joint",
    "skin", "morph", "curve", "spline", "ray", "hit", "bvh", "voxel", "brick", "atlas", "glyph",
    "rect", "quad", "tri", "mesh", "lod", "cull", "draw", "batch", "queue", "ring", "pool",
    "slot", "page", "chunk", "span", "lane", "wave", "histogram", "prefix", "scan", "sort",
];

const LETTERS: &[&str] = &[
    "a", "b", "c", "d", "e", "f", "g", "h", "k", "m", "n", "q", "r", "s", "t", "u", "v", "w", "x",
    "y", "z",
];

/// Non-ASCII identifiers (XID_Start XID_Continue*), all accepted by naga's lexer.
const UNI_WORDS: &[&str] = &[
    "Δt", "données", "位置", "ñandú", "größe", "привет", "αβγ", "नमस्ते", "𝔘x", "éclair",
    "x\u{301}y", "ﬁn", "색상", "مرحبا", "שלום", "ℂplx", "naïve", "Ångström", "façade", "übergroß",
    "𠀀big", "ⅷx", "ꙮeye", "x·y", "été", "ラベル", "Ǆx", "ａｂｃ", "Ünïcödé", "变量", "πr2",
    "λ", "θ_max", "ω0", "صورة", "ตัวแปร", "მონაცემები", "քանակ", "ᚠᚢᚦ", "e\u{301}\u{327}x",
];

const RUST_KW_NAMES: &[&str] = &["in", "dyn", "box"];

const ENTRY_WORDS: &[&str] = &[
    "main", "vs_main", "fs_main", "cs_main", "vert", "frag", "comp", "update", "render", "shade",
    "simulate", "blit", "resolve_pass", "init_cells", "step_sim", "mainImage", "main_vs",
    "main_fs", "main_cs", "VSMain", "PSMain", "CSMain", "kernel_0", "entry_a", "entry_b",
];

const STORAGE_FORMATS: &[(&str, Sc)] = &[
    ("r8unorm", Sc::F32), ("r8snorm", Sc::F32), ("r8uint", Sc::U32), ("r8sint", Sc::I32),
    ("r16unorm", Sc::F32), ("r16snorm", Sc::F32), ("r16uint", Sc::U32), ("r16sint", Sc::I32),
    ("r16float", Sc::F32), ("rg8unorm", Sc::F32), ("rg8snorm", Sc::F32), ("rg8uint", Sc::U32),
    ("rg8sint", Sc::I32), ("r32uint", Sc::U32), ("r32sint", Sc::I32), ("r32float", Sc::F32),
    ("rg16unorm", Sc::F32), ("rg16snorm", Sc::F32), ("rg16uint", Sc::U32), ("rg16sint", Sc::I32),
    ("rg16float", Sc::F32), ("rgba8unorm", Sc::F32), ("rgba8snorm", Sc::F32),
    ("rgba8uint", Sc::U32), ("rgba8sint", Sc::I32), ("rgb10a2uint", Sc::U32),
    ("rgb10a2unorm", Sc::F32), ("rg11b10float", Sc::F32), ("r64uint", Sc::U64),
    ("rg32uint", Sc::U32), ("rg32sint", Sc::I32), ("rg32float", Sc::F32),
    ("rgba16unorm", Sc::F32), ("rgba16snorm", Sc::F32), ("rgba16uint", Sc::U32),
    ("rgba16sint", Sc::I32), ("rgba16float", Sc::F32), ("rgba32uint", Sc::U32),
    ("rgba32sint", Sc::I32), ("rgba32float", Sc::F32), ("bgra8unorm", Sc::F32),
];

fn fmt_feature(fmt: &str) -> &'static str {
    for (f, _) in STORAGE_FORMATS {
        if *f == fmt {
            return f;
        }
    }
    "fmt_unknown"
}

// ---------------------------------------------------------------------------------------------
// Module model
// ---------------------------------------------------------------------------------------------

const ST_V: u8 = 1;
const ST_F: u8 = 2;
const ST_C: u8 = 4;
const ST_ALL: u8 = 7;

#[derive(Clone, Copy, PartialEq, Eq, Debug)]
enum Dim {
    D1,
    D2,
    D2Array,
    D3,
    Cube,
    CubeArray,
}

impl Dim {
    fn suffix(self) -> &'static str {
        match self {
            Dim::D1 => "1d",
            Dim::D2 => "2d",
            Dim::D2Array => "2d_array",
            Dim::D3 => "3d",
            Dim::Cube => "cube",
            Dim::CubeArray => "cube_array",
        }
    }
    fn arrayed(self) -> bool {
        matches!(self, Dim::D2Array | Dim::CubeArray)
    }
    fn cube(self) -> bool {
        matches!(self, Dim::Cube | Dim::CubeArray)
    }
}

#[derive(Clone, Debug)]
enum Tex {
    Sampled { dim: Dim, sc: Sc },
    Multi { sc: Sc },
    Depth { dim: Dim },
    DepthMulti,
    Storage { dim: Dim, fmt: &'static str, sc: Sc, access: &'static str },
}

impl Tex {
    fn wgsl(&self) -> String {
        match self {
            Tex::Sampled { dim, sc } => format!("texture_{}<{}>", dim.suffix(), sc.name()),
            Tex::Multi { sc } => format!("texture_multisampled_2d<{}>", sc.name()),
            Tex::Depth { dim } => format!("texture_depth_{}", dim.suffix()),
            Tex::DepthMulti => "texture_depth_multisampled_2d".to_string(),
            Tex::Storage { dim, fmt, access, .. } => {
                format!("texture_storage_{}<{}, {}>", dim.suffix(), fmt, access)
            }
        }
    }
}

#[derive(Clone, Copy, PartialEq, Eq, Debug)]
enum Space {
    Uniform,
    StorageRead,
    StorageRW,
}

#[derive(Clone, Debug)]
enum GKind {
    Buffer { space: Space, ty: Ty },
    Tex(Tex),
    Sampler(bool),
    Private { ty: Ty, init: Option<String> },
    /// `len` = override-sized array length expression (type is then `array<elem, len>`)
    Workgroup { ty: Ty, len: Option<String> },
    PushConst { ty: Ty },
}

#[derive(Clone, Debug)]
struct Global {
    name: String,
    kind: GKind,
    group: u32,
    binding: u32,
    uses: u32,
    /// intentionally never referenced from any function
    no_use: bool,
}

#[derive(Clone, Debug)]
struct Func {
    name: String,
    nparams: usize,
    returns: bool,
    mask: u8,
    depth: usize,
    text: String,
}

#[derive(Clone, Copy, PartialEq, Eq, Debug)]
enum CKind {
    AInt,
    AFloat,
    I32,
    U32,
    F32,
    Bool,
    F64,
    Vec(u8, Sc),
    Arr(u32, Sc),
    /// a zero-value constructor (`vec3<f32>()`, `i32()`): declared, never used in an expression
    /// (naga's constant evaluator rejects casts / unary operators applied to `ZeroValue`)
    Zero,
}

#[derive(Clone, Debug)]
struct ConstDef {
    name: String,
    text: String,
    kind: CKind,
    /// small value, safe to use in further constant arithmetic
    small: Option<i64>,
}

#[derive(Clone, Debug)]
struct OverrideDef {
    name: String,
    text: String,
    sc: Sc,
    has_default: bool,
}

#[derive(Clone, Debug)]
enum Act {
    Access(usize),
    Call(usize),
    Phony(usize),
    Misc,
}

#[derive(Clone, Copy, PartialEq, Eq, Debug)]
enum IoRole {
    VIn,
    VOut,
    FIn,
    FOut,
    CIn,
}

#[derive(Clone, Debug)]
struct IoInfo {
    sidx: usize,
    locs: Vec<u32>,
    builtins: Vec<&'static str>,
    role: IoRole,
}

struct Ctx {
    mask: u8,
    callable: Vec<usize>,
    max_nest: usize,
    nest_pct: u32,
    called: Vec<usize>,
    pos: Vec<&'static str>,
    in_continuing: bool,
    depth_cap: usize,
}

fn pos_tag(call: bool, pos: &str) -> &'static str {
    match (call, pos) {
        (true, "plain") => "call_in_plain",
        (true, "if") => "call_in_if",
        (true, "else") => "call_in_else",
        (true, "case") => "call_in_switch_case",
        (true, "default") => "call_in_switch_default",
        (true, "loop") => "call_in_loop_body",
        (true, "continuing") => "call_in_continuing",
        (true, "for") => "call_in_for",
        (true, "while") => "call_in_while",
        (true, "block") => "call_in_block",
        (false, "plain") => "access_in_plain",
        (false, "if") => "access_in_if",
        (false, "else") => "access_in_else",
        (false, "case") => "access_in_switch_case",
        (false, "default") => "access_in_switch_default",
        (false, "loop") => "access_in_loop_body",
        (false, "continuing") => "access_in_continuing",
        (false, "for") => "access_in_for",
        (false, "while") => "access_in_while",
        (false, "block") => "access_in_block",
        _ => "pos_other",
    }
}

/// Per-profile knobs of the common builder.
#[derive(Clone, Debug)]
struct Cfg {
    structs_extra: (usize, usize),
    struct_depth: usize,
    struct_members: (usize, usize),
    buffers: (usize, usize),
    textures: (usize, usize),
    privates: (usize, usize),
    workgroups: (usize, usize),
    push_const_pct: u32,
    helpers: (usize, usize),
    call_depth_cap: usize,
    acts: (usize, usize),
    nest_pct: u32,
    max_nest: usize,
    vertex: (usize, usize),
    fragment: (usize, usize),
    compute: (usize, usize),
    consts: (usize, usize),
    overrides: (usize, usize),
    max_groups: usize,
    simple_buffers: bool,
    vin_members: (usize, usize),
    shapes: bool,
    struct_roles: bool,
    rust_kw_permille: u32,
    case_clash_permille: u32,
    f64_pct: u32,
    /// probability (percent) that a random call targets one of the 3 most recent helpers
    deep_bias: u32,
    /// the module may have no entry point at all (only the `entries` profile)
    allow_no_entry: bool,
}

impl Cfg {
    fn base() -> Cfg {
        Cfg {
            structs_extra: (0, 2),
            struct_depth: 2,
            struct_members: (1, 6),
            buffers: (1, 5),
            textures: (0, 3),
            privates: (0, 2),
            workgroups: (0, 1),
            push_const_pct: 12,
            helpers: (0, 8),
            call_depth_cap: 12,
            acts: (1, 5),
            nest_pct: 40,
            max_nest: 3,
            vertex: (0, 2),
            fragment: (0, 2),
            compute: (0, 2),
            consts: (0, 4),
            overrides: (0, 3),
            max_groups: 4,
            simple_buffers: false,
            vin_members: (1, 5),
            shapes: false,
            struct_roles: false,
            rust_kw_permille: 0,
            case_clash_permille: 0,
            f64_pct: 6,
            deep_bias: 50,
            allow_no_entry: false,
        }
    }
}

// ---------------------------------------------------------------------------------------------
// Generator state
// ---------------------------------------------------------------------------------------------

struct Gen {
    rng: Rng,
    feats: BTreeSet<&'static str>,
    mod_names: BTreeSet<String>,
    unicode_pct: u32,
    short_types: bool,
    allow_f64: bool,
    structs: Vec<StructDef>,
    /// structs that must not be emitted (none currently) / emitted order handled in `assemble`
    consts: Vec<ConstDef>,
    overrides: Vec<OverrideDef>,
    globals: Vec<Global>,
    funcs: Vec<Func>,
    entries: Vec<String>,
    io: Vec<IoInfo>,
    local_structs: Vec<usize>,
    lv: usize,
    used_ids: Vec<u32>,
    entry_names: Vec<String>,
    extra_items: Vec<String>,
    callee_set: BTreeSet<usize>,
    forced_vin: Option<usize>,
    struct_roles: bool,
    kw_budget: bool,
    clash_budget: bool,
}

fn norm_name(s: &str) -> String {
    s.to_lowercase().replace('_', "")
}

fn pascal(w: &str) -> String {
    let mut out = String::new();
    for part in w.split('_') {
        let mut cs = part.chars();
        if let Some(c) = cs.next() {
            out.extend(c.to_uppercase());
            out.push_str(cs.as_str());
        }
    }
    out
}

impl Gen {
    fn new(profile: &str, seed: u64, index: u64) -> Gen {
        let mut g = Gen {
            rng: Rng::new(profile, seed, index),
            feats: BTreeSet::new(),
            mod_names: BTreeSet::new(),
            unicode_pct: 0,
            short_types: false,
            allow_f64: false,
            structs: Vec::new(),
            consts: Vec::new(),
            overrides: Vec::new(),
            globals: Vec::new(),
            funcs: Vec::new(),
            entries: Vec::new(),
            io: Vec::new(),
            local_structs: Vec::new(),
            lv: 0,
            used_ids: Vec::new(),
            entry_names: Vec::new(),
            extra_items: Vec::new(),
            callee_set: BTreeSet::new(),
            forced_vin: None,
            struct_roles: false,
            kw_budget: false,
            clash_budget: false,
        };
        for n in ["acc", "outv", "whole"] {
            g.mod_names.insert(n.to_string());
        }
        g
    }

    fn feat(&mut self, f: &'static str) {
        self.feats.insert(f);
    }

    fn finish(self, wgsl: String) -> GenCase {
        GenCase { wgsl, features: self.feats.into_iter().collect() }
    }

    // ---- names -------------------------------------------------------------------------------

    /// style: 0 = variable / member / function, 1 = type (mostly PascalCase)
    fn raw_name(&mut self, style: u8) -> String {
        if self.rng.pct(self.unicode_pct) {
            self.feat("unicode_ident");
            let mut w = self.rng.pick(UNI_WORDS).to_string();
            if self.rng.pct(30) {
                w.push_str(&format!("{}", self.rng.below(10)));
            }
            if self.rng.pct(15) {
                w.push('_');
                let w2: &str = *self.rng.pick(WORDS); w.push_str(w2);
            }
            return w;
        }
        let w1 = self.rng.pick(WORDS).to_string();
        let w2 = self.rng.pick(WORDS).to_string();
        if style == 1 {
            return match self.rng.below(6) {
                0 | 1 => pascal(&w1),
                2 | 3 => format!("{}{}", pascal(&w1), pascal(&w2)),
                4 => format!("{}{}", pascal(&w1), self.rng.below(10)),
                _ => format!("{}_{}", pascal(&w1), w2),
            };
        }
        match self.rng.below(12) {
            0..=3 => w1,
            4 | 5 => format!("{}_{}", w1, w2),
            6 => format!("{}{}", w1, self.rng.below(100)),
            7 => format!("{}{}", w1, pascal(&w2)),
            8 => format!("_{}", w1),
            9 => format!("{}_", w1),
            10 => format!("{}_{}_{}", w1, self.rng.below(10), w2),
            _ => {
                let l = self.rng.pick(LETTERS).to_string();
                if self.rng.pct(40) {
                    format!("{}{}", l, self.rng.below(10))
                } else {
                    l
                }
            }
        }
    }

    fn fresh_in(&mut self, set: &mut BTreeSet<String>, style: u8) -> String {
        for attempt in 0..60 {
            let mut n = self.raw_name(style);
            if attempt > 30 {
                n.push_str(&format!("{}", self.rng.below(1000)));
            }
            if set.insert(norm_name(&n)) {
                return n;
            }
        }
        let mut k = set.len();
        loop {
            let n = format!("sym_{}", k);
            if set.insert(norm_name(&n)) {
                return n;
            }
            k += 1;
        }
    }

    fn fresh(&mut self, style: u8) -> String {
        let mut set = std::mem::take(&mut self.mod_names);
        let n = self.fresh_in(&mut set, style);
        self.mod_names = set;
        n
    }

    /// Reserve a specific module-scope name; false if (case-insensitively) taken.
    fn claim(&mut self, n: &str) -> bool {
        self.mod_names.insert(norm_name(n))
    }

    fn local(&mut self, prefix: &str) -> String {
        self.lv += 1;
        format!("{}{}", prefix, self.lv)
    }

    fn ts(&self, ty: &Ty) -> String {
        ty_str(&self.structs, ty, self.short_types)
    }

    // ---- literals ----------------------------------------------------------------------------

    fn flit(&mut self) -> String {
        const L: &[&str] = &["0.25", "0.5", "1.0", "1.5", "2.0", "3.0", "0.125", "4.0", "0.75"];
        self.rng.pick(L).to_string()
    }

    // ---- data type generation ----------------------------------------------------------------

    fn gen_scalar_kind(&mut self, req: Req) -> Sc {
        let r = self.rng.below(100);
        if req.bool_ok && r < 8 {
            self.feat("member_bool");
            return Sc::Bool;
        }
        if req.f64_ok && self.allow_f64 && r < 16 {
            self.feat("f64");
            return Sc::F64;
        }
        match self.rng.below(10) {
            0..=4 => Sc::F32,
            5 | 6 => Sc::I32,
            _ => Sc::U32,
        }
    }

    fn gen_leaf(&mut self, req: Req) -> Ty {
        let w = [32, 36, 20, if req.atomic_ok { 16 } else { 0 }];
        match self.rng.weighted(&w) {
            0 => {
                self.feat("member_scalar");
                Ty::Scalar(self.gen_scalar_kind(req))
            }
            1 => {
                self.feat("member_vec");
                let n = self.rng.range(2, 4) as u8;
                Ty::Vec(n, self.gen_scalar_kind(req))
            }
            2 => {
                self.feat("member_mat");
                Ty::Mat(self.rng.range(2, 4) as u8, self.rng.range(2, 4) as u8)
            }
            _ => {
                self.feat("member_atomic");
                Ty::Atomic(if self.rng.pct(60) { Sc::U32 } else { Sc::I32 })
            }
        }
    }

    fn gen_array_len(&mut self) -> u32 {
        match self.rng.below(10) {
            0..=5 => self.rng.range(1, 6) as u32,
            6..=8 => self.rng.range(7, 20) as u32,
            _ => self.rng.range(21, 40) as u32,
        }
    }

    /// A sized data type satisfying `req`.
    fn gen_member_ty(&mut self, req: Req, depth: usize, arr_depth: usize) -> Ty {
        let w = [
            60,
            if arr_depth < 2 { 25 } else { 0 },
            if depth > 0 { 15 } else { 0 },
        ];
        match self.rng.weighted(&w) {
            0 => self.gen_leaf(req),
            1 => {
                let n = self.gen_array_len();
                for _ in 0..8 {
                    let elem = self.gen_member_ty(req, depth, arr_depth + 1);
                    let arr = Ty::Array(Box::new(elem.clone()), n);
                    if size_align(&self.structs, &arr).0 > (1 << 20) {
                        continue;
                    }
                    if !req.uniform || uniform_align(&self.structs, &arr).is_some() {
                        self.feat(if arr_depth > 0 || matches!(elem, Ty::Array(..)) {
                            "member_nested_array"
                        } else {
                            "member_array"
                        });
                        if matches!(elem, Ty::Struct(_)) {
                            self.feat("member_array_of_structs");
                        }
                        if matches!(elem, Ty::Mat(..)) {
                            self.feat("member_array_of_mats");
                        }
                        return arr;
                    }
                }
                self.feat("member_array");
                Ty::Array(Box::new(Ty::Vec(4, Sc::F32)), n)
            }
            _ => {
                self.feat("member_struct");
                // reuse an existing compatible struct or build a new one
                if self.rng.pct(45) {
                    let mut cands = Vec::new();
                    for i in 0..self.structs.len() {
                        let t = Ty::Struct(i);
                        let f = ty_flags(&self.structs, &t);
                        let is_io = self.structs[i].members.iter().any(|m| m.io.is_some());
                        if !f.has_rt && !is_io && satisfies(&self.structs, &t, req) {
                            cands.push(i);
                        }
                    }
                    if !cands.is_empty() {
                        self.feat("struct_shared_nested");
                        return Ty::Struct(*self.rng.pick(&cands));
                    }
                }
                let lo = 1;
                let hi = 4;
                let i = self.gen_struct(req, depth - 1, (lo, hi), false);
                Ty::Struct(i)
            }
        }
    }

    /// Generates a struct definition satisfying `req`; returns its index.
    fn gen_struct(&mut self, req: Req, depth: usize, nmem: (usize, usize), rt_last: bool) -> usize {
        let name = self.fresh(1);
        let n = self.rng.range(nmem.0, nmem.1).max(1);
        let mut mset: BTreeSet<String> = BTreeSet::new();
        let mut members: Vec<Member> = Vec::new();
        while members.len() < n {
            if self.rng.pct(8) && members.len() + 2 <= n {
                // vec3 immediately followed by a scalar (fits into the vec3 padding)
                self.feat("vec3_scalar_pack");
                let n1 = self.fresh_in(&mut mset, 0);
                let n2 = self.fresh_in(&mut mset, 0);
                let s = if self.rng.pct(60) { Sc::F32 } else { Sc::U32 };
                members.push(Member { name: n1, ty: Ty::Vec(3, Sc::F32), align: None, size: None, io: None });
                members.push(Member { name: n2, ty: Ty::Scalar(s), align: None, size: None, io: None });
                continue;
            }
            let ty = self.gen_member_ty(req, depth, 0);
            let mname = self.fresh_in(&mut mset, 0);
            let (s, a) = size_align(&self.structs, &ty);
            let f = ty_flags(&self.structs, &ty);
            let mut align = None;
            let mut size = None;
            if !f.has_bool && !f.has_atomic {
                if self.rng.pct(10) {
                    let al = a << self.rng.range(0, 2);
                    if al <= 256 {
                        self.feat("attr_align");
                        align = Some(al);
                    }
                }
                if self.rng.pct(9) {
                    self.feat("attr_size");
                    size = Some(s + 4 * self.rng.range(0, 5) as u32);
                }
            }
            members.push(Member { name: mname, ty, align, size, io: None });
        }
        if rt_last {
            self.feat("member_rt_array");
            let mut r = req;
            r.uniform = false;
            let elem = self.gen_member_ty(r, depth.min(1), 1);
            let mname = self.fresh_in(&mut mset, 0);
            members.push(Member { name: mname, ty: Ty::RtArray(Box::new(elem)), align: None, size: None, io: None });
        }
        if self.kw_budget && self.rng.pct(30) {
            self.kw_budget = false;
            // legal WGSL identifier that is a Rust keyword
            let kw = *self.rng.pick(RUST_KW_NAMES);
            if mset.insert(kw.to_string()) {
                self.feat("rust_keyword_name");
                let k = self.rng.below(members.len());
                members[k].name = kw.to_string();
            }
        }
        self.structs.push(StructDef { name, members });
        let idx = self.structs.len() - 1;
        if req.uniform {
            self.uniformize(idx);
        }
        idx
    }

    /// Adds `@align(..)` attributes so that struct `i` satisfies the uniform layout rules.
    fn uniformize(&mut self, i: usize) {
        let n = self.structs[i].members.len();
        for k in 0..n {
            let l = struct_layout(&self.structs, i);
            let off = l.offsets[k];
            let mty = self.structs[i].members[k].ty.clone();
            let ua = match uniform_align(&self.structs, &mty) {
                Some(a) => a,
                None => continue,
            };
            let mut need = 0;
            if off % ua != 0 {
                need = ua;
            }
            if k > 0 {
                if let Ty::Struct(j) = self.structs[i].members[k - 1].ty {
                    let span = struct_layout(&self.structs, j).size;
                    if off - l.offsets[k - 1] < round_up(16, span) {
                        need = need.max(16);
                    }
                }
            }
            if need > 0 {
                let (_, a) = size_align(&self.structs, &mty);
                let cur = self.structs[i].members[k].align.unwrap_or(0);
                self.structs[i].members[k].align = Some(need.max(a).max(cur));
                self.feat("uniform_align_fixup");
            }
        }
    }

    // ---- reading / writing leaves of a typed place -------------------------------------------

    fn index_expr(&mut self, n: u32, dyn_ok: bool) -> String {
        let k = self.rng.below(n as usize);
        match self.rng.below(10) {
            0..=5 => format!("{}", k),
            6 | 7 => format!("{}u", k),
            8 => format!("{}i", k),
            _ => {
                if dyn_ok {
                    self.feat("dynamic_index");
                    format!("u32(acc) % {}u", n)
                } else {
                    format!("{}", k)
                }
            }
        }
    }

    /// An `f32` expression reading one leaf of `place: ty`.
    fn read_f32(&mut self, ty: &Ty, place: &str, dyn_ok: bool) -> String {
        match ty {
            Ty::Scalar(s) => conv_to_f32(*s, place),
            Ty::Vec(n, s) => {
                let k = self.rng.below(*n as usize);
                let e = match self.rng.below(6) {
                    0 => format!("{}[{}]", place, k),
                    1 => format!("{}.{}", place, COMPS_RGBA[k]),
                    _ => format!("{}.{}", place, COMPS[k]),
                };
                conv_to_f32(*s, &e)
            }
            Ty::Mat(c, r) => {
                let ci = self.rng.below(*c as usize);
                let ri = self.rng.below(*r as usize);
                if self.rng.pct(50) {
                    format!("{}[{}][{}]", place, ci, ri)
                } else {
                    format!("{}[{}].{}", place, ci, COMPS[ri])
                }
            }
            Ty::Atomic(_) => {
                self.feat("atomic_load");
                format!("f32(atomicLoad(&{}))", place)
            }
            Ty::Array(b, n) => {
                let ix = self.index_expr(*n, dyn_ok);
                let p = format!("{}[{}]", place, ix);
                self.read_f32(b, &p, dyn_ok)
            }
            Ty::RtArray(b) => {
                let ix = match self.rng.below(4) {
                    0 => "0".to_string(),
                    1 => format!("{}", self.rng.below(8)),
                    2 => {
                        self.feat("array_length");
                        format!("arrayLength(&{}) - 1u", place)
                    }
                    _ => "u32(acc)".to_string(),
                };
                let p = format!("{}[{}]", place, ix);
                self.read_f32(b, &p, dyn_ok)
            }
            Ty::Struct(i) => {
                let k = self.rng.below(self.structs[*i].members.len());
                let m = self.structs[*i].members[k].clone();
                let p = format!("{}.{}", place, m.name);
                self.read_f32(&m.ty, &p, dyn_ok)
            }
        }
    }

    /// A statement storing the f32 expression `val` into one leaf of `place: ty`.
    fn write_leaf(&mut self, ty: &Ty, place: &str, val: &str) -> String {
        match ty {
            Ty::Scalar(s) => {
                if *s == Sc::F32 && self.rng.pct(30) {
                    format!("{} += {};", place, val)
                } else {
                    format!("{} = {};", place, conv_from_f32(*s, val))
                }
            }
            Ty::Vec(n, s) => {
                if self.rng.pct(60) {
                    let k = self.rng.below(*n as usize);
                    format!("{}.{} = {};", place, COMPS[k], conv_from_f32(*s, val))
                } else {
                    format!("{} = vec{}<{}>({});", place, n, s.name(), conv_from_f32(*s, val))
                }
            }
            Ty::Mat(c, r) => {
                let ci = self.rng.below(*c as usize);
                if self.rng.pct(50) {
                    format!("{}[{}] = vec{}<f32>({});", place, ci, r, val)
                } else {
                    let ri = self.rng.below(*r as usize);
                    format!("{}[{}][{}] = {};", place, ci, ri, val)
                }
            }
            Ty::Atomic(s) => {
                let one = if *s == Sc::U32 { "1u" } else { "1" };
                match self.rng.below(8) {
                    0 => {
                        self.feat("atomic_store");
                        format!("atomicStore(&{}, {}({}));", place, s.name(), val)
                    }
                    1 => {
                        self.feat("atomic_rmw");
                        format!("acc += f32(atomicMax(&{}, {}));", place, one)
                    }
                    2 => {
                        self.feat("atomic_rmw");
                        format!("_ = atomicExchange(&{}, {});", place, one)
                    }
                    3 => {
                        self.feat("atomic_cmpxchg");
                        format!("if (atomicCompareExchangeWeak(&{}, {}, {}).exchanged) {{ acc += 1.0; }}", place, one, one)
                    }
                    4 => {
                        self.feat("atomic_rmw");
                        format!("atomicSub(&{}, {});", place, one)
                    }
                    _ => {
                        self.feat("atomic_add");
                        if self.rng.pct(50) {
                            format!("atomicAdd(&{}, {});", place, one)
                        } else {
                            format!("acc += f32(atomicAdd(&{}, {}));", place, one)
                        }
                    }
                }
            }
            Ty::Array(b, n) => {
                let ix = self.index_expr(*n, true);
                let p = format!("{}[{}]", place, ix);
                self.write_leaf(b, &p, val)
            }
            Ty::RtArray(b) => {
                let ix = match self.rng.below(3) {
                    0 => "0".to_string(),
                    1 => format!("{}u", self.rng.below(8)),
                    _ => "u32(acc)".to_string(),
                };
                let p = format!("{}[{}]", place, ix);
                self.write_leaf(b, &p, val)
            }
            Ty::Struct(i) => {
                let k = self.rng.below(self.structs[*i].members.len());
                let m = self.structs[*i].members[k].clone();
                let p = format!("{}.{}", place, m.name);
                self.write_leaf(&m.ty, &p, val)
            }
        }
    }

    /// Place expression of a runtime-sized array inside `place: ty`, if there is one.
    fn rt_place(&self, ty: &Ty, place: &str) -> Option<String> {
        match ty {
            Ty::RtArray(_) => Some(place.to_string()),
            Ty::Struct(i) => {
                let m = self.structs[*i].members.last()?;
                if matches!(m.ty, Ty::RtArray(_)) {
                    Some(format!("{}.{}", place, m.name))
                } else {
                    None
                }
            }
            _ => None,
        }
    }

    /// Value of type `ty` built from the f32 expression `v` (constructible types only).
    fn splat(&self, ty: &Ty, v: &str) -> String {
        match ty {
            Ty::Scalar(s) => conv_from_f32(*s, v),
            Ty::Vec(n, s) => format!("vec{}<{}>({})", n, s.name(), conv_from_f32(*s, v)),
            Ty::Mat(c, r) => {
                let col = format!("vec{}<f32>({})", r, v);
                let cols: Vec<String> = (0..*c).map(|_| col.clone()).collect();
                format!("mat{}x{}<f32>({})", c, r, cols.join(", "))
            }
            Ty::Array(b, n) => {
                let e = self.splat(b, v);
                let es: Vec<String> = (0..*n).map(|_| e.clone()).collect();
                format!("{}({})", self.ts(ty), es.join(", "))
            }
            Ty::Struct(i) => {
                let ms: Vec<String> =
                    self.structs[*i].members.iter().map(|m| self.splat(&m.ty, v)).collect();
                format!("{}({})", self.structs[*i].name, ms.join(", "))
            }
            _ => "0".to_string(),
        }
    }
}

// ---------------------------------------------------------------------------------------------
// Statements: accesses to globals
// ---------------------------------------------------------------------------------------------

fn tex_feature(t: &Tex) -> &'static str {
    match t {
        Tex::Sampled { dim, .. } => match dim {
            Dim::D1 => "texture_1d",
            Dim::D2 => "texture_2d",
            Dim::D2Array => "texture_2d_array",
            Dim::D3 => "texture_3d",
            Dim::Cube => "texture_cube",
            Dim::CubeArray => "texture_cube_array",
        },
        Tex::Multi { .. } => "texture_multisampled_2d",
        Tex::Depth { dim } => match dim {
            Dim::D2 => "texture_depth_2d",
            Dim::D2Array => "texture_depth_2d_array",
            Dim::Cube => "texture_depth_cube",
            _ => "texture_depth_cube_array",
        },
        Tex::DepthMulti => "texture_depth_multisampled_2d",
        Tex::Storage { dim, .. } => match dim {
            Dim::D1 => "texture_storage_1d",
            Dim::D2 => "texture_storage_2d",
            Dim::D2Array => "texture_storage_2d_array",
            _ => "texture_storage_3d",
        },
    }
}

impl Gen {
    fn find_sampler(&mut self, comparison: bool) -> Option<String> {
        let mut c = Vec::new();
        for (i, g) in self.globals.iter().enumerate() {
            if let GKind::Sampler(cmp) = g.kind {
                if cmp == comparison && !g.no_use {
                    c.push(i);
                }
            }
        }
        if c.is_empty() {
            return None;
        }
        let i = *self.rng.pick(&c);
        self.globals[i].uses += 1;
        Some(self.globals[i].name.clone())
    }

    fn fcoord(&mut self, dim: Dim) -> String {
        let a = self.flit();
        let b = self.flit();
        match dim {
            Dim::D1 => {
                if self.rng.pct(50) {
                    "acc".to_string()
                } else {
                    a
                }
            }
            Dim::D2 | Dim::D2Array => format!("vec2<f32>(acc, {})", a),
            _ => format!("vec3<f32>(acc, {}, {})", a, b),
        }
    }

    fn icoord(&mut self, dim: Dim) -> String {
        let unsigned = self.rng.pct(35);
        if unsigned {
            self.feat("tex_coords_u32");
        }
        let (t, c, one) = if unsigned { ("u32", "u32(acc)", "1u") } else { ("i32", "i32(acc)", "1") };
        match dim {
            Dim::D1 => match self.rng.below(3) {
                0 => one.to_string(),
                _ => c.to_string(),
            },
            Dim::D3 => format!("vec3<{}>({}, {}, {})", t, c, one, one),
            _ => format!("vec2<{}>({}, {})", t, c, one),
        }
    }

    fn layer(&mut self) -> String {
        self.rng.pick(&["0", "1", "1u", "i32(acc)", "u32(acc)"]).to_string()
    }

    fn level_i32(&mut self) -> String {
        self.rng.pick(&["0", "1", "i32(acc)"]).to_string()
    }

    fn comp(&mut self) -> &'static str {
        COMPS[self.rng.below(4)]
    }

    fn access_data(&mut self, name: &str, ty: &Ty, writable: bool) -> Vec<String> {
        let f = ty_flags(&self.structs, ty);
        let rt = self.rt_place(ty, name);
        if writable && self.rng.pct(40) {
            self.feat("store");
            let v = if self.rng.pct(70) { "acc".to_string() } else { format!("acc * {}", self.flit()) };
            return vec![self.write_leaf(ty, name, &v)];
        }
        if let Some(p) = &rt {
            if self.rng.pct(30) {
                self.feat("array_length");
                return vec![format!("acc += f32(arrayLength(&{}));", p)];
            }
        }
        if !f.has_rt && !f.has_atomic && self.rng.pct(6) && size_align(&self.structs, ty).0 <= 4096 {
            self.feat("whole_load");
            let l = self.local("lv");
            let r = self.read_f32(ty, &l, false);
            return vec![format!("let {} = {};", l, name), format!("acc += {};", r)];
        }
        self.feat("load");
        let r = self.read_f32(ty, name, true);
        match self.rng.below(5) {
            0 => {
                let l = self.local("lv");
                vec![format!("let {} = {};", l, r), format!("acc += {};", l)]
            }
            1 => vec![format!("acc = acc * {} + {};", self.flit(), r)],
            2 => {
                let r2 = self.read_f32(ty, name, true);
                vec![format!("acc += {} * {};", r, r2)]
            }
            _ => vec![format!("acc += {};", r)],
        }
    }

    fn access_tex(&mut self, ctx: &mut Ctx, name: &str, t: &Tex) -> Vec<String> {
        self.feat(tex_feature(t));
        let frag = ctx.mask == ST_F;
        let s_plain = self.find_sampler(false);
        let s_cmp = self.find_sampler(true);
        // (op id) candidates
        let mut ops: Vec<&'static str> = vec!["textureDimensions"];
        match t {
            Tex::Sampled { dim, sc } => {
                self.feat(match sc {
                    Sc::F32 => "sampled_f32",
                    Sc::I32 => "sampled_i32",
                    _ => "sampled_u32",
                });
                ops.push("textureNumLevels");
                if dim.arrayed() {
                    ops.push("textureNumLayers");
                }
                if !dim.cube() {
                    ops.push("textureLoad");
                    ops.push("textureLoad");
                }
                if s_plain.is_some() {
                    if *sc == Sc::F32 {
                        ops.push("textureSampleLevel");
                        ops.push("textureSampleLevel");
                        if *dim != Dim::D1 {
                            ops.push("textureSampleGrad");
                        }
                        if frag {
                            for _ in 0..8 {
                                ops.push("textureSample");
                            }
                            if *dim != Dim::D1 {
                                ops.push("textureSampleBias");
                                ops.push("textureSampleBias");
                            }
                        }
                    }
                    if matches!(dim, Dim::D2 | Dim::D2Array | Dim::Cube | Dim::CubeArray) {
                        ops.push("textureGather");
                    }
                }
            }
            Tex::Multi { .. } | Tex::DepthMulti => {
                ops.push("textureNumSamples");
                ops.push("textureLoad");
                ops.push("textureLoad");
            }
            Tex::Depth { dim } => {
                ops.push("textureNumLevels");
                if dim.arrayed() {
                    ops.push("textureNumLayers");
                }
                if !dim.cube() {
                    ops.push("textureLoad");
                }
                if s_plain.is_some() {
                    ops.push("textureSampleLevel");
                    ops.push("textureGather");
                    if frag {
                        ops.push("textureSample");
                    }
                }
                if s_cmp.is_some() {
                    ops.push("textureSampleCompareLevel");
                    ops.push("textureSampleCompareLevel");
                    ops.push("textureGatherCompare");
                    if frag {
                        for _ in 0..5 {
                            ops.push("textureSampleCompare");
                        }
                    }
                }
            }
            Tex::Storage { dim, access, .. } => {
                if *dim == Dim::D2Array {
                    ops.push("textureNumLayers");
                }
                if *access != "write" {
                    for _ in 0..3 {
                        ops.push("textureLoad");
                    }
                }
                if *access != "read" {
                    for _ in 0..3 {
                        ops.push("textureStore");
                    }
                }
                if *access == "atomic" {
                    for _ in 0..4 {
                        ops.push("textureAtomic");
                    }
                }
            }
        }
        let op = *self.rng.pick(&ops);
        self.feat(op);
        let (dim, sc) = match t {
            Tex::Sampled { dim, sc } => (*dim, *sc),
            Tex::Multi { sc } => (Dim::D2, *sc),
            Tex::Depth { dim } => (*dim, Sc::F32),
            Tex::DepthMulti => (Dim::D2, Sc::F32),
            Tex::Storage { dim, sc, .. } => (*dim, *sc),
        };
        let is_depth = matches!(t, Tex::Depth { .. } | Tex::DepthMulti);
        let lay = if dim.arrayed() { format!(", {}", self.layer()) } else { String::new() };
        let sp = s_plain.unwrap_or_default();
        let sc_ = s_cmp.unwrap_or_default();
        let c = self.comp();
        // wrap a vec4<sc> expression / a scalar f32 expression into `acc += ...`
        let vec_res = |e: String| -> String {
            if is_depth {
                format!("acc += {};", e)
            } else {
                format!("acc += {};", conv_to_f32(sc, &format!("{}.{}", e, c)))
            }
        };
        match op {
            "textureDimensions" => {
                let lvl = if matches!(t, Tex::Sampled { .. } | Tex::Depth { .. }) && self.rng.pct(30) {
                    format!(", {}", self.rng.pick(&["0", "1", "0u", "i32(acc)"]))
                } else {
                    String::new()
                };
                let e = format!("textureDimensions({}{})", name, lvl);
                if dim == Dim::D1 {
                    vec![format!("acc += f32({});", e)]
                } else {
                    vec![format!("acc += f32({}.{});", e, if self.rng.pct(50) { "x" } else { "y" })]
                }
            }
            "textureNumLevels" | "textureNumLayers" | "textureNumSamples" => {
                vec![format!("acc += f32({}({}));", op, name)]
            }
            "textureLoad" => {
                let ic = self.icoord(dim);
                let e = match t {
                    Tex::Storage { .. } => format!("textureLoad({}, {}{})", name, ic, lay),
                    _ => format!("textureLoad({}, {}{}, {})", name, ic, lay, self.level_i32()),
                };
                if matches!(t, Tex::Multi { .. } | Tex::DepthMulti) {
                    self.feat("textureLoad_multisampled");
                }
                if matches!(t, Tex::Sampled { sc: Sc::I32 | Sc::U32, .. }) {
                    self.feat("textureLoad_integer");
                }
                vec![vec_res(e)]
            }
            "textureStore" => {
                let ic = self.icoord(dim);
                let v = format!("vec4<{}>({})", sc.name(), conv_from_f32(sc, "acc"));
                vec![format!("textureStore({}, {}{}, {});", name, ic, lay, v)]
            }
            "textureAtomic" => {
                self.feat("storage_atomic_op");
                let ic = self.icoord(dim);
                let (fns, one): (&[&str], &str) = match sc {
                    Sc::U64 => (&["textureAtomicMin", "textureAtomicMax"], "1lu"),
                    Sc::I32 => (
                        &["textureAtomicAdd", "textureAtomicMin", "textureAtomicMax", "textureAtomicAnd", "textureAtomicOr", "textureAtomicXor"],
                        "1",
                    ),
                    _ => (
                        &["textureAtomicAdd", "textureAtomicMin", "textureAtomicMax", "textureAtomicAnd", "textureAtomicOr", "textureAtomicXor"],
                        "1u",
                    ),
                };
                let f = *self.rng.pick(fns);
                vec![format!("{}({}, {}{}, {});", f, name, ic, lay, one)]
            }
            "textureSample" => {
                let fc = self.fcoord(dim);
                let off = if dim == Dim::D2 && !is_depth && self.rng.pct(35) {
                    self.feat("texture_offset");
                    ", vec2<i32>(1, -1)".to_string()
                } else {
                    String::new()
                };
                vec![vec_res(format!("textureSample({}, {}, {}{}{})", name, sp, fc, lay, off))]
            }
            "textureSampleBias" => {
                let fc = self.fcoord(dim);
                vec![vec_res(format!("textureSampleBias({}, {}, {}{}, {})", name, sp, fc, lay, self.flit()))]
            }
            "textureSampleLevel" => {
                let fc = self.fcoord(dim);
                let lvl = if is_depth { self.level_i32() } else { self.rng.pick(&["0.0", "1.0", "acc"]).to_string() };
                vec![vec_res(format!("textureSampleLevel({}, {}, {}{}, {})", name, sp, fc, lay, lvl))]
            }
            "textureSampleGrad" => {
                let fc = self.fcoord(dim);
                let g = match dim {
                    Dim::D2 | Dim::D2Array => "vec2<f32>(0.5)",
                    _ => "vec3<f32>(0.5)",
                };
                vec![vec_res(format!("textureSampleGrad({}, {}, {}{}, {}, {})", name, sp, fc, lay, g, g))]
            }
            "textureGather" => {
                let fc = self.fcoord(dim);
                if is_depth {
                    vec![format!("acc += textureGather({}, {}, {}{}).{};", name, sp, fc, lay, c)]
                } else {
                    let k = self.rng.below(4);
                    vec![vec_res(format!("textureGather({}, {}, {}, {}{})", k, name, sp, fc, lay))]
                }
            }
            "textureGatherCompare" => {
                let fc = self.fcoord(dim);
                vec![format!("acc += textureGatherCompare({}, {}, {}{}, {}).{};", name, sc_, fc, lay, self.flit(), c)]
            }
            "textureSampleCompare" | "textureSampleCompareLevel" => {
                let fc = self.fcoord(dim);
                vec![format!("acc += {}({}, {}, {}{}, {});", op, name, sc_, fc, lay, self.flit())]
            }
            _ => vec![format!("_ = {};", name)],
        }
    }

    fn access(&mut self, ctx: &mut Ctx, g: usize) -> Vec<String> {
        self.globals[g].uses += 1;
        let name = self.globals[g].name.clone();
        let pos = *ctx.pos.last().unwrap_or(&"plain");
        self.feat(pos_tag(false, pos));
        match self.globals[g].kind.clone() {
            GKind::Buffer { space, ty } => {
                self.feat(match space {
                    Space::Uniform => "use_uniform",
                    Space::StorageRead => "use_storage_read",
                    Space::StorageRW => "use_storage_rw",
                });
                self.access_data(&name, &ty, space == Space::StorageRW)
            }
            GKind::Private { ty, .. } => {
                self.feat("use_private");
                self.access_data(&name, &ty, true)
            }
            GKind::Workgroup { ty, .. } => {
                self.feat("use_workgroup");
                self.access_data(&name, &ty, true)
            }
            GKind::PushConst { ty } => {
                self.feat("use_push_constant");
                self.access_data(&name, &ty, false)
            }
            GKind::Tex(t) => self.access_tex(ctx, &name, &t),
            GKind::Sampler(_) => {
                self.feat("phony_use");
                vec![format!("_ = {};", name)]
            }
        }
    }

    fn phony(&mut self, g: usize) -> Vec<String> {
        self.globals[g].uses += 1;
        self.feat("phony_use");
        let name = self.globals[g].name.clone();
        match &self.globals[g].kind {
            GKind::Tex(_) | GKind::Sampler(_) => vec![format!("_ = {};", name)],
            GKind::Buffer { ty, .. } | GKind::Private { ty, .. } | GKind::Workgroup { ty, .. } | GKind::PushConst { ty } => {
                let f = ty_flags(&self.structs, ty);
                if f.has_rt || f.has_atomic || self.rng.pct(50) {
                    let l = self.local("lv");
                    vec![format!("let {} = &{};", l, name)]
                } else {
                    vec![format!("_ = {};", name)]
                }
            }
        }
    }

    // -----------------------------------------------------------------------------------------
    // Calls
    // -----------------------------------------------------------------------------------------

    fn returning(&self, ctx: &Ctx, min_params: usize) -> Vec<usize> {
        ctx.callable
            .iter()
            .copied()
            .filter(|&f| self.funcs[f].returns && self.funcs[f].nparams >= min_params)
            .collect()
    }

    fn call_expr(&mut self, ctx: &mut Ctx, f: usize, nested_ok: bool) -> String {
        ctx.called.push(f);
        let n = self.funcs[f].nparams;
        let name = self.funcs[f].name.clone();
        let mut args = Vec::new();
        for _ in 0..n {
            let r = self.returning(ctx, 0);
            if nested_ok && !r.is_empty() && self.rng.pct(15) {
                self.feat("call_as_arg");
                let g = *self.rng.pick(&r);
                args.push(self.call_expr(ctx, g, false));
            } else {
                args.push(match self.rng.below(4) {
                    0 => self.flit(),
                    1 => format!("acc * {}", self.flit()),
                    _ => "acc".to_string(),
                });
            }
        }
        format!("{}({})", name, args.join(", "))
    }

    fn cond(&mut self, ctx: &mut Ctx) -> String {
        let bools: Vec<String> = self.consts.iter().filter(|c| c.kind == CKind::Bool).map(|c| c.name.clone()).collect();
        if !bools.is_empty() && self.rng.pct(10) {
            // the whole condition is a module-scope constant (a "debug flag"): both branches still count as static uses
            self.feat("cond_is_bool_const");
            let b = self.rng.pick(&bools).clone();
            return if self.rng.pct(50) { b } else { format!("!{}", b) };
        }
        let op = *self.rng.pick(&["<", ">", "<=", ">=", "!="]);
        let lit = self.flit();
        let r = self.returning(ctx, 0);
        if !r.is_empty() && !ctx.in_continuing && self.rng.pct(18) {
            self.feat("call_in_condition");
            let f = *self.rng.pick(&r);
            let c = self.call_expr(ctx, f, true);
            return format!("{} {} {}", c, op, lit);
        }
        format!("acc {} {}", op, lit)
    }

    fn render_call(&mut self, ctx: &mut Ctx, f: usize) -> Vec<String> {
        let pos = *ctx.pos.last().unwrap_or(&"plain");
        self.feat(pos_tag(true, pos));
        if !self.funcs[f].returns {
            self.feat("call_void_stmt");
            let c = self.call_expr(ctx, f, true);
            if self.rng.pct(20) {
                self.feat("call_void_repeated");
                return vec![format!("{};", c), format!("{};", c)];
            }
            return vec![format!("{};", c)];
        }
        let c = self.call_expr(ctx, f, true);
        match self.rng.below(10) {
            0 | 1 => {
                self.feat("call_in_expr");
                vec![format!("acc += {};", c)]
            }
            2 => {
                self.feat("call_let");
                let l = self.local("lv");
                vec![format!("let {} = {};", l, c), format!("acc = acc + {};", l)]
            }
            3 => {
                self.feat("call_in_expr_multi");
                let r = self.returning(ctx, 0);
                let g = *self.rng.pick(&r);
                let c2 = self.call_expr(ctx, g, true);
                let l = self.local("lv");
                vec![format!("let {} = {} + {} * {};", l, self.flit(), c, c2), format!("acc += {};", l)]
            }
            4 => {
                self.feat("call_discard_phony");
                vec![format!("_ = {};", c)]
            }
            5 => {
                self.feat("call_value_as_stmt");
                vec![format!("{};", c)]
            }
            6 => {
                let hs = self.returning(ctx, 1);
                if hs.is_empty() {
                    self.feat("call_in_expr");
                    vec![format!("acc = acc * {} + {};", self.flit(), c)]
                } else {
                    self.feat("call_as_arg");
                    let h = *self.rng.pick(&hs);
                    ctx.called.push(h);
                    let hn = self.funcs[h].name.clone();
                    let mut args = vec![c];
                    for _ in 1..self.funcs[h].nparams {
                        args.push("acc".to_string());
                    }
                    vec![format!("acc = {}({});", hn, args.join(", "))]
                }
            }
            7 => {
                self.feat("call_var_init");
                let l = self.local("lv");
                vec![format!("var {}: f32 = {};", l, c), format!("{} += 1.0;", l), format!("acc = {};", l)]
            }
            8 => {
                self.feat("call_in_condition");
                vec![format!("if ({} > acc) {{ acc = acc + 1.0; }}", c)]
            }
            _ => {
                self.feat("call_in_expr");
                vec![format!("acc = max(acc, {}) - {};", c, self.flit())]
            }
        }
    }

    // -----------------------------------------------------------------------------------------
    // Misc statements
    // -----------------------------------------------------------------------------------------

    fn const_use(&mut self) -> Option<String> {
        if self.consts.is_empty() {
            return None;
        }
        let k = self.rng.below(self.consts.len());
        let c = self.consts[k].clone();
        self.feat("const_used");
        Some(match c.kind {
            CKind::AInt | CKind::I32 | CKind::U32 => format!("f32({})", c.name),
            // naga's constant evaluator cannot cast an f64 literal to f32: keep it a runtime cast
            CKind::F64 => format!("f32({} + f64(acc))", c.name),
            CKind::AFloat | CKind::F32 => c.name.clone(),
            CKind::Bool => format!("select(0.0, 1.0, {})", c.name),
            CKind::Vec(n, s) => {
                let i = self.rng.below(n as usize);
                conv_to_f32(s, &format!("{}.{}", c.name, COMPS[i]))
            }
            CKind::Arr(n, s) => {
                let i = self.rng.below(n as usize);
                conv_to_f32(s, &format!("{}[{}]", c.name, i))
            }
            CKind::Zero => "0.25".to_string(),
        })
    }

    fn override_use(&mut self) -> Option<String> {
        if self.overrides.is_empty() {
            return None;
        }
        let k = self.rng.below(self.overrides.len());
        let o = self.overrides[k].clone();
        self.feat("override_used");
        Some(conv_to_f32(o.sc, &o.name))
    }

    fn misc(&mut self) -> Vec<String> {
        match self.rng.below(9) {
            0 => {
                if let Some(e) = self.const_use() {
                    return vec![format!("acc += {};", e)];
                }
                vec![format!("acc = acc * {} + {};", self.flit(), self.flit())]
            }
            1 => {
                if let Some(e) = self.override_use() {
                    return vec![format!("acc += {};", e)];
                }
                vec![format!("acc = acc - {};", self.flit())]
            }
            2 => {
                let f = *self.rng.pick(&["sin", "cos", "abs", "floor", "fract", "sqrt", "exp2", "saturate"]);
                vec![format!("acc = {}(acc);", f)]
            }
            3 if self.rng.pct(50) => {
                // function-scope constants (also one that SHADOWS a module-scope constant): they are not module constants
                self.feat("local_const");
                let shadow: Vec<String> = self.consts.iter().filter(|c| matches!(c.kind, CKind::F32 | CKind::AFloat)).map(|c| c.name.clone()).collect();
                if !shadow.is_empty() && self.rng.pct(30) {
                    self.feat("local_const_shadows_module_const");
                    let n = self.rng.pick(&shadow).clone();
                    vec![format!("{{ const {}: f32 = 7.25; acc += {}; }}", n, n)]
                } else {
                    let l = self.local("LK");
                    match self.rng.below(3) {
                        0 => vec![format!("const {} = 3;", l), format!("acc += f32({});", l)],
                        1 => vec![format!("const {}: u32 = 5u;", l), format!("acc += f32({});", l)],
                        _ => vec![format!("const {} = -1.5;", l), format!("acc += {};", l)],
                    }
                }
            }
            3 => vec![format!("acc = clamp(acc, 0.0, {});", self.flit())],
            4 => {
                let l = self.local("lv");
                vec![format!("var {}: f32 = acc;", l), format!("{} *= {};", l, self.flit()), format!("acc = {};", l)]
            }
            5 => {
                self.feat("local_pointer");
                let l = self.local("lv");
                vec![format!("let {} = &acc;", l), format!("*{} += {};", l, self.flit())]
            }
            6 if !self.local_structs.is_empty() => {
                self.feat("struct_function_local");
                let s = *self.rng.pick(&self.local_structs.clone());
                let ty = Ty::Struct(s);
                let l = self.local("lv");
                let decl = if self.rng.pct(50) && size_align(&self.structs, &ty).0 <= 256 {
                    format!("var {} = {};", l, self.splat(&ty, "acc"))
                } else {
                    format!("var {}: {};", l, self.structs[s].name)
                };
                let w = self.write_leaf(&ty, &l, "acc");
                let r = self.read_f32(&ty, &l, true);
                vec![decl, w, format!("acc += {};", r)]
            }
            7 => {
                let l = self.local("lv");
                let n = self.rng.range(2, 4);
                vec![
                    format!("var {} = vec{}<f32>(acc);", l, n),
                    format!("{}.{} = {};", l, COMPS[self.rng.below(n)], self.flit()),
                    format!("acc = dot({}, {});", l, l),
                ]
            }
            _ => vec![format!("acc = acc * {} + {};", self.flit(), self.flit())],
        }
    }
}

// ---------------------------------------------------------------------------------------------
// Nesting of actions into control flow
// ---------------------------------------------------------------------------------------------

impl Gen {
    fn leaf(&mut self, ctx: &mut Ctx, a: &Act, lvl: usize) -> String {
        let stmts = match a {
            Act::Access(g) => self.access(ctx, *g),
            Act::Call(f) => self.render_call(ctx, *f),
            Act::Phony(g) => self.phony(*g),
            Act::Misc => self.misc(),
        };
        let mut out = String::new();
        for s in stmts {
            out.push_str(&ind(lvl));
            out.push_str(&s);
            out.push('\n');
        }
        out
    }

    fn nest(&mut self, ctx: &mut Ctx, acts: &[Act], depth: usize, lvl: usize) -> String {
        let mut out = String::new();
        let mut i = 0;
        while i < acts.len() {
            if depth < ctx.max_nest && self.rng.pct(ctx.nest_pct) {
                let k = self.rng.range(1, (acts.len() - i).min(4));
                let sub = acts[i..i + k].to_vec();
                i += k;
                out.push_str(&self.construct(ctx, &sub, depth + 1, lvl));
            } else {
                out.push_str(&self.leaf(ctx, &acts[i], lvl));
                i += 1;
            }
        }
        out
    }

    fn split(&mut self, acts: &[Act], k: usize) -> Vec<Vec<Act>> {
        let mut parts: Vec<Vec<Act>> = (0..k).map(|_| Vec::new()).collect();
        // make sure the first part is non-empty, spread the rest randomly
        for (i, a) in acts.iter().enumerate() {
            let p = if i < k && self.rng.pct(70) { i } else { self.rng.below(k) };
            parts[p].push(a.clone());
        }
        parts
    }

    fn sub(&mut self, ctx: &mut Ctx, pos: &'static str, acts: &[Act], depth: usize, lvl: usize) -> String {
        ctx.pos.push(pos);
        let s = self.nest(ctx, acts, depth, lvl);
        ctx.pos.pop();
        s
    }

    fn construct(&mut self, ctx: &mut Ctx, acts: &[Act], depth: usize, lvl: usize) -> String {
        let i0 = ind(lvl);
        let i1 = ind(lvl + 1);
        let i2 = ind(lvl + 2);
        let w: [u32; 7] = if ctx.in_continuing {
            [30, 25, 10, 5, 10, 5, 15]
        } else {
            [22, 20, 15, 14, 10, 8, 11]
        };
        match self.rng.weighted(&w) {
            0 => {
                self.feat("nest_if");
                let c = self.cond(ctx);
                let body = self.sub(ctx, "if", acts, depth, lvl + 1);
                if self.rng.pct(25) {
                    format!("{}if {} {{\n{}{}}}\n", i0, c, body, i0)
                } else {
                    format!("{}if ({}) {{\n{}{}}}\n", i0, c, body, i0)
                }
            }
            1 => {
                self.feat("nest_if_else");
                let c = self.cond(ctx);
                let n = if acts.len() >= 3 && self.rng.pct(30) { 3 } else { 2 };
                let parts = self.split(acts, n);
                let a = self.sub(ctx, "if", &parts[0], depth, lvl + 1);
                let mut out = format!("{}if ({}) {{\n{}{}}}", i0, c, a, i0);
                if n == 3 {
                    self.feat("nest_else_if");
                    let c2 = self.cond(ctx);
                    let b = self.sub(ctx, "else", &parts[1], depth, lvl + 1);
                    out.push_str(&format!(" else if ({}) {{\n{}{}}}", c2, b, i0));
                }
                let e = self.sub(ctx, "else", &parts[n - 1], depth, lvl + 1);
                out.push_str(&format!(" else {{\n{}{}}}\n", e, i0));
                out
            }
            2 => {
                self.feat("nest_switch");
                let n = self.rng.range(2, 4);
                let parts = self.split(acts, n);
                let sel = match self.rng.below(3) {
                    0 => "i32(acc)".to_string(),
                    1 => "u32(acc) % 4u".to_string(),
                    _ => format!("i32(acc * {})", self.flit()),
                };
                let unsigned = sel.starts_with("u32");
                let suffix = if unsigned { "u" } else { "" };
                let default_at = self.rng.below(n);
                let mut out = format!("{}switch {} {{\n", i0, sel);
                let mut next_case = 0;
                for (k, p) in parts.iter().enumerate() {
                    if k == default_at {
                        let body = self.sub(ctx, "default", p, depth, lvl + 2);
                        if self.rng.pct(20) {
                            self.feat("switch_case_default_combined");
                            out.push_str(&format!("{}case {}{}, default: {{\n{}{}}}\n", i1, next_case, suffix, body, i1));
                            next_case += 1;
                        } else if self.rng.pct(30) {
                            out.push_str(&format!("{}default {{\n{}{}}}\n", i1, body, i1));
                        } else {
                            out.push_str(&format!("{}default: {{\n{}{}}}\n", i1, body, i1));
                        }
                    } else {
                        let body = self.sub(ctx, "case", p, depth, lvl + 2);
                        if self.rng.pct(30) {
                            out.push_str(&format!(
                                "{}case {}{}, {}{}: {{\n{}{}}}\n",
                                i1, next_case, suffix, next_case + 1, suffix, body, i1
                            ));
                            next_case += 2;
                        } else {
                            out.push_str(&format!("{}case {}{}: {{\n{}{}}}\n", i1, next_case, suffix, body, i1));
                            next_case += 1;
                        }
                    }
                }
                out.push_str(&format!("{}}}\n", i0));
                out
            }
            3 => {
                self.feat("nest_loop");
                let ix = self.local("ix");
                let parts = self.split(acts, 2);
                let mut out = format!("{}var {}: u32 = 0u;\n{}loop {{\n", i0, ix, i0);
                if self.rng.pct(40) {
                    self.feat("loop_break_stmt");
                    out.push_str(&format!("{}if ({} >= 3u) {{ break; }}\n", i1, ix));
                }
                out.push_str(&self.sub(ctx, "loop", &parts[0], depth, lvl + 1));
                out.push_str(&format!("{}continuing {{\n", i1));
                let was = ctx.in_continuing;
                ctx.in_continuing = true;
                if !parts[1].is_empty() {
                    self.feat("nest_continuing");
                }
                out.push_str(&self.sub(ctx, "continuing", &parts[1], depth, lvl + 2));
                ctx.in_continuing = was;
                out.push_str(&format!("{}{} += 1u;\n", i2, ix));
                let r = self.returning(ctx, 0);
                if !r.is_empty() && self.rng.pct(15) {
                    self.feat("call_in_break_if");
                    let f = *self.rng.pick(&r);
                    let c = self.call_expr(ctx, f, false);
                    out.push_str(&format!("{}break if {} >= 2u || {} > 1000.0;\n", i2, ix, c));
                } else {
                    out.push_str(&format!("{}break if {} >= 2u;\n", i2, ix));
                }
                out.push_str(&format!("{}}}\n{}}}\n", i1, i0));
                out
            }
            4 => {
                self.feat("nest_for");
                let ix = self.local("ix");
                let k = self.rng.range(1, 3);
                let r = self.returning(ctx, 0);
                let extra = if !r.is_empty() && !ctx.in_continuing && self.rng.pct(15) {
                    self.feat("call_in_for_header");
                    let f = *self.rng.pick(&r);
                    format!(" && {} < 1000.0", self.call_expr(ctx, f, false))
                } else {
                    String::new()
                };
                let inc = if self.rng.pct(50) { format!("{}++", ix) } else { format!("{} += 1", ix) };
                let body = self.sub(ctx, "for", acts, depth, lvl + 1);
                format!("{}for (var {}: i32 = 0; {} < {}{}; {}) {{\n{}{}}}\n", i0, ix, ix, k, extra, inc, body, i0)
            }
            5 => {
                self.feat("nest_while");
                let ix = self.local("ix");
                let k = self.rng.range(1, 3);
                let body = self.sub(ctx, "while", acts, depth, lvl + 1);
                format!(
                    "{}var {} = 0;\n{}while ({} < {}) {{\n{}{} += 1;\n{}{}}}\n",
                    i0, ix, i0, ix, k, i1, ix, body, i0
                )
            }
            _ => {
                self.feat("nest_block");
                let body = self.sub(ctx, "block", acts, depth, lvl + 1);
                format!("{}{{\n{}{}}}\n", i0, body, i0)
            }
        }
    }

    // -----------------------------------------------------------------------------------------
    // Choosing actions
    // -----------------------------------------------------------------------------------------

    /// Globals that may be referenced from code restricted to stages `mask`.
    fn usable_globals(&self, mask: u8) -> Vec<usize> {
        self.globals
            .iter()
            .enumerate()
            .filter(|(_, g)| !g.no_use)
            .filter(|(_, g)| !matches!(g.kind, GKind::Workgroup { .. }) || mask == ST_C)
            .filter(|(_, g)| !matches!(g.kind, GKind::Sampler(_)))
            .map(|(i, _)| i)
            .collect()
    }

    fn callable_for(&self, mask: u8, cap: usize) -> Vec<usize> {
        (0..self.funcs.len())
            .filter(|&f| self.funcs[f].mask & mask == mask && self.funcs[f].depth < cap)
            .collect()
    }

    /// Random action list: `n` actions mixing accesses (biased toward unused globals), calls
    /// and misc statements, plus the mandatory ones.
    fn choose_actions(&mut self, ctx: &Ctx, n: usize, must_calls: &[usize], must_access: &[usize], call_pct: u32, deep_bias: u32) -> Vec<Act> {
        let mut acts: Vec<Act> = Vec::new();
        for &f in must_calls {
            acts.push(Act::Call(f));
        }
        for &g in must_access {
            acts.push(Act::Access(g));
        }
        let usable = self.usable_globals(ctx.mask);
        for _ in 0..n {
            let r = self.rng.below(100) as u32;
            if r < call_pct && !ctx.callable.is_empty() {
                // bias toward recently declared helpers so that call chains get deep
                let n = ctx.callable.len();
                let f = if self.rng.pct(deep_bias) { ctx.callable[n - 1 - self.rng.below(n.min(if deep_bias > 70 { 2 } else { 3 }))] } else { *self.rng.pick(&ctx.callable) };
                acts.push(Act::Call(f));
            } else if r < call_pct + 45 && !usable.is_empty() {
                // prefer globals nobody touched yet
                let unused: Vec<usize> = usable.iter().copied().filter(|&g| self.globals[g].uses == 0).collect();
                let g = if !unused.is_empty() && self.rng.pct(70) { *self.rng.pick(&unused) } else { *self.rng.pick(&usable) };
                if self.rng.pct(5) {
                    acts.push(Act::Phony(g));
                } else {
                    acts.push(Act::Access(g));
                }
            } else {
                acts.push(Act::Misc);
            }
        }
        self.rng.shuffle(&mut acts);
        acts
    }

    fn new_ctx(&self, mask: u8, cfg: &Cfg) -> Ctx {
        Ctx {
            mask,
            callable: self.callable_for(mask, cfg.call_depth_cap),
            max_nest: cfg.max_nest,
            nest_pct: cfg.nest_pct,
            called: Vec::new(),
            pos: Vec::new(),
            in_continuing: false,
            depth_cap: cfg.call_depth_cap,
        }
    }

    fn depth_of_calls(&self, called: &[usize]) -> usize {
        1 + called.iter().map(|&f| self.funcs[f].depth).max().unwrap_or(0)
    }

    // -----------------------------------------------------------------------------------------
    // Helper functions
    // -----------------------------------------------------------------------------------------

    fn gen_helper(&mut self, cfg: &Cfg, must_calls: &[usize], must_access: &[usize], want_mask: Option<u8>) -> usize {
        self.lv = 0;
        let mut mask = want_mask.unwrap_or_else(|| match self.rng.below(20) {
            0..=11 => ST_ALL,
            12 | 13 => ST_F,
            14 | 15 => ST_C,
            16 => ST_V,
            17 => ST_V | ST_F,
            18 => ST_F | ST_C,
            _ => ST_V | ST_C,
        });
        let mut must_calls: Vec<usize> = must_calls.to_vec();
        if must_calls.is_empty() && !cfg.shapes && !self.funcs.is_empty() && self.rng.pct(cfg.deep_bias * 7 / 10) {
            // extend the most recent helper into a chain
            let last = self.funcs.len() - 1;
            if self.funcs[last].depth < cfg.call_depth_cap {
                must_calls.push(last);
            }
        }
        let mut calls: Vec<usize> = Vec::new();
        for &f in &must_calls {
            if self.funcs[f].mask & mask != 0 {
                mask &= self.funcs[f].mask;
                calls.push(f);
            }
        }
        let accesses: Vec<usize> = must_access
            .iter()
            .copied()
            .filter(|&g| !matches!(self.globals[g].kind, GKind::Workgroup { .. }) || mask == ST_C)
            .collect();
        let mut ctx = self.new_ctx(mask, cfg);
        // mandated callees ignore the depth cap filter but must be stage compatible (ensured above)
        let name = self.fresh(0);
        let nparams = *self.rng.pick(&[0, 0, 0, 1, 1, 2]);
        let returns = self.rng.pct(70);
        let n = self.rng.range(cfg.acts.0, cfg.acts.1);
        let call_pct = if cfg.shapes { 5 } else { 30 };
        let acts = self.choose_actions(&ctx, n, &calls, &accesses, call_pct, cfg.deep_bias);
        let mut body = String::new();
        let init = if nparams > 0 { "arg0".to_string() } else { self.flit() };
        body.push_str(&format!("{}var acc: f32 = {};\n", ind(1), init));
        if nparams > 1 {
            body.push_str(&format!("{}acc += arg1;\n", ind(1)));
        }
        body.push_str(&self.nest(&mut ctx, &acts, 0, 1));
        if returns {
            body.push_str(&format!("{}return acc;\n", ind(1)));
        } else if self.rng.pct(20) {
            body.push_str(&format!("{}return;\n", ind(1)));
        }
        let params: Vec<String> = (0..nparams).map(|i| format!("arg{}: f32", i)).collect();
        let ret = if returns { " -> f32" } else { "" };
        let text = format!("fn {}({}){} {{\n{}}}\n", name, params.join(", "), ret, body);
        let depth = self.depth_of_calls(&ctx.called);
        match mask {
            ST_F => self.feat("helper_fragment_only"),
            ST_C => self.feat("helper_compute_only"),
            ST_ALL => self.feat("helper_any_stage"),
            _ => self.feat("helper_two_stages"),
        }
        if depth >= 6 {
            self.feat("call_depth_ge6");
        }
        if depth >= 10 {
            self.feat("call_depth_ge10");
        }
        for &c in &ctx.called {
            self.callee_set.insert(c);
        }
        self.entries.push(text.clone());
        self.funcs.push(Func { name, nparams, returns, mask, depth, text });
        self.funcs.len() - 1
    }

    // -----------------------------------------------------------------------------------------
    // Globals
    // -----------------------------------------------------------------------------------------

    fn push_global(&mut self, name: String, kind: GKind) -> usize {
        self.globals.push(Global { name, kind, group: 0, binding: 0, uses: 0, no_use: false });
        self.globals.len() - 1
    }

    fn gen_simple_buffer_ty(&mut self, space: Space) -> Ty {
        match self.rng.below(6) {
            0 => Ty::Scalar(*self.rng.pick(&[Sc::F32, Sc::U32, Sc::I32])),
            1 => Ty::Vec(4, Sc::F32),
            2 => Ty::Mat(4, 4),
            3 if space != Space::Uniform => Ty::RtArray(Box::new(Ty::Scalar(Sc::F32))),
            4 => Ty::Array(Box::new(Ty::Vec(4, Sc::F32)), self.rng.range(1, 8) as u32),
            _ => {
                let req = if space == Space::Uniform { Req::UNIFORM } else { Req::STORAGE_RO };
                Ty::Struct(self.gen_struct(req, 0, (1, 3), false))
            }
        }
    }

    fn req_for(&self, space: Space) -> Req {
        let mut r = match space {
            Space::Uniform => Req::UNIFORM,
            Space::StorageRead => Req::STORAGE_RO,
            Space::StorageRW => Req::STORAGE_RW,
        };
        r.f64_ok = self.allow_f64;
        r
    }

    fn gen_buffer_ty(&mut self, cfg: &Cfg, space: Space) -> Ty {
        if cfg.simple_buffers {
            return self.gen_simple_buffer_ty(space);
        }
        let req = self.req_for(space);
        let storage = space != Space::Uniform;
        let w = if self.struct_roles { [75, 12, if storage { 13 } else { 0 }, 0, 0, 0] } else { [50, 15, if storage { 15 } else { 0 }, 7, 8, 5] };
        match self.rng.weighted(&w) {
            0 => {
                self.feat("buffer_struct");
                let rt = storage && self.rng.pct(30);
                // reuse an existing compatible struct sometimes (a struct in several roles)
                if !rt && self.rng.pct(25) {
                    let c: Vec<usize> = (0..self.structs.len())
                        .filter(|&i| {
                            let t = Ty::Struct(i);
                            !ty_flags(&self.structs, &t).has_rt && satisfies(&self.structs, &t, req)
                        })
                        .collect();
                    if !c.is_empty() {
                        self.feat("struct_multi_role");
                        return Ty::Struct(*self.rng.pick(&c));
                    }
                }
                Ty::Struct(self.gen_struct(req, cfg.struct_depth, cfg.struct_members, rt))
            }
            1 => {
                self.feat("buffer_fixed_array");
                let n = self.gen_array_len();
                for _ in 0..8 {
                    let e = self.gen_member_ty(req, cfg.struct_depth.min(1), 1);
                    let a = Ty::Array(Box::new(e), n);
                    if (!req.uniform || uniform_align(&self.structs, &a).is_some()) && size_align(&self.structs, &a).0 < (1 << 20) {
                        return a;
                    }
                }
                Ty::Array(Box::new(Ty::Vec(4, Sc::F32)), n)
            }
            2 => {
                self.feat("buffer_rt_array");
                let mut r = req;
                r.uniform = false;
                let e = self.gen_member_ty(r, cfg.struct_depth.min(1), 1);
                Ty::RtArray(Box::new(e))
            }
            3 => {
                self.feat("buffer_scalar");
                Ty::Scalar(*self.rng.pick(&[Sc::F32, Sc::U32, Sc::I32]))
            }
            4 => {
                self.feat("buffer_vector");
                Ty::Vec(self.rng.range(2, 4) as u8, *self.rng.pick(&[Sc::F32, Sc::U32, Sc::I32]))
            }
            _ => {
                self.feat("buffer_matrix");
                Ty::Mat(self.rng.range(2, 4) as u8, self.rng.range(2, 4) as u8)
            }
        }
    }

    fn gen_buffer(&mut self, cfg: &Cfg) -> usize {
        let space = match self.rng.below(10) {
            0..=3 => Space::Uniform,
            4..=6 => Space::StorageRead,
            _ => Space::StorageRW,
        };
        self.feat(match space {
            Space::Uniform => "var_uniform",
            Space::StorageRead => "var_storage_read",
            Space::StorageRW => "var_storage_rw",
        });
        let ty = if space == Space::StorageRW && !cfg.simple_buffers && self.rng.permille(8) {
            // documented unsupported by wgsl_to_wgpu (panics): a bare atomic binding
            self.feat("atomic_binding");
            Ty::Atomic(Sc::U32)
        } else {
            self.gen_buffer_ty(cfg, space)
        };
        let name = self.fresh(0);
        self.push_global(name, GKind::Buffer { space, ty })
    }

    fn random_tex(&mut self) -> Tex {
        let kinds = [Sc::F32, Sc::F32, Sc::I32, Sc::U32];
        match self.rng.weighted(&[40, 8, 16, 4, 32]) {
            0 => {
                let dim = *self.rng.pick(&[Dim::D1, Dim::D2, Dim::D2, Dim::D2Array, Dim::D3, Dim::Cube, Dim::CubeArray]);
                Tex::Sampled { dim, sc: *self.rng.pick(&kinds) }
            }
            1 => Tex::Multi { sc: *self.rng.pick(&kinds) },
            2 => Tex::Depth { dim: *self.rng.pick(&[Dim::D2, Dim::D2Array, Dim::Cube, Dim::CubeArray]) },
            3 => Tex::DepthMulti,
            _ => {
                let dim = *self.rng.pick(&[Dim::D1, Dim::D2, Dim::D2, Dim::D2Array, Dim::D3]);
                if self.rng.pct(7) {
                    self.feat("storage_atomic");
                    let (fmt, sc) = *self.rng.pick(&[("r32uint", Sc::U32), ("r32sint", Sc::I32), ("r64uint", Sc::U64)]);
                    self.feat(fmt_feature(fmt));
                    Tex::Storage { dim, fmt, sc, access: "atomic" }
                } else {
                    let (fmt, sc) = *self.rng.pick(STORAGE_FORMATS);
                    let access = *self.rng.pick(&["read", "write", "read_write"]);
                    self.feat(fmt_feature(fmt));
                    self.feat(match access {
                        "read" => "storage_read",
                        "write" => "storage_write",
                        _ => "storage_read_write",
                    });
                    Tex::Storage { dim, fmt, sc, access }
                }
            }
        }
    }

    fn gen_texture(&mut self) -> usize {
        let t = self.random_tex();
        self.feat(tex_feature(&t));
        let name = self.fresh(0);
        self.push_global(name, GKind::Tex(t))
    }

    /// Adds the samplers required to exercise the declared textures.
    fn gen_samplers(&mut self) {
        let mut need_plain = false;
        let mut need_cmp = false;
        for g in &self.globals {
            match &g.kind {
                GKind::Tex(Tex::Sampled { .. }) => need_plain = true,
                GKind::Tex(Tex::Depth { .. }) => {
                    need_cmp = true;
                    need_plain = true;
                }
                _ => {}
            }
        }
        if need_plain && self.rng.pct(90) {
            let n = if self.rng.pct(15) { 2 } else { 1 };
            for _ in 0..n {
                self.feat("sampler");
                let name = self.fresh(0);
                self.push_global(name, GKind::Sampler(false));
            }
        }
        if need_cmp && self.rng.pct(90) {
            self.feat("sampler_comparison");
            let name = self.fresh(0);
            self.push_global(name, GKind::Sampler(true));
        }
    }

    fn gen_private(&mut self, cfg: &Cfg) -> usize {
        self.feat("var_private");
        let mut req = Req::PRIVATE;
        req.f64_ok = self.allow_f64;
        let ty = if self.struct_roles {
            self.feat("struct_private");
            Ty::Struct(self.gen_struct(req, cfg.struct_depth, cfg.struct_members, false))
        } else if self.rng.pct(50) {
            self.gen_leaf(req)
        } else {
            self.gen_member_ty(req, cfg.struct_depth.min(2), 0)
        };
        let init = if self.rng.pct(35) && size_align(&self.structs, &ty).0 <= 128 {
            self.feat("private_init");
            let v = self.flit();
            Some(self.splat(&ty, &v))
        } else {
            None
        };
        let name = self.fresh(0);
        self.push_global(name, GKind::Private { ty, init })
    }

    fn gen_workgroup(&mut self, cfg: &Cfg) -> usize {
        self.feat("var_workgroup");
        let mut req = Req::WORKGROUP;
        req.f64_ok = self.allow_f64;
        let u32_overrides: Vec<String> = self
            .overrides
            .iter()
            .filter(|o| o.sc == Sc::U32 && o.has_default)
            .map(|o| o.name.clone())
            .collect();
        let name = self.fresh(0);
        if !u32_overrides.is_empty() && self.rng.pct(25) {
            self.feat("override_array_len");
            let o = self.rng.pick(&u32_overrides).clone();
            let elem = if self.rng.pct(50) { Ty::Scalar(Sc::F32) } else { Ty::Atomic(Sc::U32) };
            let len = if self.rng.pct(30) { format!("{} * 2u", o) } else { o };
            return self.push_global(name, GKind::Workgroup { ty: Ty::Array(Box::new(elem), 1), len: Some(len) });
        }
        let ty = if self.struct_roles {
            self.feat("struct_workgroup");
            Ty::Struct(self.gen_struct(req, cfg.struct_depth, cfg.struct_members, false))
        } else if self.rng.pct(40) {
            self.gen_leaf(req)
        } else {
            self.gen_member_ty(req, cfg.struct_depth.min(2), 0)
        };
        self.push_global(name, GKind::Workgroup { ty, len: None })
    }

    fn gen_push_const(&mut self, cfg: &Cfg) -> usize {
        self.feat("var_push_constant");
        let req = Req::STORAGE_RO;
        let ty = match self.rng.below(5) {
            0 => Ty::Scalar(*self.rng.pick(&[Sc::F32, Sc::U32, Sc::I32])),
            1 => Ty::Vec(self.rng.range(2, 4) as u8, Sc::F32),
            2 => Ty::Mat(self.rng.range(2, 4) as u8, self.rng.range(2, 4) as u8),
            3 => Ty::Array(Box::new(self.gen_leaf(req)), self.rng.range(1, 8) as u32),
            _ => Ty::Struct(self.gen_struct(req, cfg.struct_depth.min(1), (2, 5), false)),
        };
        let name = if self.rng.pct(30) && self.claim("pc") { "pc".to_string() } else { self.fresh(0) };
        self.push_global(name, GKind::PushConst { ty })
    }

    /// Assigns (group, binding) to all resource globals: groups dense `0..n` but declaration
    /// order unrelated to index order; bindings distinct per group, often sparse / unordered.
    fn assign_bindings(&mut self, max_groups: usize) {
        let res: Vec<usize> = (0..self.globals.len())
            .filter(|&i| matches!(self.globals[i].kind, GKind::Buffer { .. } | GKind::Tex(_) | GKind::Sampler(_)))
            .collect();
        if res.is_empty() {
            return;
        }
        let cap = if self.rng.pct(5) { 8 } else { max_groups };
        let ng = self.rng.range(1, cap.min(res.len()).max(1));
        if ng > 4 {
            self.feat("groups_gt4");
        }
        if ng > 1 {
            self.feat("multi_group");
        }
        // every group gets at least one resource
        let mut order = res.clone();
        self.rng.shuffle(&mut order);
        let mut per_group: Vec<Vec<usize>> = (0..ng).map(|_| Vec::new()).collect();
        for (k, &g) in order.iter().enumerate() {
            let grp = if k < ng { k } else { self.rng.below(ng) };
            per_group[grp].push(g);
        }
        for (grp, members) in per_group.iter().enumerate() {
            let sparse = self.rng.pct(40);
            if sparse {
                self.feat("sparse_bindings");
            }
            let mut used: Vec<u32> = Vec::new();
            for (k, &g) in members.iter().enumerate() {
                let b = if sparse {
                    let mut b;
                    loop {
                        b = match self.rng.below(12) {
                            0..=5 => self.rng.below(12) as u32,
                            6 => 16,
                            7 => 31,
                            8 => 100 + self.rng.below(100) as u32,
                            9 => 1000,
                            10 => 65535,
                            _ => {
                                self.feat("huge_binding");
                                4000000000u32 - self.rng.below(3) as u32
                            }
                        };
                        if !used.contains(&b) {
                            break;
                        }
                    }
                    b
                } else {
                    k as u32
                };
                used.push(b);
                self.globals[g].group = grp as u32;
                self.globals[g].binding = b;
            }
            if !sparse && members.len() > 1 && self.rng.pct(60) {
                // dense indices, but permuted relative to declaration order
                let mut bs: Vec<u32> = (0..members.len() as u32).collect();
                self.rng.shuffle(&mut bs);
                for (k, &g) in members.iter().enumerate() {
                    self.globals[g].binding = bs[k];
                }
            }
        }
    }

    fn render_global(&mut self, i: usize) -> String {
        let g = self.globals[i].clone();
        let attr = |s: &mut Gen| -> String {
            let b = if g.binding > 2147483647 || s.rng.pct(8) { format!("{}u", g.binding) } else { format!("{}", g.binding) };
            let gr = if g.group > 2147483647 || s.rng.pct(8) { format!("{}u", g.group) } else { format!("{}", g.group) };
            if s.rng.pct(12) {
                s.feat("binding_before_group");
                format!("@binding({}) @group({})", b, gr)
            } else {
                format!("@group({}) @binding({})", gr, b)
            }
        };
        match &g.kind {
            GKind::Buffer { space, ty } => {
                let sp = match space {
                    Space::Uniform => "var<uniform>",
                    Space::StorageRead => {
                        if self.rng.pct(30) {
                            "var<storage>"
                        } else {
                            "var<storage, read>"
                        }
                    }
                    Space::StorageRW => "var<storage, read_write>",
                };
                format!("{} {} {}: {};\n", attr(self), sp, g.name, self.ts(ty))
            }
            GKind::Tex(t) => format!("{} var {}: {};\n", attr(self), g.name, t.wgsl()),
            GKind::Sampler(c) => {
                format!("{} var {}: {};\n", attr(self), g.name, if *c { "sampler_comparison" } else { "sampler" })
            }
            GKind::Private { ty, init } => match init {
                Some(e) => format!("var<private> {}: {} = {};\n", g.name, self.ts(ty), e),
                None => format!("var<private> {}: {};\n", g.name, self.ts(ty)),
            },
            GKind::Workgroup { ty, len } => match (len, ty) {
                (Some(l), Ty::Array(e, _)) => format!("var<workgroup> {}: array<{}, {}>;\n", g.name, self.ts(e), l),
                _ => format!("var<workgroup> {}: {};\n", g.name, self.ts(ty)),
            },
            GKind::PushConst { ty } => format!("var<push_constant> {}: {};\n", g.name, self.ts(ty)),
        }
    }

    fn render_struct(&mut self, i: usize) -> String {
        let s = self.structs[i].clone();
        let mut out = format!("struct {} {{\n", s.name);
        let n = s.members.len();
        for (k, m) in s.members.iter().enumerate() {
            let mut attrs = String::new();
            if let Some(io) = &m.io {
                attrs.push_str(io);
                attrs.push(' ');
            }
            if let Some(a) = m.align {
                attrs.push_str(&format!("@align({}) ", a));
            }
            if let Some(sz) = m.size {
                attrs.push_str(&format!("@size({}) ", sz));
            }
            let comma = if k + 1 == n && self.rng.pct(40) { "" } else { "," };
            out.push_str(&format!("    {}{}: {}{}\n", attrs, m.name, self.ts(&m.ty), comma));
        }
        out.push_str(if self.rng.pct(15) { "};\n" } else { "}\n" });
        out
    }
}

// ---------------------------------------------------------------------------------------------
// Constants and overrides
// ---------------------------------------------------------------------------------------------

impl Gen {
    fn const_name(&mut self) -> String {
        let n = self.fresh(0);
        if self.rng.pct(6) && n.is_ascii() {
            // a name that only LOOKS generated (`ENTRY_<x>` is the prefix of the entry point constants)
            self.feat("const_named_like_entry_const");
            return format!("ENTRY_{}", n.to_uppercase());
        }
        if self.rng.pct(50) && n.is_ascii() {
            n.to_uppercase()
        } else {
            n
        }
    }

    fn gen_const(&mut self) {
        let name = self.const_name();
        let ints: Vec<ConstDef> = self
            .consts
            .iter()
            .filter(|c| matches!(c.kind, CKind::AInt | CKind::I32 | CKind::U32) && c.small.is_some())
            .cloned()
            .collect();
        let floats: Vec<ConstDef> = self
            .consts
            .iter()
            .filter(|c| matches!(c.kind, CKind::AFloat | CKind::F32) && c.small.is_some())
            .cloned()
            .collect();
        let bools: Vec<ConstDef> = self.consts.iter().filter(|c| c.kind == CKind::Bool).cloned().collect();
        let (text, kind, small): (String, CKind, Option<i64>) = match self.rng.below(16) {
            0 => {
                self.feat("const_abstract_int");
                let v = self.rng.range(1, 8) as i64;
                (format!("const {} = {};", name, v), CKind::AInt, Some(v))
            }
            1 => {
                self.feat("const_u32");
                let v = self.rng.range(1, 8) as i64;
                (format!("const {}: u32 = {}u;", name, v), CKind::U32, Some(v))
            }
            2 => {
                self.feat("const_abstract_float");
                let v = self.flit();
                (format!("const {} = {};", name, v), CKind::AFloat, Some(0))
            }
            3 => {
                self.feat("const_f32");
                let v = *self.rng.pick(&["-0.0", "0.0", "1.0", "-2.5", "3.14159", "1e5f", "0x1p-2", "1.5f", ".5", "2."]);
                if v == "-0.0" {
                    self.feat("const_negative_zero");
                }
                (format!("const {}: f32 = {};", name, v), CKind::F32, Some(0))
            }
            4 if !ints.is_empty() => {
                self.feat("const_refers_const");
                let c = self.rng.pick(&ints).clone();
                let v = c.small.unwrap();
                let k = self.rng.range(1, 3) as i64;
                let sfx = if c.kind == CKind::U32 { "u" } else { "" };
                if self.rng.pct(50) {
                    (format!("const {} = {} + {}{};", name, c.name, k, sfx), c.kind, Some(v + k).filter(|x| *x <= 60))
                } else {
                    (format!("const {} = {} * {}{};", name, c.name, k, sfx), c.kind, Some(v * k).filter(|x| *x <= 60))
                }
            }
            5 => {
                self.feat("const_bool");
                if !bools.is_empty() && self.rng.pct(40) {
                    self.feat("const_refers_const");
                    let c = self.rng.pick(&bools).clone();
                    (format!("const {} = !{};", name, c.name), CKind::Bool, None)
                } else {
                    let v = *self.rng.pick(&["true", "false", "1 < 2", "true && false"]);
                    if self.rng.pct(50) {
                        (format!("const {}: bool = {};", name, v), CKind::Bool, None)
                    } else {
                        (format!("const {} = {};", name, v), CKind::Bool, None)
                    }
                }
            }
            6 => {
                self.feat("const_int_extreme");
                match self.rng.below(5) {
                    0 => (format!("const {}: i32 = -2147483648;", name), CKind::I32, None),
                    1 => (format!("const {}: i32 = 2147483647;", name), CKind::I32, None),
                    2 => (format!("const {} = -2147483648;", name), CKind::AInt, None),
                    3 => (format!("const {}: u32 = 4294967295u;", name), CKind::U32, None),
                    _ => (format!("const {} = 0xFFFFFFFFu;", name), CKind::U32, None),
                }
            }
            7 if self.rng.pct(60) => {
                // any finite f32 bit pattern, written with the shortest decimal that reads back as that value
                // (up to 9 significant digits, every binade from subnormals to 3.4e38)
                self.feat("const_f32_random_bits");
                let mut bits = self.rng.next_u64() as u32;
                if (bits >> 23) & 0xff == 0xff {
                    bits &= !(1 << 30);
                }
                let v = f32::from_bits(bits);
                let lit = if v == 0.0 { if v.is_sign_negative() { "-0.0f".to_string() } else { "0.0f".to_string() } } else { format!("{:e}f", v) };
                (format!("const {}: f32 = {};", name, lit), CKind::F32, None)
            }
            7 => {
                self.feat("const_float_extreme");
                let v = *self.rng.pick(&["3.4028235e38", "-3.4028235e38", "1e-45", "1.17549435e-38", "1e-40", "3.4028234e38f"]);
                if self.rng.pct(50) {
                    (format!("const {}: f32 = {};", name, v), CKind::F32, None)
                } else {
                    (format!("const {} = {};", name, v), CKind::AFloat, None)
                }
            }
            8 if self.allow_f64 && self.rng.pct(50) => {
                self.feat("f64_const");
                self.feat("f64");
                self.feat("const_f64_random_bits");
                let mut bits = self.rng.next_u64();
                if (bits >> 52) & 0x7ff == 0x7ff {
                    bits &= !(1 << 62);
                }
                let v = f64::from_bits(bits);
                let lit = if v == 0.0 { "0.0lf".to_string() } else { format!("{:e}lf", v) };
                (format!("const {}: f64 = {};", name, lit), CKind::F64, None)
            }
            8 if self.allow_f64 => {
                self.feat("f64_const");
                self.feat("f64");
                let v = *self.rng.pick(&["1.5lf", "2.0lf", "0.1lf", "1e10lf"]);
                if self.rng.pct(60) {
                    (format!("const {}: f64 = {};", name, v), CKind::F64, None)
                } else {
                    (format!("const {} = {};", name, v), CKind::F64, None)
                }
            }
            9 => {
                self.feat("const_vector");
                let n = self.rng.range(2, 4) as u8;
                let sc = *self.rng.pick(&[Sc::F32, Sc::F32, Sc::I32, Sc::U32]);
                let lits: Vec<String> = (0..n)
                    .map(|k| match sc {
                        Sc::F32 => format!("{}.0", k + 1),
                        Sc::I32 => format!("{}", k as i32 - 1),
                        _ => format!("{}u", k + 1),
                    })
                    .collect();
                match self.rng.below(3) {
                    0 => (format!("const {} = vec{}<{}>({});", name, n, sc.name(), lits.join(", ")), CKind::Vec(n, sc), None),
                    1 => (format!("const {}: vec{}<{}> = vec{}<{}>({});", name, n, sc.name(), n, sc.name(), lits[0]), CKind::Vec(n, sc), None),
                    _ => {
                        // inferred from abstract literals: concretizes to f32 / i32 / u32
                        (format!("const {} = vec{}({});", name, n, lits.join(", ")), CKind::Vec(n, sc), None)
                    }
                }
            }
            10 => {
                self.feat("const_array");
                let n = self.rng.range(1, 5) as u32;
                let sc = *self.rng.pick(&[Sc::F32, Sc::I32, Sc::U32]);
                let lits: Vec<String> = (0..n)
                    .map(|k| match sc {
                        Sc::F32 => format!("{}.5", k),
                        Sc::I32 => format!("{}", k as i32 - 2),
                        _ => format!("{}u", k),
                    })
                    .collect();
                if self.rng.pct(60) {
                    (format!("const {} = array<{}, {}>({});", name, sc.name(), n, lits.join(", ")), CKind::Arr(n, sc), None)
                } else {
                    (format!("const {} = array({});", name, lits.join(", ")), CKind::Arr(n, sc), None)
                }
            }
            11 => {
                self.feat("const_i32");
                let v = self.rng.range(1, 8) as i64;
                match self.rng.below(3) {
                    0 => (format!("const {} = {}i;", name, v), CKind::I32, Some(v)),
                    1 => (format!("const {}: i32 = {};", name, v), CKind::I32, Some(v)),
                    _ => (format!("const {}: i32 = -{};", name, v), CKind::I32, None),
                }
            }
            12 if !floats.is_empty() => {
                self.feat("const_refers_const");
                let c = self.rng.pick(&floats).clone();
                (format!("const {} = {} * 2.0 + 0.5;", name, c.name), c.kind, None)
            }
            13 if !ints.is_empty() => {
                self.feat("const_refers_const");
                let c: Vec<ConstDef> = ints.iter().filter(|c| c.kind == CKind::AInt).cloned().collect();
                if c.is_empty() {
                    (format!("const {} = 2;", name), CKind::AInt, Some(2))
                } else {
                    let c = self.rng.pick(&c).clone();
                    if self.rng.pct(50) {
                        (format!("const {}: f32 = f32({});", name, c.name), CKind::F32, Some(0))
                    } else {
                        (format!("const {}: u32 = u32({}) + 1u;", name, c.name), CKind::U32, Some(c.small.unwrap() + 1))
                    }
                }
            }
            14 if self.rng.pct(50) => {
                // zero-value constructors: naga keeps them as `Expression::ZeroValue`, not as a literal
                self.feat("const_zero_value");
                match self.rng.below(6) {
                    0 => (format!("const {} = vec3<f32>();", name), CKind::Zero, None),
                    1 => (format!("const {} = vec2<u32>();", name), CKind::Zero, None),
                    2 => (format!("const {} = mat2x2<f32>();", name), CKind::Zero, None),
                    3 => (format!("const {} = i32();", name), CKind::Zero, None),
                    4 => (format!("const {} = f32();", name), CKind::Zero, None),
                    _ => (format!("const {} = bool();", name), CKind::Zero, None),
                }
            }
            14 => {
                self.feat("const_hex");
                (format!("const {} = 0x{:X}u;", name, self.rng.below(256)), CKind::U32, None)
            }
            _ => {
                self.feat("const_abstract_int");
                let v = self.rng.range(1, 16) as i64;
                (format!("const {} = {};", name, v), CKind::AInt, Some(v))
            }
        };
        self.consts.push(ConstDef { name, text: format!("{}\n", text), kind, small });
    }

    fn fresh_id(&mut self) -> u32 {
        loop {
            let id = match self.rng.below(6) {
                0 => 0,
                1 => 65535,
                2 => 1000 + self.rng.below(1000) as u32,
                _ => self.rng.below(16) as u32,
            };
            if !self.used_ids.contains(&id) {
                self.used_ids.push(id);
                return id;
            }
        }
    }

    fn gen_override(&mut self) {
        let name = self.fresh(0);
        let id = if self.rng.pct(35) {
            self.feat("override_id");
            format!("@id({}) ", self.fresh_id())
        } else {
            String::new()
        };
        let same: Vec<OverrideDef> = self.overrides.iter().filter(|o| matches!(o.sc, Sc::F32 | Sc::U32 | Sc::I32)).cloned().collect();
        let (text, sc, has_default) = match self.rng.below(10) {
            0 | 1 => {
                self.feat("override_no_default");
                let sc = *self.rng.pick(&[Sc::F32, Sc::F32, Sc::U32, Sc::I32, Sc::Bool]);
                (format!("{}override {}: {};", id, name, sc.name()), sc, false)
            }
            2 => {
                self.feat("override_bool");
                (format!("{}override {}: bool = {};", id, name, self.rng.pick(&["true", "false"])), Sc::Bool, true)
            }
            3 => (format!("{}override {}: u32 = {}u;", id, name, self.rng.range(1, 8)), Sc::U32, true),
            4 => (format!("{}override {}: i32 = {};", id, name, self.rng.range(0, 9) as i32 - 4), Sc::I32, true),
            5 => (format!("{}override {}: f32 = {};", id, name, self.flit()), Sc::F32, true),
            6 | 7 if !same.is_empty() => {
                self.feat("override_depends_on_override");
                let o = self.rng.pick(&same).clone();
                let e = match o.sc {
                    Sc::F32 => format!("{} * 2.0", o.name),
                    Sc::U32 => format!("{} + 1u", o.name),
                    _ => format!("{} - 1", o.name),
                };
                (format!("{}override {}: {} = {};", id, name, o.sc.name(), e), o.sc, true)
            }
            8 => {
                self.feat("override_inferred_type");
                match self.rng.below(3) {
                    0 => (format!("{}override {} = {};", id, name, self.flit()), Sc::F32, true),
                    1 => (format!("{}override {} = {};", id, name, self.rng.range(1, 8)), Sc::I32, true),
                    _ => (format!("{}override {} = true;", id, name), Sc::Bool, true),
                }
            }
            _ => (format!("{}override {}: f32 = {};", id, name, self.flit()), Sc::F32, true),
        };
        self.feat("override");
        self.overrides.push(OverrideDef { name, text: format!("{}\n", text), sc, has_default });
    }
}

// ---------------------------------------------------------------------------------------------
// Entry point IO
// ---------------------------------------------------------------------------------------------

struct Param {
    text: String,
    reads: Vec<String>,
}

impl Gen {
    fn loc_ty(&mut self, float_bias: u32) -> Ty {
        let sc = if self.rng.pct(float_bias) { Sc::F32 } else { *self.rng.pick(&[Sc::I32, Sc::U32]) };
        match self.rng.below(5) {
            0 => Ty::Scalar(sc),
            n => Ty::Vec((n as u8).min(3) + 1, sc),
        }
    }

    /// `@interpolate(..)` attribute text (with trailing space) for an inter-stage variable.
    fn interp(&mut self, ty: &Ty, required_for_int: bool) -> String {
        let is_int = matches!(ty, Ty::Scalar(Sc::I32 | Sc::U32) | Ty::Vec(_, Sc::I32 | Sc::U32));
        if is_int {
            if required_for_int || self.rng.pct(20) {
                self.feat("interpolate_flat");
                return match self.rng.below(6) {
                    0 => "@interpolate(flat, either) ".to_string(),
                    1 => "@interpolate(flat, first) ".to_string(),
                    _ => "@interpolate(flat) ".to_string(),
                };
            }
            return String::new();
        }
        if self.rng.pct(25) {
            self.feat("interpolate_attr");
            return self
                .rng
                .pick(&[
                    "@interpolate(flat) ",
                    "@interpolate(linear) ",
                    "@interpolate(perspective) ",
                    "@interpolate(linear, centroid) ",
                    "@interpolate(perspective, sample) ",
                    "@interpolate(perspective, center) ",
                    "@interpolate(linear, sample) ",
                ])
                .to_string();
        }
        String::new()
    }

    /// Picks `n` distinct locations below `limit`, none of them in `avoid`.
    fn pick_locs(&mut self, n: usize, limit: u32, avoid: &[u32], dense: bool) -> Vec<u32> {
        let free: Vec<u32> = (0..limit).filter(|l| !avoid.contains(l)).collect();
        let n = n.min(free.len());
        if dense {
            free[..n].to_vec()
        } else {
            let mut f = free;
            self.rng.shuffle(&mut f);
            f.truncate(n);
            if !f.is_empty() && self.rng.pct(7) {
                // a location beyond the first 32 (bit masks, small tables and `1 << location` tricks end there)
                let big = *self.rng.pick(&[31u32, 32, 33, 40, 63, 64, 65, 255]);
                if !f.contains(&big) && !avoid.contains(&big) {
                    self.feat("location_beyond_32");
                    let k = self.rng.below(f.len());
                    f[k] = big;
                }
            }
            if self.rng.pct(50) {
                f.sort();
            }
            f
        }
    }

    fn gen_io_struct(&mut self, role: IoRole, nloc: usize, avoid_locs: &[u32], avoid_bi: &[&'static str]) -> usize {
        let name = self.fresh(1);
        let mut mset: BTreeSet<String> = BTreeSet::new();
        let mut members: Vec<Member> = Vec::new();
        let mut builtins: Vec<&'static str> = Vec::new();
        let dense = self.rng.pct(45);
        let limit = match role {
            IoRole::FOut => 8,
            _ => 16,
        };
        let nloc = if role == IoRole::CIn { 0 } else { nloc };
        let locs = self.pick_locs(nloc, limit, avoid_locs, dense);
        if !dense && !locs.is_empty() {
            self.feat("sparse_locations");
        }
        for &l in &locs {
            let (ty, attr) = match role {
                IoRole::VIn => {
                    let ty = self.loc_ty(65);
                    let ip = self.interp(&ty, false);
                    // interpolation on vertex inputs is meaningless but legal; keep it rare
                    let ip = if self.rng.pct(10) { ip } else { String::new() };
                    (ty, format!("@location({}) {}", l, ip))
                }
                IoRole::VOut | IoRole::FIn => {
                    let ty = self.loc_ty(75);
                    let ip = self.interp(&ty, true);
                    (ty, format!("@location({}) {}", l, ip))
                }
                IoRole::FOut => {
                    let ty = if self.rng.pct(70) { Ty::Vec(4, Sc::F32) } else { self.loc_ty(50) };
                    (ty, format!("@location({}) ", l))
                }
                IoRole::CIn => unreachable!(),
            };
            let mname = self.fresh_in(&mut mset, 0);
            members.push(Member { name: mname, ty, align: None, size: None, io: Some(attr.trim_end().to_string()) });
        }
        let bi_cands: Vec<(&'static str, Ty, u32)> = match role {
            IoRole::VIn => vec![("vertex_index", Ty::Scalar(Sc::U32), 18), ("instance_index", Ty::Scalar(Sc::U32), 18)],
            IoRole::VOut => vec![("position", Ty::Vec(4, Sc::F32), 100)],
            IoRole::FIn => vec![
                ("position", Ty::Vec(4, Sc::F32), 35),
                ("front_facing", Ty::Scalar(Sc::Bool), 15),
                ("sample_index", Ty::Scalar(Sc::U32), 10),
                ("sample_mask", Ty::Scalar(Sc::U32), 10),
            ],
            IoRole::FOut => vec![("frag_depth", Ty::Scalar(Sc::F32), 25), ("sample_mask", Ty::Scalar(Sc::U32), 15)],
            IoRole::CIn => vec![
                ("global_invocation_id", Ty::Vec(3, Sc::U32), 60),
                ("local_invocation_id", Ty::Vec(3, Sc::U32), 40),
                ("local_invocation_index", Ty::Scalar(Sc::U32), 40),
                ("workgroup_id", Ty::Vec(3, Sc::U32), 40),
                ("num_workgroups", Ty::Vec(3, Sc::U32), 30),
            ],
        };
        for (b, ty, p) in bi_cands {
            if avoid_bi.contains(&b) {
                continue;
            }
            if self.rng.pct(p) {
                let mname = self.fresh_in(&mut mset, 0);
                let inv = if b == "position" && role == IoRole::VOut && self.rng.pct(10) {
                    self.feat("invariant");
                    " @invariant"
                } else {
                    ""
                };
                members.push(Member { name: mname, ty, align: None, size: None, io: Some(format!("@builtin({}){}", b, inv)) });
                builtins.push(b);
            }
        }
        if members.is_empty() {
            // a struct needs at least one member
            let (b, ty): (&'static str, Ty) = match role {
                IoRole::VIn => ("vertex_index", Ty::Scalar(Sc::U32)),
                IoRole::FIn => ("front_facing", Ty::Scalar(Sc::Bool)),
                IoRole::FOut => ("frag_depth", Ty::Scalar(Sc::F32)),
                IoRole::CIn => ("local_invocation_index", Ty::Scalar(Sc::U32)),
                IoRole::VOut => ("position", Ty::Vec(4, Sc::F32)),
            };
            if avoid_bi.contains(&b) {
                let l = self.pick_locs(1, limit, avoid_locs, false);
                // every location below the limit may already be taken by the other parameters: then the first free one above it
                let l0 = l.first().copied().unwrap_or_else(|| (limit..).find(|x| !avoid_locs.contains(x)).unwrap());
                let mname = self.fresh_in(&mut mset, 0);
                members.push(Member { name: mname, ty: Ty::Vec(4, Sc::F32), align: None, size: None, io: Some(format!("@location({})", l0)) });
                let mut locs2 = locs.clone();
                locs2.push(l0);
                self.structs.push(StructDef { name, members });
                self.io.push(IoInfo { sidx: self.structs.len() - 1, locs: locs2, builtins, role });
                return self.io.len() - 1;
            }
            let mname = self.fresh_in(&mut mset, 0);
            members.push(Member { name: mname, ty, align: None, size: None, io: Some(format!("@builtin({})", b)) });
            builtins.push(b);
        }
        if !builtins.is_empty() && !locs.is_empty() {
            self.feat("builtin_interleaved_in_struct");
        }
        self.rng.shuffle(&mut members);
        self.structs.push(StructDef { name, members });
        self.io.push(IoInfo { sidx: self.structs.len() - 1, locs, builtins, role });
        self.io.len() - 1
    }

    /// f32 expressions reading every member of an IO struct parameter.
    fn io_reads(&mut self, io: usize, pname: &str) -> Vec<String> {
        let s = self.io[io].sidx;
        let ms = self.structs[s].members.clone();
        let mut out = Vec::new();
        for m in ms {
            let p = format!("{}.{}", pname, m.name);
            out.push(self.read_f32(&m.ty, &p, false));
        }
        out
    }

    fn entry_name(&mut self, cfg: &Cfg) -> String {
        let _ = cfg;
        if !self.entry_names.is_empty() && self.clash_budget {
            let base = self.rng.pick(&self.entry_names.clone()).clone();
            for cand in [base.to_uppercase(), base.to_lowercase(), pascal(&base)] {
                if cand != base && !self.entry_names.contains(&cand) && norm_name(&cand) == norm_name(&base) && cand.replace('_', "") .len() == base.replace('_', "").len() && cand.matches('_').count() == base.matches('_').count() {
                    self.feat("case_clash");
                    self.clash_budget = false;
                    self.entry_names.push(cand.clone());
                    return cand;
                }
            }
        }
        let n = loop {
            if self.rng.pct(65) {
                let w = *self.rng.pick(ENTRY_WORDS);
                if self.claim(w) {
                    break w.to_string();
                }
            } else {
                break self.fresh(0);
            }
        };
        self.entry_names.push(n.clone());
        n
    }

    fn entry_body(&mut self, cfg: &Cfg, stage: u8, reads: &[String], must_calls: &[usize], must_access: &[usize]) -> String {
        let mut ctx = self.new_ctx(stage, cfg);
        let mut body = String::new();
        let mut reads: Vec<String> = reads.to_vec();
        self.rng.shuffle(&mut reads);
        let init = if !reads.is_empty() && self.rng.pct(60) { reads.remove(0) } else { self.flit() };
        body.push_str(&format!("{}var acc: f32 = {};\n", ind(1), init));
        if stage == ST_C && self.rng.pct(20) {
            self.feat("workgroup_barrier");
            body.push_str(&format!("{}{};\n", ind(1), self.rng.pick(&["workgroupBarrier()", "storageBarrier()"])));
        }
        for r in reads.iter().take(3) {
            body.push_str(&format!("{}acc += {};\n", ind(1), r));
        }
        let n = self.rng.range(cfg.acts.0.max(1), cfg.acts.1 + 1);
        let acts = self.choose_actions(&ctx, n, must_calls, must_access, 40, cfg.deep_bias);
        body.push_str(&self.nest(&mut ctx, &acts, 0, 1));
        if stage == ST_F && self.rng.pct(8) {
            self.feat("discard");
            body.push_str(&format!("{}if (acc > 100000.0) {{\n{}discard;\n{}}}\n", ind(1), ind(2), ind(1)));
        }
        if stage == ST_F && self.rng.pct(10) {
            self.feat("derivative");
            body.push_str(&format!("{}acc += {}(acc);\n", ind(1), self.rng.pick(&["dpdx", "dpdy", "fwidth", "dpdxFine", "dpdyCoarse"])));
        }
        let d = self.depth_of_calls(&ctx.called);
        if d > 1 {
            self.feat("entry_calls_helper");
        }
        for &c in &ctx.called {
            self.callee_set.insert(c);
        }
        body
    }

    /// Code that builds and returns a value of IO struct `io` from `acc`.
    fn return_struct(&mut self, io: usize) -> String {
        let s = self.io[io].sidx;
        let st = self.structs[s].clone();
        if self.rng.pct(30) {
            let vals: Vec<String> = st.members.iter().map(|m| self.splat(&m.ty, "acc")).collect();
            return format!("{}return {}({});\n", ind(1), st.name, vals.join(", "));
        }
        let mut out = format!("{}var outv: {};\n", ind(1), st.name);
        for m in &st.members {
            out.push_str(&format!("{}outv.{} = {};\n", ind(1), m.name, self.splat(&m.ty, "acc")));
        }
        out.push_str(&format!("{}return outv;\n", ind(1)));
        out
    }

    fn gen_vertex_entry(&mut self, cfg: &Cfg, must_calls: &[usize], must_access: &[usize]) {
        self.lv = 0;
        self.feat("entry_vertex");
        let name = self.entry_name(cfg);
        let mut used_locs: Vec<u32> = Vec::new();
        let mut used_bi: Vec<&'static str> = Vec::new();
        let mut params: Vec<Param> = Vec::new();
        let mut nstructs = self.rng.weighted(&[15, 50, 25, 10]);
        if self.forced_vin.is_some() {
            nstructs = nstructs.max(1);
        }
        match nstructs {
            0 => self.feat("vertex_no_struct_input"),
            1 => self.feat("vertex_one_struct_input"),
            _ => self.feat("vertex_multi_struct_input"),
        }
        for k in 0..nstructs {
            // reuse a compatible, already declared vertex input struct?
            let compat: Vec<usize> = (0..self.io.len())
                .filter(|&i| self.io[i].role == IoRole::VIn)
                .filter(|&i| self.io[i].locs.iter().all(|l| !used_locs.contains(l)))
                .filter(|&i| self.io[i].builtins.iter().all(|b| !used_bi.contains(b)))
                .filter(|&i| !params.iter().any(|p| p.text.ends_with(&format!(": {}", self.structs[self.io[i].sidx].name))))
                .collect();
            let io = if k == 0 && self.forced_vin.is_some() {
                self.feat("struct_vertex_input_and_storage");
                self.forced_vin.unwrap()
            } else if !compat.is_empty() && self.rng.pct(45) {
                self.feat("vertex_input_struct_shared");
                *self.rng.pick(&compat)
            } else {
                let mut n = self.rng.range(cfg.vin_members.0, cfg.vin_members.1);
                if self.rng.pct(8) && !(used_bi.contains(&"vertex_index") && used_bi.contains(&"instance_index")) {
                    // a struct parameter made of builtins only still is a struct parameter (one buffer slot, no attribute)
                    self.feat("vertex_input_struct_builtins_only");
                    n = 0;
                }
                if used_locs.len() + n > 16 {
                    break;
                }
                self.gen_io_struct(IoRole::VIn, n, &used_locs, &used_bi)
            };
            used_locs.extend(self.io[io].locs.iter().copied());
            used_bi.extend(self.io[io].builtins.iter().copied());
            let pname = format!("vin{}", k);
            let reads = self.io_reads(io, &pname);
            let sname = self.structs[self.io[io].sidx].name.clone();
            params.push(Param { text: format!("{}: {}", pname, sname), reads });
        }
        for b in ["vertex_index", "instance_index"] {
            if !used_bi.contains(&b) && self.rng.pct(22) {
                self.feat("vertex_bare_builtin_param");
                used_bi.push(b);
                let pname = format!("bi{}", params.len());
                params.push(Param { text: format!("@builtin({}) {}: u32", b, pname), reads: vec![format!("f32({})", pname)] });
            }
        }
        if used_locs.len() < 16 && self.rng.pct(3) {
            self.feat("bare_location_param");
            let l = self.pick_locs(1, 16, &used_locs, false)[0];
            used_locs.push(l);
            let pname = format!("bi{}", params.len());
            params.push(Param { text: format!("@location({}) {}: vec4<f32>", l, pname), reads: vec![format!("{}.x", pname)] });
        }
        self.rng.shuffle(&mut params);
        let reads: Vec<String> = params.iter().flat_map(|p| p.reads.iter().cloned()).collect();
        let mut body = self.entry_body(cfg, ST_V, &reads, must_calls, must_access);
        let ret;
        if self.rng.pct(75) {
            self.feat("vertex_struct_output");
            let outs: Vec<usize> = (0..self.io.len()).filter(|&i| self.io[i].role == IoRole::VOut).collect();
            let io = if !outs.is_empty() && self.rng.pct(40) {
                *self.rng.pick(&outs)
            } else {
                let n = self.rng.range(0, 4);
                self.gen_io_struct(IoRole::VOut, n, &[], &[])
            };
            ret = format!(" -> {}", self.structs[self.io[io].sidx].name);
            body.push_str(&self.return_struct(io));
        } else {
            self.feat("vertex_bare_position_output");
            let inv = if self.rng.pct(10) { " @invariant" } else { "" };
            ret = format!(" -> @builtin(position){} vec4<f32>", inv);
            body.push_str(&format!("{}return vec4<f32>(acc, 0.0, 0.0, 1.0);\n", ind(1)));
        }
        let ptxt: Vec<String> = params.iter().map(|p| p.text.clone()).collect();
        self.entries.push(format!("@vertex\nfn {}({}){} {{\n{}}}\n", name, ptxt.join(", "), ret, body));
    }

    fn gen_fragment_entry(&mut self, cfg: &Cfg, must_calls: &[usize], must_access: &[usize]) {
        self.lv = 0;
        self.feat("entry_fragment");
        let name = self.entry_name(cfg);
        let mut used_locs: Vec<u32> = Vec::new();
        let mut used_bi: Vec<&'static str> = Vec::new();
        let mut params: Vec<Param> = Vec::new();
        match self.rng.weighted(&[22, 33, 22, 23]) {
            0 => self.feat("fragment_no_input"),
            1 => {
                // the output struct of a vertex entry (position builtin is a legal fragment input)
                let outs: Vec<usize> = (0..self.io.len()).filter(|&i| matches!(self.io[i].role, IoRole::VOut | IoRole::FIn)).collect();
                let io = if !outs.is_empty() && self.rng.pct(70) {
                    self.feat("fragment_input_shared_struct");
                    *self.rng.pick(&outs)
                } else {
                    let n = self.rng.range(0, 4);
                    self.gen_io_struct(IoRole::FIn, n, &[], &[])
                };
                self.feat("fragment_struct_input");
                used_locs.extend(self.io[io].locs.iter().copied());
                used_bi.extend(self.io[io].builtins.iter().copied());
                let reads = self.io_reads(io, "fin0");
                let sname = self.structs[self.io[io].sidx].name.clone();
                params.push(Param { text: format!("fin0: {}", sname), reads });
            }
            2 => {
                self.feat("fragment_struct_input");
                let n = self.rng.range(1, 5);
                let io = self.gen_io_struct(IoRole::FIn, n, &[], &[]);
                used_locs.extend(self.io[io].locs.iter().copied());
                used_bi.extend(self.io[io].builtins.iter().copied());
                let reads = self.io_reads(io, "fin0");
                let sname = self.structs[self.io[io].sidx].name.clone();
                params.push(Param { text: format!("fin0: {}", sname), reads });
            }
            _ => {
                self.feat("fragment_bare_location_params");
                let n = self.rng.range(1, 3);
                let dense = self.rng.pct(50);
                let locs = self.pick_locs(n, 16, &used_locs, dense);
                for l in locs {
                    used_locs.push(l);
                    let ty = self.loc_ty(75);
                    let ip = self.interp(&ty, true);
                    let pname = format!("bi{}", params.len());
                    let r = self.read_f32(&ty, &pname, false);
                    params.push(Param { text: format!("@location({}) {}{}: {}", l, ip, pname, self.ts(&ty)), reads: vec![r] });
                }
            }
        }
        let bis: [(&'static str, &str, u32); 4] = [
            ("position", "vec4<f32>", 20),
            ("front_facing", "bool", 10),
            ("sample_index", "u32", 8),
            ("sample_mask", "u32", 8),
        ];
        for (b, t, p) in bis {
            if !used_bi.contains(&b) && self.rng.pct(p) {
                self.feat("fragment_bare_builtin_param");
                used_bi.push(b);
                let pname = format!("bi{}", params.len());
                let r = match t {
                    "vec4<f32>" => format!("{}.x", pname),
                    "bool" => format!("select(0.0, 1.0, {})", pname),
                    _ => format!("f32({})", pname),
                };
                params.push(Param { text: format!("@builtin({}) {}: {}", b, pname, t), reads: vec![r] });
            }
        }
        self.rng.shuffle(&mut params);
        let reads: Vec<String> = params.iter().flat_map(|p| p.reads.iter().cloned()).collect();
        let mut body = self.entry_body(cfg, ST_F, &reads, must_calls, must_access);
        let ret;
        match self.rng.weighted(&[14, 34, 8, 44]) {
            0 => {
                self.feat("fragment_no_output");
                ret = String::new();
            }
            1 => {
                self.feat("fragment_bare_location_output");
                let k = if self.rng.pct(75) { 0 } else { self.rng.range(1, 7) };
                if k != 0 {
                    self.feat("sparse_frag_locations");
                }
                let ty = if self.rng.pct(80) { Ty::Vec(4, Sc::F32) } else { self.loc_ty(50) };
                ret = format!(" -> @location({}) {}", k, self.ts(&ty));
                body.push_str(&format!("{}return {};\n", ind(1), self.splat(&ty, "acc")));
            }
            2 => {
                self.feat("fragment_bare_frag_depth_output");
                ret = " -> @builtin(frag_depth) f32".to_string();
                body.push_str(&format!("{}return acc;\n", ind(1)));
            }
            _ => {
                self.feat("fragment_struct_output");
                let outs: Vec<usize> = (0..self.io.len()).filter(|&i| self.io[i].role == IoRole::FOut).collect();
                // a location-only vertex input struct is also a legal fragment output (locations below 8)
                let vins: Vec<usize> = (0..self.io.len())
                    .filter(|&i| self.io[i].role == IoRole::VIn && self.io[i].builtins.is_empty() && !self.io[i].locs.is_empty())
                    .filter(|&i| self.io[i].locs.iter().all(|l| *l < 8))
                    .collect();
                let io = if !vins.is_empty() && self.rng.pct(12) {
                    self.feat("struct_vertex_input_and_fragment_output");
                    *self.rng.pick(&vins)
                } else if !outs.is_empty() && self.rng.pct(35) {
                    *self.rng.pick(&outs)
                } else {
                    let n = self.rng.range(0, 4);
                    self.gen_io_struct(IoRole::FOut, n, &[], &[])
                };
                let mut l = self.io[io].locs.clone();
                l.sort();
                if l.iter().enumerate().any(|(i, &x)| x != i as u32) {
                    self.feat("sparse_frag_locations");
                }
                if !self.io[io].builtins.is_empty() {
                    self.feat("fragment_output_builtin_member");
                }
                ret = format!(" -> {}", self.structs[self.io[io].sidx].name);
                body.push_str(&self.return_struct(io));
            }
        }
        let ptxt: Vec<String> = params.iter().map(|p| p.text.clone()).collect();
        self.entries.push(format!("@fragment\nfn {}({}){} {{\n{}}}\n", name, ptxt.join(", "), ret, body));
    }

    fn gen_compute_entry(&mut self, cfg: &Cfg, must_calls: &[usize], must_access: &[usize]) {
        self.lv = 0;
        self.feat("entry_compute");
        let name = self.entry_name(cfg);
        let mut used_bi: Vec<&'static str> = Vec::new();
        let mut params: Vec<Param> = Vec::new();
        if self.rng.pct(20) {
            self.feat("compute_struct_input");
            let ins: Vec<usize> = (0..self.io.len()).filter(|&i| self.io[i].role == IoRole::CIn).collect();
            let io = if !ins.is_empty() && self.rng.pct(50) { *self.rng.pick(&ins) } else { self.gen_io_struct(IoRole::CIn, 0, &[], &[]) };
            used_bi.extend(self.io[io].builtins.iter().copied());
            let reads = self.io_reads(io, "cin0");
            let sname = self.structs[self.io[io].sidx].name.clone();
            params.push(Param { text: format!("cin0: {}", sname), reads });
        }
        let bis: [(&'static str, bool, u32); 5] = [
            ("global_invocation_id", true, 55),
            ("local_invocation_id", true, 20),
            ("local_invocation_index", false, 25),
            ("workgroup_id", true, 20),
            ("num_workgroups", true, 12),
        ];
        for (b, is_vec, p) in bis {
            if !used_bi.contains(&b) && self.rng.pct(p) {
                self.feat("compute_builtin_param");
                used_bi.push(b);
                let pname = format!("bi{}", params.len());
                let (t, r) = if is_vec {
                    ("vec3<u32>", format!("f32({}.{})", pname, COMPS[self.rng.below(3)]))
                } else {
                    ("u32", format!("f32({})", pname))
                };
                params.push(Param { text: format!("@builtin({}) {}: {}", b, pname, t), reads: vec![r] });
            }
        }
        self.rng.shuffle(&mut params);
        // workgroup size
        let ndim = self.rng.weighted(&[45, 30, 25]) + 1;
        let int_consts: Vec<String> = self
            .consts
            .iter()
            .filter(|c| matches!(c.kind, CKind::AInt | CKind::U32 | CKind::I32) && matches!(c.small, Some(v) if v >= 1 && v <= 16))
            .map(|c| c.name.clone())
            .collect();
        let u32_over: Vec<String> = self.overrides.iter().filter(|o| o.sc == Sc::U32 && o.has_default).map(|o| o.name.clone()).collect();
        let mut dims = Vec::new();
        for d in 0..ndim {
            if !int_consts.is_empty() && self.rng.pct(25) {
                self.feat("workgroup_size_const");
                dims.push(self.rng.pick(&int_consts).clone());
            } else if !u32_over.is_empty() && self.rng.pct(10) {
                self.feat("workgroup_size_override");
                dims.push(self.rng.pick(&u32_over).clone());
            } else {
                let v = if d == 0 { *self.rng.pick(&[1, 1, 2, 4, 8, 16, 32, 64, 128, 256]) } else { *self.rng.pick(&[1, 1, 2, 4, 8]) };
                dims.push(if self.rng.pct(10) { format!("{}u", v) } else { format!("{}", v) });
            }
        }
        self.feat(match ndim {
            1 => "workgroup_size_1d",
            2 => "workgroup_size_2d",
            _ => "workgroup_size_3d",
        });
        let reads: Vec<String> = params.iter().flat_map(|p| p.reads.iter().cloned()).collect();
        let mut body = self.entry_body(cfg, ST_C, &reads, must_calls, must_access);
        // make the result observable when a writable buffer exists
        let rw: Vec<usize> = self
            .globals
            .iter()
            .enumerate()
            .filter(|(_, g)| !g.no_use && matches!(g.kind, GKind::Buffer { space: Space::StorageRW, .. }))
            .map(|(i, _)| i)
            .collect();
        if !rw.is_empty() && self.rng.pct(50) {
            let g = *self.rng.pick(&rw);
            self.globals[g].uses += 1;
            if let GKind::Buffer { ty, .. } = self.globals[g].kind.clone() {
                let gname = self.globals[g].name.clone();
                let w = self.write_leaf(&ty, &gname, "acc");
                body.push_str(&format!("{}{}\n", ind(1), w));
            }
        }
        let ptxt: Vec<String> = params.iter().map(|p| p.text.clone()).collect();
        let attr = if self.rng.pct(15) {
            format!("@workgroup_size({}) @compute", dims.join(", "))
        } else {
            format!("@compute @workgroup_size({})", dims.join(", "))
        };
        self.entries.push(format!("{}\nfn {}({}) {{\n{}}}\n", attr, name, ptxt.join(", "), body));
    }
}

// ---------------------------------------------------------------------------------------------
// Module assembly and the common builder
// ---------------------------------------------------------------------------------------------

impl Gen {
    fn assemble(&mut self) -> String {
        let mut structs: Vec<String> = (0..self.structs.len()).map(|i| self.render_struct(i)).collect();
        let mut consts: Vec<String> = self.consts.iter().map(|c| c.text.clone()).collect();
        let mut overrides: Vec<String> = self.overrides.iter().map(|c| c.text.clone()).collect();
        let mut globals: Vec<String> = (0..self.globals.len()).map(|i| self.render_global(i)).collect();
        let extra = std::mem::take(&mut self.extra_items);
        let fns = self.entries.clone();
        let mut out = String::new();
        match self.rng.weighted(&[45, 30, 25]) {
            0 => {
                self.feat("decl_order_grouped");
                if self.rng.pct(50) {
                    self.rng.shuffle(&mut globals);
                }
                let mut groups: Vec<Vec<String>> = vec![structs, consts, overrides, globals, extra];
                if self.rng.pct(30) {
                    self.rng.shuffle(&mut groups);
                }
                for g in groups {
                    for s in g {
                        out.push_str(&s);
                    }
                    out.push('\n');
                }
                for f in fns {
                    out.push_str(&f);
                    out.push('\n');
                }
            }
            1 => {
                self.feat("decl_order_shuffled");
                let mut all: Vec<String> = Vec::new();
                all.append(&mut structs);
                all.append(&mut consts);
                all.append(&mut overrides);
                all.append(&mut globals);
                all.extend(extra);
                self.rng.shuffle(&mut all);
                for s in all {
                    out.push_str(&s);
                }
                out.push('\n');
                for f in fns {
                    out.push_str(&f);
                    out.push('\n');
                }
            }
            _ => {
                // declarations interleaved with functions (functions keep their relative order;
                // module-scope declarations may be used before they are declared)
                self.feat("decl_order_interleaved");
                let mut all: Vec<String> = Vec::new();
                all.append(&mut structs);
                all.append(&mut consts);
                all.append(&mut overrides);
                all.append(&mut globals);
                all.extend(extra);
                self.rng.shuffle(&mut all);
                let nf = fns.len();
                let mut slots: Vec<Vec<String>> = (0..=nf).map(|_| Vec::new()).collect();
                for s in all {
                    let k = self.rng.below(nf + 1);
                    slots[k].push(s);
                }
                for (k, f) in fns.iter().enumerate() {
                    for s in &slots[k] {
                        out.push_str(s);
                    }
                    out.push_str(f);
                    out.push('\n');
                }
                for s in &slots[nf] {
                    out.push_str(s);
                }
            }
        }
        out
    }

    /// Helper DAG shapes (chain / diamond / fan-out / shared) for the `callgraph` profile.
    fn gen_shapes(&mut self, cfg: &Cfg) {
        let res: Vec<usize> = self.usable_globals(ST_ALL);
        let nshapes = self.rng.range(1, 3);
        let pick_mask = |g: &mut Gen| -> u8 {
            match g.rng.below(10) {
                0..=5 => ST_ALL,
                6 => ST_F,
                7 => ST_C,
                8 => ST_V | ST_F,
                _ => ST_V,
            }
        };
        for _ in 0..nshapes {
            let mask = pick_mask(self);
            let touch = |g: &mut Gen| -> Vec<usize> {
                if res.is_empty() {
                    Vec::new()
                } else {
                    let k = g.rng.range(1, 2.min(res.len()));
                    (0..k).map(|_| *g.rng.pick(&res)).collect()
                }
            };
            match self.rng.below(5) {
                0 => {
                    self.feat("shape_chain");
                    let len = self.rng.range(2, cfg.call_depth_cap.min(12));
                    let t = touch(self);
                    let mut prev = self.gen_helper(cfg, &[], &t, Some(mask));
                    for _ in 1..len {
                        let calls = if self.rng.pct(30) { vec![prev, prev] } else { vec![prev] };
                        prev = self.gen_helper(cfg, &calls, &[], Some(mask));
                    }
                }
                1 => {
                    self.feat("shape_diamond");
                    let levels = self.rng.range(2, 5);
                    let ta = touch(self);
                    let tb = touch(self);
                    let mut a = self.gen_helper(cfg, &[], &ta, Some(mask));
                    let mut b = self.gen_helper(cfg, &[], &tb, Some(mask));
                    for _ in 1..levels {
                        let na = self.gen_helper(cfg, &[a, b], &[], Some(mask));
                        let nb = self.gen_helper(cfg, &[a, b], &[], Some(mask));
                        a = na;
                        b = nb;
                    }
                }
                2 => {
                    self.feat("shape_fanout");
                    let w = self.rng.range(2, 6);
                    let t = touch(self);
                    let shared = self.gen_helper(cfg, &[], &t, Some(mask));
                    let mut tops = Vec::new();
                    for _ in 0..w {
                        tops.push(self.gen_helper(cfg, &[shared], &[], Some(mask)));
                    }
                    if self.rng.pct(50) {
                        // one collector calling every branch
                        self.gen_helper(cfg, &tops, &[], Some(mask));
                    }
                }
                3 => {
                    self.feat("shape_shared_helper");
                    let t = touch(self);
                    let shared = self.gen_helper(cfg, &[], &t, Some(ST_ALL));
                    let n = self.rng.range(2, 4);
                    for _ in 0..n {
                        let m = pick_mask(self);
                        let t2 = if self.rng.pct(50) { touch(self) } else { Vec::new() };
                        self.gen_helper(cfg, &[shared], &t2, Some(m));
                    }
                }
                _ => {
                    self.feat("shape_random_dag");
                    let n = self.rng.range(3, 8);
                    let first = self.funcs.len();
                    for _ in 0..n {
                        let have = self.funcs.len() - first;
                        let mut calls = Vec::new();
                        if have > 0 {
                            for _ in 0..self.rng.range(0, 3.min(have)) {
                                calls.push(first + self.rng.below(have));
                            }
                        }
                        let t = if calls.is_empty() || self.rng.pct(30) { touch(self) } else { Vec::new() };
                        self.gen_helper(cfg, &calls, &t, None);
                    }
                }
            }
        }
    }

    fn build_common(&mut self, cfg: &Cfg) -> String {
        self.allow_f64 = self.rng.pct(cfg.f64_pct);
        self.struct_roles = cfg.struct_roles;
        self.kw_budget = self.rng.permille(cfg.rust_kw_permille);
        self.clash_budget = self.rng.permille(cfg.case_clash_permille);
        if self.rng.pct(10) {
            self.short_types = true;
            self.feat("short_type_names");
        }
        // entry plan first: some declarations only make sense for certain stages
        let mut nv = self.rng.range(cfg.vertex.0, cfg.vertex.1);
        let mut nf = self.rng.range(cfg.fragment.0, cfg.fragment.1);
        let mut nc = self.rng.range(cfg.compute.0, cfg.compute.1);
        if nv + nf + nc == 0 {
            if cfg.allow_no_entry && self.rng.pct(30) {
                self.feat("no_entry_points");
            } else {
                let mut opts = Vec::new();
                if cfg.vertex.1 > 0 {
                    opts.push(0);
                }
                if cfg.fragment.1 > 0 {
                    opts.push(1);
                }
                if cfg.compute.1 > 0 {
                    opts.push(2);
                }
                match *self.rng.pick(&opts) {
                    0 => nv = 1,
                    1 => nf = 1,
                    _ => nc = 1,
                }
            }
        }
        for _ in 0..self.rng.range(cfg.consts.0, cfg.consts.1) {
            self.gen_const();
        }
        for _ in 0..self.rng.range(cfg.overrides.0, cfg.overrides.1) {
            self.gen_override();
        }
        for _ in 0..self.rng.range(cfg.buffers.0, cfg.buffers.1) {
            self.gen_buffer(cfg);
        }
        for _ in 0..self.rng.range(cfg.textures.0, cfg.textures.1) {
            self.gen_texture();
        }
        self.gen_samplers();
        for _ in 0..self.rng.range(cfg.privates.0, cfg.privates.1) {
            self.gen_private(cfg);
        }
        if nc > 0 {
            for _ in 0..self.rng.range(cfg.workgroups.0, cfg.workgroups.1) {
                self.gen_workgroup(cfg);
            }
        }
        if self.rng.pct(cfg.push_const_pct) {
            self.gen_push_const(cfg);
        }
        if cfg.struct_roles && nv > 0 && self.rng.pct(35) {
            // a struct that is both a vertex input and the element type of a storage buffer
            let n = self.rng.range(1, 5);
            let io = self.gen_io_struct(IoRole::VIn, n, &[], &[]);
            self.forced_vin = Some(io);
            let s = self.io[io].sidx;
            let name = self.fresh(0);
            let ty = if self.rng.pct(60) { Ty::RtArray(Box::new(Ty::Struct(s))) } else { Ty::Struct(s) };
            self.feat("var_storage_read");
            self.push_global(name, GKind::Buffer { space: Space::StorageRead, ty });
        }
        for _ in 0..self.rng.range(cfg.structs_extra.0, cfg.structs_extra.1) {
            let mut req = Req::PRIVATE;
            req.f64_ok = self.allow_f64;
            if self.rng.pct(55) {
                let s = self.gen_struct(req, cfg.struct_depth.min(2), cfg.struct_members, false);
                self.local_structs.push(s);
            } else {
                self.feat("struct_unused");
                let rt = self.rng.pct(15);
                let r = if rt { Req::STORAGE_RW } else { req };
                self.gen_struct(r, cfg.struct_depth.min(2), cfg.struct_members, rt);
            }
        }
        // some resources are declared but never referenced
        let nres = self.globals.len();
        for i in 0..nres {
            if self.rng.pct(8) {
                self.feat("unused_global");
                self.globals[i].no_use = true;
            }
        }
        if self.kw_budget && !self.globals.is_empty() {
            self.kw_budget = false;
            let kw = *self.rng.pick(RUST_KW_NAMES);
            if self.claim(kw) {
                self.feat("rust_keyword_name");
                let i = self.rng.below(self.globals.len());
                self.globals[i].name = kw.to_string();
            }
        }
        self.assign_bindings(cfg.max_groups);

        // functions: helpers and entry points, entries mostly (not always) last
        let nh = self.rng.range(cfg.helpers.0, cfg.helpers.1);
        let mut sched: Vec<u8> = Vec::new(); // 0 helper, 1 vertex, 2 fragment, 3 compute
        if !cfg.shapes {
            for _ in 0..nh {
                sched.push(0);
            }
        }
        let mut ents: Vec<u8> = Vec::new();
        ents.extend(std::iter::repeat(1).take(nv));
        ents.extend(std::iter::repeat(2).take(nf));
        ents.extend(std::iter::repeat(3).take(nc));
        self.rng.shuffle(&mut ents);
        for e in ents {
            if self.rng.pct(75) || sched.is_empty() {
                sched.push(e);
            } else {
                let k = self.rng.range(1, sched.len());
                sched.insert(k, e);
                self.feat("entry_between_helpers");
            }
        }
        if cfg.shapes {
            self.gen_shapes(cfg);
            // a few extra random helpers, some of them never called by anything
            for _ in 0..self.rng.range(0, 2) {
                self.gen_helper(cfg, &[], &[], None);
            }
        }
        for s in sched {
            let stage = match s {
                1 => ST_V,
                2 => ST_F,
                _ => ST_C,
            };
            let mut must: Vec<usize> = Vec::new();
            if s != 0 && cfg.shapes {
                // each entry reaches its own subset of the DAG roots
                let roots: Vec<usize> = (0..self.funcs.len())
                    .filter(|f| !self.callee_set.contains(f) && self.funcs[*f].mask & stage != 0)
                    .collect();
                for r in &roots {
                    if self.rng.pct(50) {
                        must.push(*r);
                    }
                }
                if must.is_empty() && !roots.is_empty() {
                    must.push(*self.rng.pick(&roots));
                }
                // sometimes also jump into the middle of a shape
                let mids: Vec<usize> = (0..self.funcs.len()).filter(|f| self.funcs[*f].mask & stage != 0).collect();
                if !mids.is_empty() && self.rng.pct(25) {
                    must.push(*self.rng.pick(&mids));
                }
            }
            match s {
                0 => {
                    self.gen_helper(cfg, &[], &[], None);
                }
                1 => self.gen_vertex_entry(cfg, &must, &[]),
                2 => self.gen_fragment_entry(cfg, &must, &[]),
                _ => self.gen_compute_entry(cfg, &must, &[]),
            }
        }
        // reachability bookkeeping for the histogram
        let never_called = (0..self.funcs.len()).filter(|f| !self.callee_set.contains(f)).count();
        if never_called > 0 {
            self.feat("unreachable_helper");
        }
        if self.globals.iter().any(|g| g.uses == 0 && matches!(g.kind, GKind::Buffer { .. } | GKind::Tex(_) | GKind::Sampler(_))) {
            self.feat("unused_binding");
        }
        self.assemble()
    }
}

// ---------------------------------------------------------------------------------------------
// Profiles
// ---------------------------------------------------------------------------------------------

fn cfg_for(profile: &str) -> Cfg {
    let mut c = Cfg::base();
    match profile {
        "general" => {
            c.textures = (0, 4);
            c.helpers = (0, 12);
            c.acts = (2, 6);
            c.f64_pct = 12;
            c.workgroups = (0, 2);
            c.rust_kw_permille = 10;
            c.case_clash_permille = 12;
        }
        "callgraph" => {
            c.shapes = true;
            c.simple_buffers = true;
            c.buffers = (2, 6);
            c.textures = (0, 1);
            c.privates = (0, 1);
            c.workgroups = (0, 1);
            c.push_const_pct = 5;
            c.consts = (0, 1);
            c.overrides = (0, 1);
            c.structs_extra = (0, 0);
            c.acts = (0, 2);
            c.nest_pct = 55;
            c.vertex = (0, 1);
            c.fragment = (0, 1);
            c.compute = (0, 1);
            c.f64_pct = 0;
        }
        "structs" => {
            c.struct_roles = true;
            c.struct_depth = 4;
            c.struct_members = (1, 8);
            c.structs_extra = (1, 3);
            c.buffers = (2, 5);
            c.textures = (0, 0);
            c.privates = (0, 2);
            c.workgroups = (0, 2);
            c.push_const_pct = 15;
            c.helpers = (0, 2);
            c.consts = (0, 1);
            c.overrides = (0, 0);
            c.vertex = (0, 1);
            c.fragment = (0, 1);
            c.compute = (0, 1);
            c.f64_pct = 12;
            c.acts = (2, 6);
        }
        "vertex" => {
            c.vertex = (1, 3);
            c.fragment = (0, 1);
            c.compute = (0, 0);
            c.vin_members = (1, 8);
            c.buffers = (0, 2);
            c.textures = (0, 1);
            c.privates = (0, 0);
            c.workgroups = (0, 0);
            c.push_const_pct = 5;
            c.helpers = (0, 2);
            c.consts = (0, 1);
            c.overrides = (0, 1);
            c.structs_extra = (0, 0);
            c.simple_buffers = true;
            c.acts = (0, 2);
            c.f64_pct = 0;
        }
        "consts" => {
            c.consts = (3, 14);
            c.overrides = (0, 6);
            c.buffers = (0, 2);
            c.textures = (0, 0);
            c.helpers = (0, 3);
            c.simple_buffers = true;
            c.structs_extra = (0, 0);
            c.privates = (0, 1);
            c.workgroups = (0, 1);
            c.f64_pct = 25;
            c.acts = (2, 6);
        }
        "entries" => {
            c.allow_no_entry = true;
            c.vertex = (0, 3);
            c.fragment = (0, 3);
            c.compute = (0, 3);
            c.buffers = (0, 2);
            c.textures = (0, 1);
            c.helpers = (0, 2);
            c.simple_buffers = true;
            c.structs_extra = (0, 0);
            c.consts = (0, 3);
            c.overrides = (0, 2);
            c.acts = (0, 2);
            c.rust_kw_permille = 10;
            c.case_clash_permille = 12;
            c.f64_pct = 0;
        }
        "unicode" => {
            c.buffers = (1, 2);
            c.textures = (0, 1);
            c.helpers = (0, 2);
            c.structs_extra = (0, 1);
            c.struct_depth = 1;
            c.consts = (0, 2);
            c.overrides = (0, 1);
            c.vertex = (0, 1);
            c.fragment = (0, 1);
            c.compute = (0, 1);
            c.acts = (1, 3);
            c.f64_pct = 0;
        }
        "scale" => {
            c.helpers = (30, 150);
            c.call_depth_cap = 14;
            c.deep_bias = 85;
            c.acts = (1, 3);
            c.nest_pct = 25;
            c.buffers = (8, 40);
            c.textures = (0, 6);
            c.struct_members = (5, 60);
            c.struct_depth = 2;
            c.structs_extra = (0, 3);
            c.consts = (0, 10);
            c.overrides = (0, 6);
            c.max_groups = 4;
            c.vertex = (0, 2);
            c.fragment = (0, 2);
            c.compute = (0, 2);
        }
        _ => {}
    }
    c
}

pub fn generate(profile: &str, seed: u64, index: u64) -> GenCase {
    let mut g = Gen::new(profile, seed, index);
    let wgsl = match profile {
        "bindings" => g.build_bindings(),
        "textures" => g.build_textures(),
        "unicode" => {
            g.unicode_pct = 45;
            let cfg = cfg_for("unicode");
            let base = g.build_common(&cfg);
            g.unicode_decorate(&base)
        }
        "scale" => {
            let mut cfg = cfg_for("scale");
            // not every dimension is large in every case
            match g.rng.below(4) {
                0 => {
                    g.feat("scale_many_functions");
                    cfg.buffers = (2, 8);
                    cfg.struct_members = (1, 8);
                }
                1 => {
                    g.feat("scale_many_bindings");
                    cfg.helpers = (2, 12);
                    cfg.buffers = (20, 40);
                    cfg.struct_members = (1, 5);
                    cfg.simple_buffers = g.rng.pct(50);
                    if g.rng.pct(60) {
                        cfg.max_groups = 1;
                        g.feat("scale_one_group");
                    }
                }
                2 => {
                    g.feat("scale_big_structs");
                    cfg.helpers = (2, 12);
                    cfg.buffers = (2, 6);
                    cfg.struct_members = (30, 60);
                }
                _ => {
                    g.feat("scale_everything");
                    cfg.helpers = (30, 90);
                    cfg.buffers = (8, 24);
                    cfg.struct_members = (5, 30);
                }
            }
            g.build_common(&cfg)
        }
        p => {
            if p == "general" {
                g.unicode_pct = 6;
            } else if p != "callgraph" {
                g.unicode_pct = 2;
            }
            let cfg = cfg_for(p);
            g.build_common(&cfg)
        }
    };
    g.finish(wgsl)
}

impl Gen {
    // -----------------------------------------------------------------------------------------
    // `bindings` profile: (@group, @binding) multisets incl. gaps and duplicates
    // -----------------------------------------------------------------------------------------
    fn build_bindings(&mut self) -> String {
        let cfg = {
            let mut c = Cfg::base();
            c.simple_buffers = true;
            c.acts = (0, 1);
            c.nest_pct = 20;
            c
        };
        let n = self.rng.range(1, 6);
        for _ in 0..n {
            match self.rng.below(8) {
                0 => {
                    let name = self.fresh(0);
                    self.push_global(name, GKind::Tex(Tex::Sampled { dim: Dim::D2, sc: Sc::F32 }));
                }
                1 => {
                    let name = self.fresh(0);
                    self.push_global(name, GKind::Sampler(false));
                }
                2 => {
                    let name = self.fresh(0);
                    self.push_global(name, GKind::Tex(Tex::Storage { dim: Dim::D2, fmt: "rgba8unorm", sc: Sc::F32, access: "write" }));
                }
                _ => {
                    self.gen_buffer(&cfg);
                }
            }
        }
        let mode = self.rng.weighted(&[40, 20, 20, 20]);
        let (gap, dup) = match mode {
            0 => (false, false),
            1 => (true, false),
            2 => (false, true),
            _ => (true, true),
        };
        // group numbers
        let ngroups = self.rng.range(1, n.min(4));
        let mut group_ids: Vec<u32> = (0..ngroups as u32).collect();
        if gap {
            loop {
                group_ids.clear();
                let pool: Vec<u32> = if self.rng.pct(20) {
                    self.feat("huge_group");
                    vec![0, 1, 2, 3, 4294967295, 2147483648, 7]
                } else {
                    vec![0, 1, 2, 3, 4, 5]
                };
                let mut p = pool.clone();
                self.rng.shuffle(&mut p);
                p.truncate(ngroups);
                p.sort();
                group_ids = p;
                // a gap = not exactly {0..k-1}
                if group_ids.iter().enumerate().any(|(i, &g)| g != i as u32) {
                    break;
                }
            }
        }
        let mut order: Vec<usize> = (0..n).collect();
        self.rng.shuffle(&mut order);
        let mut used: Vec<(u32, u32)> = Vec::new();
        for (k, &gi) in order.iter().enumerate() {
            let grp = if k < group_ids.len() { group_ids[k] } else { *self.rng.pick(&group_ids) };
            let mut b;
            loop {
                b = match self.rng.below(25) {
                    0 => {
                        self.feat("huge_binding");
                        *self.rng.pick(&[4294967295u32, 4000000000, 2147483648, 65536])
                    }
                    _ => self.rng.below(4) as u32,
                };
                if !used.contains(&(grp, b)) {
                    break;
                }
            }
            used.push((grp, b));
            self.globals[gi].group = grp;
            self.globals[gi].binding = b;
        }
        let mut has_dup = false;
        if dup && n >= 2 {
            // copy the (group, binding) of one variable onto another one
            let a = self.rng.below(n);
            let mut b = self.rng.below(n);
            if a == b {
                b = (a + 1) % n;
            }
            self.globals[b].group = self.globals[a].group;
            self.globals[b].binding = self.globals[a].binding;
            has_dup = true;
            if self.rng.pct(25) && n >= 3 {
                let c = (b + 1) % n;
                if c != a {
                    self.globals[c].group = self.globals[a].group;
                    self.globals[c].binding = self.globals[a].binding;
                    self.feat("dup_triple");
                }
            }
        }
        // re-evaluate what we actually produced
        let mut gs: Vec<u32> = self.globals.iter().map(|g| g.group).collect();
        gs.sort();
        gs.dedup();
        let has_gap = gs.iter().enumerate().any(|(i, &g)| g != i as u32);
        if has_gap {
            self.feat("gap");
        }
        if has_dup {
            self.feat("dup");
        }
        if !has_gap && !has_dup {
            self.feat("dense");
        }
        // usage: each variable is used with 60 %; entries of random stages
        for i in 0..n {
            if self.rng.pct(40) {
                self.globals[i].no_use = true;
                self.feat("unused_binding");
            }
        }
        let nent = self.rng.range(1, 2);
        if self.rng.pct(30) {
            self.gen_helper(&cfg, &[], &[], Some(ST_ALL));
        }
        for _ in 0..nent {
            let usable: Vec<usize> = self.usable_globals(ST_ALL);
            let must: Vec<usize> = usable.iter().copied().filter(|_| self.rng.pct(70)).collect();
            match self.rng.below(3) {
                0 => self.gen_vertex_entry(&cfg, &[], &must),
                1 => self.gen_fragment_entry(&cfg, &[], &must),
                _ => self.gen_compute_entry(&cfg, &[], &must),
            }
        }
        self.assemble()
    }

    // -----------------------------------------------------------------------------------------
    // `textures` profile
    // -----------------------------------------------------------------------------------------
    fn build_textures(&mut self) -> String {
        let mut cfg = Cfg::base();
        cfg.simple_buffers = true;
        cfg.acts = (0, 1);
        cfg.nest_pct = 25;
        cfg.call_depth_cap = 4;
        let nt = self.rng.range(2, 7);
        for _ in 0..nt {
            self.gen_texture();
        }
        // samplers of both kinds so that every sampling builtin is available
        let need_plain = self.globals.iter().any(|g| matches!(g.kind, GKind::Tex(Tex::Sampled { .. }) | GKind::Tex(Tex::Depth { .. })));
        let need_cmp = self.globals.iter().any(|g| matches!(g.kind, GKind::Tex(Tex::Depth { .. })));
        if need_plain {
            self.feat("sampler");
            let name = self.fresh(0);
            self.push_global(name, GKind::Sampler(false));
        }
        if need_cmp {
            self.feat("sampler_comparison");
            let name = self.fresh(0);
            self.push_global(name, GKind::Sampler(true));
        }
        if self.rng.pct(30) {
            self.gen_buffer(&cfg);
        }
        self.assign_bindings(4);
        let texs: Vec<usize> = (0..self.globals.len()).filter(|&i| matches!(self.globals[i].kind, GKind::Tex(_))).collect();
        // optional helpers touching textures
        for _ in 0..self.rng.range(0, 2) {
            let t: Vec<usize> = texs.iter().copied().filter(|_| self.rng.pct(30)).collect();
            self.gen_helper(&cfg, &[], &t, None);
        }
        let nent = self.rng.range(1, 3);
        let mut stages: Vec<u8> = Vec::new();
        for _ in 0..nent {
            stages.push(*self.rng.pick(&[ST_F, ST_F, ST_C, ST_V]));
        }
        for (k, st) in stages.iter().enumerate() {
            // the first entry touches every texture, later ones a random subset; each texture
            // is accessed 1..3 times with (usually) different builtins
            let mut must: Vec<usize> = Vec::new();
            for &t in &texs {
                if k == 0 || self.rng.pct(50) {
                    for _ in 0..self.rng.range(1, 3) {
                        must.push(t);
                    }
                }
            }
            match *st {
                ST_V => self.gen_vertex_entry(&cfg, &[], &must),
                ST_F => self.gen_fragment_entry(&cfg, &[], &must),
                _ => self.gen_compute_entry(&cfg, &[], &must),
            }
        }
        self.assemble()
    }
}

// ---------------------------------------------------------------------------------------------
// `unicode` profile: comments / blankspace / line endings with arbitrary Unicode
// ---------------------------------------------------------------------------------------------

const C_TEXT: &[&str] = &[
    "TODO", "fix me", "see §4.2", "x = y", "return;", "fn main() {}", "struct S { a: f32 }",
    "@group(0) @binding(0) var<uniform> u: f32;", "@vertex", "@compute @workgroup_size(64)",
    "100%", "a < b && c > d", "override x: f32;", "const N = 4;", "entry point", "binding", "",
    " ", "   ", "-----", "=====", "#include \"common.wgsl\"", "#define FOO 1", "${name}", "{{tpl}}",
];

const C_SPECIAL: &[(&str, &str)] = &[
    ("\"", "comment_quote"), ("'", "comment_quote"), ("\"\"\"", "comment_quote"),
    ("r#\"", "comment_quote"), ("\"#", "comment_quote"), ("\\", "comment_backslash"),
    ("\\n", "comment_backslash"), ("\\\"", "comment_backslash"), ("\\u{1F600}", "comment_backslash"),
    ("\\\\", "comment_backslash"), ("{", "comment_braces"), ("}", "comment_braces"),
    ("{}", "comment_braces"), ("{{", "comment_braces"), ("}}", "comment_braces"),
    ("{0}", "comment_braces"), ("`", "comment_misc_ascii"), ("$", "comment_misc_ascii"),
    ("#", "comment_misc_ascii"), ("%s", "comment_misc_ascii"), ("\t", "comment_tab"),
    ("*", "comment_star_slash"), ("/", "comment_star_slash"), ("*/", "comment_star_slash"),
    ("/*", "comment_star_slash"), ("//", "comment_star_slash"), ("**/", "comment_star_slash"),
    ("😀", "comment_nonbmp"), ("🧪🦀", "comment_nonbmp"), ("𝔘𝔫𝔦", "comment_nonbmp"),
    ("\u{10FFFF}", "comment_nonbmp"), ("\u{1F468}\u{200D}\u{1F469}\u{200D}\u{1F467}", "comment_nonbmp"),
    ("e\u{301}\u{327}", "comment_combining"), ("\u{0300}\u{0301}", "comment_combining"),
    ("\u{FEFF}", "comment_bom"), ("\u{200B}", "comment_format_chars"), ("\u{200D}", "comment_format_chars"),
    ("\u{202E}", "comment_format_chars"), ("\u{200E}", "comment_format_chars"), ("\u{A0}", "comment_format_chars"),
    ("\u{E000}", "comment_private_use"), ("\u{FFFF}", "comment_noncharacter"), ("\u{FFFD}", "comment_noncharacter"),
    ("日本語のコメント", "comment_cjk"), ("العربية", "comment_rtl"), ("עברית", "comment_rtl"),
    ("\0", "comment_nul"), ("\u{1}", "comment_control"), ("\u{7}", "comment_control"),
    ("\u{8}", "comment_control"), ("\u{1B}[31m", "comment_control"), ("\u{1F}", "comment_control"),
    ("\u{7F}", "comment_control"), ("\u{80}", "comment_control"), ("\u{9F}", "comment_control"),
];

/// characters that terminate a line comment in naga's lexer (also all blankspace)
const LINE_BREAKS: &[&str] = &["\n", "\r\n", "\r", "\u{0B}", "\u{0C}", "\u{85}", "\u{2028}", "\u{2029}"];

impl Gen {
    fn comment_text(&mut self, block: bool) -> String {
        let n = self.rng.range(0, 7);
        let mut s = String::new();
        for _ in 0..n {
            match self.rng.below(10) {
                0..=3 => {
                    let t = *self.rng.pick(C_TEXT);
                    if t.contains('{') || t.contains(';') {
                        self.feat("comment_code_like");
                    }
                    s.push_str(t);
                }
                4 => {
                    let w: &str = *self.rng.pick(UNI_WORDS);
                    s.push_str(w);
                }
                5 if block => {
                    // line breaks inside block comments
                    let b = *self.rng.pick(LINE_BREAKS);
                    self.feat(match b {
                        "\n" | "\r\n" | "\r" => "comment_multiline_block",
                        "\u{2028}" | "\u{2029}" => "comment_ls_ps",
                        _ => "comment_exotic_linebreak_in_block",
                    });
                    s.push_str(b);
                }
                _ => {
                    let (t, f) = *self.rng.pick(C_SPECIAL);
                    self.feat(f);
                    s.push_str(t);
                }
            }
            if self.rng.pct(60) {
                s.push(' ');
            }
        }
        if block {
            s = s.replace("*/", "* /").replace("/*", "/ *");
            // second pass: the first replacement can create a new "/*" out of "/*/"
            s = s.replace("*/", "* /").replace("/*", "/ *");
        } else {
            for b in ["\n", "\r", "\u{0B}", "\u{0C}", "\u{85}", "\u{2028}", "\u{2029}"] {
                s = s.replace(b, " ");
            }
            if self.rng.pct(8) {
                self.feat("comment_trailing_backslash");
                s.push('\\');
            }
        }
        s
    }

    fn block_comment(&mut self) -> String {
        let a = self.comment_text(true);
        if self.rng.pct(20) {
            self.feat("comment_nested_block");
            let b = self.comment_text(true);
            let c = self.comment_text(true);
            format!("/* {} /* {} */ {} */", a, b, c)
        } else if self.rng.pct(10) {
            "/**/".to_string()
        } else {
            format!("/* {} */", a)
        }
    }

    fn unicode_decorate(&mut self, base: &str) -> String {
        let style = self.rng.weighted(&[30, 20, 12, 38]);
        self.feat(match style {
            0 => "line_ending_lf",
            1 => "line_ending_crlf",
            2 => "line_ending_cr",
            _ => "line_ending_mixed",
        });
        let mut out = String::new();
        let eol = |g: &mut Gen| -> &'static str {
            match style {
                0 => "\n",
                1 => "\r\n",
                2 => "\r",
                _ => {
                    if g.rng.pct(25) {
                        g.feat("line_ending_exotic");
                        *g.rng.pick(&["\u{0B}", "\u{0C}", "\u{85}", "\u{2028}", "\u{2029}"])
                    } else {
                        *g.rng.pick(&["\n", "\r\n", "\r"])
                    }
                }
            }
        };
        if self.rng.pct(30) {
            // file starts with a comment
            let c = if self.rng.pct(50) { format!("//{}", self.comment_text(false)) } else { self.block_comment() };
            out.push_str(&c);
            out.push_str(eol(self));
        }
        for line in base.split('\n') {
            if self.rng.pct(14) {
                let indent: String = line.chars().take_while(|c| *c == ' ').collect();
                out.push_str(&indent);
                if self.rng.pct(55) {
                    self.feat("line_comment");
                    out.push_str("//");
                    let t = self.comment_text(false);
                    out.push_str(&t);
                } else {
                    self.feat("block_comment");
                    let c = self.block_comment();
                    out.push_str(&c);
                }
                out.push_str(eol(self));
            }
            // inline decoration of the code line itself
            let mut first_non_space = false;
            for ch in line.chars() {
                if ch != ' ' {
                    first_non_space = true;
                    out.push(ch);
                    continue;
                }
                if first_non_space && self.rng.pct(3) {
                    self.feat("inline_block_comment");
                    out.push(' ');
                    let c = self.block_comment();
                    out.push_str(&c);
                    out.push(' ');
                } else if self.rng.pct(3) {
                    self.feat("blankspace_exotic");
                    let b: &str = *self.rng.pick(&["\t", "\u{200E}", "\u{200F}", " \t ", "\u{0B}", "\u{0C}", "\u{85}", "\u{2028}", "\u{2029}", "\r", "\n"]);
                    out.push_str(b);
                } else {
                    out.push(' ');
                }
            }
            if self.rng.pct(8) {
                self.feat("trailing_line_comment");
                out.push_str(" //");
                let t = self.comment_text(false);
                out.push_str(&t);
            }
            out.push_str(eol(self));
        }
        match self.rng.below(5) {
            0 => {
                self.feat("comment_at_eof_no_newline");
                out.push_str("//");
                let t = self.comment_text(false);
                out.push_str(&t);
            }
            1 => {
                self.feat("block_comment_at_eof");
                let c = self.block_comment();
                out.push_str(&c);
            }
            _ => {}
        }
        out
    }
}

// ---------------------------------------------------------------------------------------------
// Deterministic families
// ---------------------------------------------------------------------------------------------

/// `f0` reads a storage and a uniform binding; `f{i+1}` calls `f{i}` twice (once as a call
/// statement / `let`, once inside an expression when `value_returning`); a compute entry calls
/// `f{depth-1}`. Number of call paths is `2^depth`.
pub fn chain(depth: usize, value_returning: bool) -> String {
    let mut s = String::new();
    s.push_str("@group(0) @binding(0) var<storage, read_write> buf: array<f32>;\n");
    s.push_str("@group(0) @binding(1) var<uniform> uni: vec4<f32>;\n\n");
    if depth == 0 {
        s.push_str("@compute @workgroup_size(1)\nfn main() {\n    buf[1] = buf[0] + uni.x;\n}\n");
        return s;
    }
    if value_returning {
        s.push_str("fn hf0() -> f32 {\n    return buf[0] + uni.x;\n}\n\n");
        for i in 1..depth {
            s.push_str(&format!(
                "fn hf{}() -> f32 {{\n    let a = hf{}();\n    return a + hf{}() * 0.5;\n}}\n\n",
                i,
                i - 1,
                i - 1
            ));
        }
        s.push_str(&format!("@compute @workgroup_size(1)\nfn main() {{\n    buf[1] = hf{}();\n}}\n", depth - 1));
    } else {
        s.push_str("fn hf0() {\n    buf[0] = buf[0] + uni.x;\n}\n\n");
        for i in 1..depth {
            s.push_str(&format!("fn hf{}() {{\n    hf{}();\n    if (uni.y > 0.0) {{\n        hf{}();\n    }}\n}}\n\n", i, i - 1, i - 1));
        }
        s.push_str(&format!("@compute @workgroup_size(1)\nfn main() {{\n    hf{}();\n}}\n", depth - 1));
    }
    s
}

/// Level `i` has two functions `a_i`, `b_i`, each calling both `a_{i-1}` and `b_{i-1}`;
/// the entry calls `a_top` and `b_top`. `depth` = number of levels (>= 1).
pub fn diamond(depth: usize) -> String {
    let depth = depth.max(1);
    let mut s = String::new();
    s.push_str("@group(0) @binding(0) var<storage, read> src: array<f32>;\n");
    s.push_str("@group(0) @binding(1) var<uniform> uni: vec4<f32>;\n");
    s.push_str("@group(1) @binding(0) var<storage, read_write> dst: array<f32>;\n\n");
    s.push_str("fn a_0() -> f32 {\n    return src[0];\n}\n\n");
    s.push_str("fn b_0() -> f32 {\n    return uni.x;\n}\n\n");
    for i in 1..depth {
        s.push_str(&format!("fn a_{}() -> f32 {{\n    return a_{}() + b_{}();\n}}\n\n", i, i - 1, i - 1));
        s.push_str(&format!(
            "fn b_{}() -> f32 {{\n    let x = a_{}();\n    let y = b_{}();\n    return x * y;\n}}\n\n",
            i,
            i - 1,
            i - 1
        ));
    }
    s.push_str(&format!(
        "@compute @workgroup_size(1)\nfn main() {{\n    dst[0] = a_{}();\n    dst[1] = b_{}();\n}}\n",
        depth - 1,
        depth - 1
    ));
    s
}

/// the diamond ladder with helpers that touch NO module-scope variable at all (a memo that confuses "reaches nothing"
/// with "not computed yet" re-resolves them from every caller); `void_calls`: result-less helpers, called as statements.
pub fn diamond_pure(depth: usize, void_calls: bool) -> String {
    let depth = depth.max(1);
    let mut s = String::new();
    s.push_str("@group(0) @binding(0) var<storage, read_write> dst: array<f32>;\n\n");
    if void_calls {
        s.push_str("fn a_0() {\n}\n\nfn b_0() {\n}\n\n");
        for i in 1..depth {
            s.push_str(&format!("fn a_{}() {{\n    a_{}();\n    b_{}();\n}}\n\n", i, i - 1, i - 1));
            s.push_str(&format!("fn b_{}() {{\n    b_{}();\n    a_{}();\n}}\n\n", i, i - 1, i - 1));
        }
        s.push_str(&format!("@compute @workgroup_size(1)\nfn main() {{\n    a_{}();\n    b_{}();\n    dst[0] = 1.0;\n}}\n", depth - 1, depth - 1));
    } else {
        s.push_str("fn a_0() -> f32 {\n    return 1.0;\n}\n\nfn b_0() -> f32 {\n    return 2.0;\n}\n\n");
        for i in 1..depth {
            s.push_str(&format!("fn a_{}() -> f32 {{\n    return a_{}() + b_{}();\n}}\n\n", i, i - 1, i - 1));
            s.push_str(&format!("fn b_{}() -> f32 {{\n    let x = a_{}();\n    let y = b_{}();\n    return x * y;\n}}\n\n", i, i - 1, i - 1));
        }
        s.push_str(&format!("@compute @workgroup_size(1)\nfn main() {{\n    dst[0] = a_{}();\n    dst[1] = b_{}();\n}}\n", depth - 1, depth - 1));
    }
    s
}

/// the diamond ladder whose helpers take a POINTER parameter (`ptr<function, f32>`): helpers with pointer parameters are
/// helpers like any other for the traversal
pub fn diamond_ptr(depth: usize) -> String {
    let depth = depth.max(1);
    let mut s = String::new();
    s.push_str("@group(0) @binding(0) var<uniform> uni: vec4<f32>;\n@group(0) @binding(1) var<storage, read_write> dst: array<f32>;\n\n");
    s.push_str("fn a_0(p: ptr<function, f32>) {\n    *p = *p + uni.x;\n}\n\nfn b_0(p: ptr<function, f32>) {\n    *p = *p * 2.0;\n}\n\n");
    for i in 1..depth {
        s.push_str(&format!("fn a_{}(p: ptr<function, f32>) {{\n    a_{}(p);\n    b_{}(p);\n}}\n\n", i, i - 1, i - 1));
        s.push_str(&format!("fn b_{}(p: ptr<function, f32>) {{\n    b_{}(p);\n    a_{}(p);\n}}\n\n", i, i - 1, i - 1));
    }
    s.push_str(&format!("@compute @workgroup_size(1)\nfn main() {{\n    var x: f32 = 1.0;\n    a_{}(&x);\n    b_{}(&x);\n    dst[0] = x;\n}}\n", depth - 1, depth - 1));
    s
}

/// a chain of `helpers` void helpers, each call sitting inside 12 nested `if`s: every function is shallow, the summed
/// block-plus-call depth along the path is `13 * helpers` (a walk that carries one depth counter across calls gives up)
pub fn nested_ifs(helpers: usize) -> String {
    let mut s = String::new();
    s.push_str("@group(0) @binding(0) var<uniform> uni: vec4<f32>;\n@group(0) @binding(1) var<storage, read_write> dst: array<f32>;\n\n");
    s.push_str("fn h_0() {\n    dst[0] = uni.x;\n}\n\n");
    for i in 1..=helpers {
        let open: String = (0..12).map(|k| format!("if uni.x > {}.0 {{ ", k)).collect();
        let close: String = (0..12).map(|_| "} ").collect();
        s.push_str(&format!("fn h_{}() {{\n    {}h_{}(); {}\n}}\n\n", i, open, i - 1, close));
    }
    s.push_str(&format!("@compute @workgroup_size(1)\nfn main() {{\n    h_{}();\n}}\n", helpers));
    s
}

/// `struct S{i+1} { x: array<S{i}, 1>, y: array<S{i}, 1> }`: the shared nested type is reached through ARRAY members
/// (a closure that only remembers struct handles re-expands it). Byte size doubles per level (keep `depth <= 26`).
pub fn nested_struct_arrays(depth: usize) -> String {
    let mut s = String::new();
    s.push_str("struct S0 {\n    a: f32,\n}\n\n");
    for i in 1..=depth {
        s.push_str(&format!("struct S{} {{\n    x: array<S{}, 1>,\n    y: array<S{}, 1>,\n}}\n\n", i, i - 1, i - 1));
    }
    s.push_str(&format!("@group(0) @binding(0) var<storage, read_write> data: S{};\n\n", depth));
    let mut path = String::from("data");
    for i in 0..depth {
        path.push_str(if i % 2 == 0 { ".x[0]" } else { ".y[0]" });
    }
    path.push_str(".a");
    s.push_str(&format!("@compute @workgroup_size(1)\nfn main() {{\n    {} = {} + 1.0;\n}}\n", path, path));
    s
}

/// a single chain of nesting, `struct S{i+1} {{ inner: S{i}, pad: f32 }}`, alternating with fixed arrays: linear size, any depth
/// (a closure that gives up beyond some composite nesting depth drops the innermost structs).
pub fn nested_deep(depth: usize) -> String {
    let mut s = String::new();
    s.push_str("struct S0 {\n    a: vec4<f32>,\n}\n\n");
    for i in 1..=depth {
        if i % 3 == 0 {
            s.push_str(&format!("struct S{} {{\n    inner: array<S{}, 1>,\n    pad: vec4<f32>,\n}}\n\n", i, i - 1));
        } else {
            s.push_str(&format!("struct S{} {{\n    inner: S{},\n    pad: vec4<f32>,\n}}\n\n", i, i - 1));
        }
    }
    s.push_str(&format!("@group(0) @binding(0) var<storage, read_write> data: S{};\n\n", depth));
    s.push_str("@compute @workgroup_size(1)\nfn main() {\n    data.pad = vec4<f32>(1.0);\n}\n");
    s
}

/// `width` helpers each calling one shared helper that touches a binding; the entry calls all.
pub fn fanout(width: usize) -> String {
    let mut s = String::new();
    s.push_str("@group(0) @binding(0) var<uniform> uni: vec4<f32>;\n");
    s.push_str("@group(0) @binding(1) var<storage, read_write> dst: array<f32>;\n\n");
    s.push_str("fn shared_helper() -> f32 {\n    return uni.x;\n}\n\n");
    for k in 0..width {
        s.push_str(&format!("fn h_{}() -> f32 {{\n    return shared_helper() + {}.0;\n}}\n\n", k, k));
    }
    s.push_str("@compute @workgroup_size(1)\nfn main() {\n    var acc: f32 = 0.0;\n");
    for k in 0..width {
        s.push_str(&format!("    acc += h_{}();\n", k));
    }
    s.push_str("    dst[0] = acc;\n}\n");
    s
}

/// `struct S0 { a: f32 }`, `struct S{i+1} { x: S{i}, y: S{i} }`, a storage buffer of `S{depth}`.
/// Both members have the same nested type: visiting the type tree without memoisation is
/// exponential. Byte size is `4 * 2^depth` (keep `depth <= 28`).
pub fn nested_structs(depth: usize) -> String {
    let mut s = String::new();
    s.push_str("struct S0 {\n    a: f32,\n}\n\n");
    for i in 1..=depth {
        s.push_str(&format!("struct S{} {{\n    x: S{},\n    y: S{},\n}}\n\n", i, i - 1, i - 1));
    }
    s.push_str(&format!("@group(0) @binding(0) var<storage, read_write> data: S{};\n\n", depth));
    let mut path = String::from("data");
    for i in 0..depth {
        path.push_str(if i % 2 == 0 { ".x" } else { ".y" });
    }
    path.push_str(".a");
    s.push_str(&format!("@compute @workgroup_size(1)\nfn main() {{\n    {} = {} + 1.0;\n}}\n", path, path));
    s
}
