//! naga::Module -> IR S-expression (decoded by lean/WgslVerif/Decode.lean).
use crate::sexp::*;
use case::CaseExt;
use naga::{
    AddressSpace, ArraySize, Binding, Block, Expression, Function, ImageClass, ImageDimension,
    Literal, Module, ScalarKind, Statement, StorageAccess, TypeInner, VectorSize,
};

fn kind(k: ScalarKind) -> Sexp {
    atom(match k {
        ScalarKind::Sint => "sint",
        ScalarKind::Uint => "uint",
        ScalarKind::Float => "float",
        ScalarKind::Bool => "bool",
        ScalarKind::AbstractInt => "aint",
        ScalarKind::AbstractFloat => "afloat",
    })
}

fn vsize(v: VectorSize) -> Sexp {
    nat(v as u32)
}

fn binding(b: &Option<Binding>) -> Sexp {
    opt(b.as_ref().map(|b| match b {
        Binding::BuiltIn(bi) => tagged("builtin", vec![string(format!("{bi:?}"))]),
        Binding::Location { location, .. } => tagged("location", vec![nat(*location)]),
    }))
}

fn access(a: StorageAccess) -> Vec<Sexp> {
    vec![
        boolean(a.contains(StorageAccess::LOAD)),
        boolean(a.contains(StorageAccess::STORE)),
        boolean(a.contains(StorageAccess::ATOMIC)),
    ]
}

fn inner(t: &TypeInner) -> Sexp {
    match t {
        TypeInner::Scalar(s) => tagged("scalar", vec![kind(s.kind), nat(s.width)]),
        TypeInner::Vector { size, scalar } => {
            tagged("vector", vec![vsize(*size), kind(scalar.kind), nat(scalar.width)])
        }
        TypeInner::Matrix {
            columns,
            rows,
            scalar,
        } => tagged(
            "matrix",
            vec![vsize(*columns), vsize(*rows), kind(scalar.kind), nat(scalar.width)],
        ),
        TypeInner::Atomic(s) => tagged("atomic", vec![kind(s.kind), nat(s.width)]),
        TypeInner::Pointer { base, .. } => tagged("pointer", vec![nat(base.index() as u64)]),
        TypeInner::ValuePointer { .. } => atom("valuePointer"),
        TypeInner::Array { base, size, stride } => tagged(
            "array",
            vec![
                nat(base.index() as u64),
                match size {
                    ArraySize::Constant(n) => tagged("const", vec![nat(n.get())]),
                    ArraySize::Dynamic => atom("dynamic"),
                    ArraySize::Pending(_) => atom("pending"),
                },
                nat(*stride),
            ],
        ),
        TypeInner::Struct { members, span } => {
            let mut v = vec![nat(*span)];
            for m in members {
                v.push(tagged(
                    "m",
                    vec![
                        opt_str(m.name.as_ref()),
                        nat(m.ty.index() as u64),
                        binding(&m.binding),
                        nat(m.offset),
                    ],
                ));
            }
            tagged("struct", v)
        }
        TypeInner::Image {
            dim,
            arrayed,
            class,
        } => tagged(
            "image",
            vec![
                atom(match dim {
                    ImageDimension::D1 => "d1",
                    ImageDimension::D2 => "d2",
                    ImageDimension::D3 => "d3",
                    ImageDimension::Cube => "cube",
                }),
                boolean(*arrayed),
                match class {
                    ImageClass::Sampled { kind: k, multi } => {
                        tagged("sampled", vec![kind(*k), boolean(*multi)])
                    }
                    ImageClass::Depth { multi } => tagged("depth", vec![boolean(*multi)]),
                    ImageClass::Storage { format, access: a } => {
                        let mut v = vec![string(format!("{format:?}"))];
                        v.extend(access(*a));
                        tagged("storage", v)
                    }
                },
            ],
        ),
        TypeInner::Sampler { comparison } => tagged("sampler", vec![boolean(*comparison)]),
        TypeInner::AccelerationStructure => atom("accel"),
        TypeInner::RayQuery => atom("rayQuery"),
        TypeInner::BindingArray { base, .. } => {
            tagged("bindingArray", vec![nat(base.index() as u64)])
        }
    }
}

fn space(s: AddressSpace) -> Sexp {
    match s {
        AddressSpace::Function => atom("function"),
        AddressSpace::Private => atom("private"),
        AddressSpace::WorkGroup => atom("workgroup"),
        AddressSpace::Uniform => atom("uniform"),
        AddressSpace::Storage { access: a } => tagged("storage", access(a)),
        AddressSpace::Handle => atom("handle"),
        AddressSpace::PushConstant => atom("pushConstant"),
    }
}

fn stmt_tag(s: &Statement) -> &'static str {
    match s {
        Statement::Emit(_) => "Emit",
        Statement::Block(_) => "Block",
        Statement::If { .. } => "If",
        Statement::Switch { .. } => "Switch",
        Statement::Loop { .. } => "Loop",
        Statement::Break => "Break",
        Statement::Continue => "Continue",
        Statement::Return { .. } => "Return",
        Statement::Kill => "Kill",
        Statement::Barrier(_) => "Barrier",
        Statement::Store { .. } => "Store",
        Statement::ImageStore { .. } => "ImageStore",
        Statement::Atomic { .. } => "Atomic",
        Statement::ImageAtomic { .. } => "ImageAtomic",
        Statement::WorkGroupUniformLoad { .. } => "WorkGroupUniformLoad",
        Statement::Call { .. } => "Call",
        Statement::RayQuery { .. } => "RayQuery",
        Statement::SubgroupBallot { .. } => "SubgroupBallot",
        Statement::SubgroupGather { .. } => "SubgroupGather",
        Statement::SubgroupCollectiveOperation { .. } => "SubgroupCollectiveOperation",
    }
}

fn block(b: &Block) -> Vec<Sexp> {
    b.iter().map(stmt).collect()
}

fn stmt(s: &Statement) -> Sexp {
    match s {
        Statement::Block(b) => tagged("block", block(b)),
        Statement::If { accept, reject, .. } => {
            tagged("if", vec![list(block(accept)), list(block(reject))])
        }
        Statement::Switch { cases, .. } => {
            tagged("switch", cases.iter().map(|c| list(block(&c.body))).collect())
        }
        Statement::Loop {
            body, continuing, ..
        } => tagged("loop", vec![list(block(body)), list(block(continuing))]),
        Statement::Call {
            function, result, ..
        } => tagged(
            "call",
            vec![nat(function.index() as u64), boolean(result.is_some())],
        ),
        other => tagged("o", vec![atom(stmt_tag(other))]),
    }
}

fn function(f: &Function) -> Sexp {
    let mut args = vec![];
    for a in &f.arguments {
        args.push(list(vec![nat(a.ty.index() as u64), binding(&a.binding)]));
    }
    let result = opt(f
        .result
        .as_ref()
        .map(|r| list(vec![nat(r.ty.index() as u64), binding(&r.binding)])));
    let mut exprs = vec![];
    for (_, e) in f.expressions.iter() {
        exprs.push(match e {
            Expression::GlobalVariable(g) => tagged("g", vec![nat(g.index() as u64)]),
            Expression::CallResult(h) => tagged("cr", vec![nat(h.index() as u64)]),
            _ => atom("o"),
        });
    }
    tagged(
        "fn",
        vec![
            opt_str(f.name.as_ref()),
            tagged("args", args),
            tagged("result", vec![result]),
            tagged("body", block(&f.body)),
            tagged("exprs", exprs),
        ],
    )
}

fn literal(l: &Literal) -> Sexp {
    match l {
        Literal::F64(v) => tagged("f64", vec![nat(v.to_bits())]),
        Literal::F32(v) => tagged("f32", vec![nat(v.to_bits())]),
        Literal::U32(v) => tagged("u32", vec![nat(*v)]),
        Literal::I32(v) => tagged("i32", vec![int(*v)]),
        Literal::U64(v) => tagged("u64", vec![nat(*v)]),
        Literal::I64(v) => tagged("i64", vec![int(*v)]),
        Literal::Bool(v) => tagged("bool", vec![boolean(*v)]),
        Literal::AbstractInt(v) => tagged("aint", vec![int(*v)]),
        Literal::AbstractFloat(v) => tagged("afloat", vec![nat(v.to_bits())]),
    }
}

pub fn module(m: &Module) -> Sexp {
    let mut layouter = naga::proc::Layouter::default();
    let lay_ok = layouter.update(m.to_ctx()).is_ok();

    let mut types = vec![];
    for (h, t) in m.types.iter() {
        let size = std::panic::catch_unwind(std::panic::AssertUnwindSafe(|| {
            t.inner.size(m.to_ctx())
        }))
        .unwrap_or(u32::MAX);
        let (ls, la) = if lay_ok {
            let l = layouter[h];
            (l.size as u64, l.alignment * 1u32)
        } else {
            (u32::MAX as u64, 0)
        };
        types.push(tagged(
            "ty",
            vec![
                opt_str(t.name.as_ref()),
                inner(&t.inner),
                nat(size),
                nat(ls),
                nat(la),
                string(t.name.as_ref().map(|n| n.to_snake()).unwrap_or_default()),
            ],
        ));
    }

    let mut globals = vec![];
    for (_, g) in m.global_variables.iter() {
        globals.push(tagged(
            "g",
            vec![
                opt_str(g.name.as_ref()),
                space(g.space),
                opt(g
                    .binding
                    .as_ref()
                    .map(|b| list(vec![nat(b.group), nat(b.binding)]))),
                nat(g.ty.index() as u64),
            ],
        ));
    }

    let mut consts = vec![];
    for (_, c) in m.constants.iter() {
        let lit = match &m.global_expressions[c.init] {
            Expression::Literal(l) => Some(literal(l)),
            _ => None,
        };
        consts.push(tagged(
            "c",
            vec![opt_str(c.name.as_ref()), opt(lit), nat(c.ty.index() as u64)],
        ));
    }

    let mut overrides = vec![];
    for (_, o) in m.overrides.iter() {
        overrides.push(tagged(
            "o",
            vec![
                opt_str(o.name.as_ref()),
                opt(o.id.map(nat)),
                nat(o.ty.index() as u64),
                boolean(o.init.is_some()),
            ],
        ));
    }

    let functions: Vec<_> = m.functions.iter().map(|(_, f)| function(f)).collect();

    let mut entries = vec![];
    for e in &m.entry_points {
        entries.push(tagged(
            "ep",
            vec![
                string(e.name.clone()),
                string(e.name.to_uppercase()),
                atom(match e.stage {
                    naga::ShaderStage::Vertex => "vertex",
                    naga::ShaderStage::Fragment => "fragment",
                    naga::ShaderStage::Compute => "compute",
                }),
                tagged("wg", e.workgroup_size.iter().map(|x| nat(*x)).collect()),
                function(&e.function),
            ],
        ));
    }

    tagged(
        "module",
        vec![
            tagged("types", types),
            tagged("globals", globals),
            tagged("consts", consts),
            tagged("overrides", overrides),
            tagged("functions", functions),
            tagged("entries", entries),
        ],
    )
}
