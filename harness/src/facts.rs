//! Strict reader of the *real* generated Rust text: text -> structured facts (S-expression).
//!
//! Every top-level item and every part of it has to be consumed by a known pattern;
//! anything else is reported under `(unknown ...)`, which the Lean model never
//! produces, so unexplained output is a disagreement rather than ignored.
//! Small embedded expression languages (stage sets, literals) are evaluated.
use crate::sexp::*;
use proc_macro2::{Delimiter, TokenStream, TokenTree};
use quote::ToTokens;
use syn::{
    punctuated::Punctuated, Expr, ExprLit, Fields, FnArg, GenericArgument, ImplItem, Item, Lit,
    Pat, PathArguments, ReturnType, Stmt, Token, Type, UnOp,
};

/// Version-independent normal form of a token stream: leaf tokens separated by single spaces.
pub fn norm(ts: TokenStream) -> String {
    fn go(ts: TokenStream, out: &mut Vec<String>) {
        for tt in ts {
            match tt {
                TokenTree::Group(g) => {
                    let (o, c) = match g.delimiter() {
                        Delimiter::Parenthesis => ("(", ")"),
                        Delimiter::Brace => ("{", "}"),
                        Delimiter::Bracket => ("[", "]"),
                        Delimiter::None => ("", ""),
                    };
                    if !o.is_empty() {
                        out.push(o.to_string());
                    }
                    go(g.stream(), out);
                    if !c.is_empty() {
                        out.push(c.to_string());
                    }
                }
                TokenTree::Ident(i) => out.push(i.to_string()),
                TokenTree::Punct(p) => {
                    // glue joint punctuation (`::`, `->`, `==`, `'a`) to what follows
                    if p.spacing() == proc_macro2::Spacing::Joint {
                        out.push(format!("{}\u{1}", p.as_char()));
                    } else {
                        out.push(p.as_char().to_string());
                    }
                }
                TokenTree::Literal(l) => out.push(l.to_string()),
            }
        }
    }
    let mut v = vec![];
    go(ts, &mut v);
    v.join(" ")
        .replace("\u{1} ", "")
        .replace('\u{1}', "")
        .replace(", )", ")")
        .replace(", }", "}")
        .replace(", ]", "]")
        .replace(", >", ">")
}

pub fn n(x: &impl ToTokens) -> String {
    norm(x.to_token_stream())
}

fn path_str(p: &syn::Path) -> String {
    let mut s = String::new();
    if p.leading_colon.is_some() {
        s.push_str("::");
    }
    for (i, seg) in p.segments.iter().enumerate() {
        if i > 0 {
            s.push_str("::");
        }
        s.push_str(&seg.ident.to_string());
    }
    s
}

fn expr_path(e: &Expr) -> Option<String> {
    match e {
        Expr::Path(p) if p.qself.is_none() && p.attrs.is_empty() => {
            if p.path.segments.iter().all(|s| s.arguments.is_none()) {
                Some(path_str(&p.path))
            } else {
                None
            }
        }
        Expr::Paren(p) => expr_path(&p.expr),
        _ => None,
    }
}

fn lit_u128(e: &Expr) -> Option<(u128, String)> {
    match e {
        Expr::Lit(ExprLit {
            lit: Lit::Int(i), ..
        }) => Some((i.base10_parse::<u128>().ok()?, i.suffix().to_string())),
        _ => None,
    }
}

fn lit_bool(e: &Expr) -> Option<bool> {
    match e {
        Expr::Lit(ExprLit {
            lit: Lit::Bool(b), ..
        }) => Some(b.value),
        _ => None,
    }
}

fn lit_str(e: &Expr) -> Option<String> {
    match e {
        Expr::Lit(ExprLit {
            lit: Lit::Str(s), ..
        }) => Some(s.value()),
        _ => None,
    }
}

/// Evaluate a `wgpu::ShaderStages` expression to (v, f, c).
pub fn eval_stages(e: &Expr) -> Option<(bool, bool, bool)> {
    match e {
        Expr::Paren(p) => eval_stages(&p.expr),
        Expr::Path(_) => match expr_path(e)?.as_str() {
            "wgpu::ShaderStages::NONE" => Some((false, false, false)),
            "wgpu::ShaderStages::VERTEX" => Some((true, false, false)),
            "wgpu::ShaderStages::FRAGMENT" => Some((false, true, false)),
            "wgpu::ShaderStages::COMPUTE" => Some((false, false, true)),
            "wgpu::ShaderStages::VERTEX_FRAGMENT" => Some((true, true, false)),
            _ => None,
        },
        Expr::Call(c) => {
            let f = expr_path(&c.func)?;
            if c.args.is_empty() {
                match f.as_str() {
                    "wgpu::ShaderStages::all" => Some((true, true, true)),
                    "wgpu::ShaderStages::empty" => Some((false, false, false)),
                    _ => None,
                }
            } else {
                None
            }
        }
        Expr::MethodCall(m) if m.method == "union" && m.args.len() == 1 => {
            let a = eval_stages(&m.receiver)?;
            let b = eval_stages(&m.args[0])?;
            Some((a.0 || b.0, a.1 || b.1, a.2 || b.2))
        }
        Expr::Binary(b) if matches!(b.op, syn::BinOp::BitOr(_)) => {
            let a = eval_stages(&b.left)?;
            let c = eval_stages(&b.right)?;
            Some((a.0 || c.0, a.1 || c.1, a.2 || c.2))
        }
        _ => None,
    }
}

fn stages_sexp(s: (bool, bool, bool)) -> Sexp {
    tagged("stages", vec![boolean(s.0), boolean(s.1), boolean(s.2)])
}

/// Rust type -> RustTy S-expression.
pub fn rust_ty(t: &Type) -> Sexp {
    match t {
        Type::Array(a) => match lit_u128(&a.len) {
            Some((len, suf)) if suf.is_empty() => tagged("array", vec![rust_ty(&a.elem), nat(len)]),
            _ => tagged("unknownTy", vec![string(n(t))]),
        },
        Type::Path(p) if p.qself.is_none() => {
            let ps = path_str(&p.path);
            let last = p.path.segments.last().unwrap();
            match &last.arguments {
                PathArguments::None => {
                    if p.path.segments.len() == 1 {
                        match ps.as_str() {
                            "i8" | "u8" | "i16" | "u16" | "i32" | "u32" | "f32" | "f64" | "bool"
                            | "i64" | "u64" => tagged("prim", vec![string(ps)]),
                            _ => tagged("named", vec![string(ps)]),
                        }
                    } else if let Some(g) = ps.strip_prefix("glam::") {
                        tagged("glam", vec![string(g)])
                    } else {
                        tagged("unknownTy", vec![string(n(t))])
                    }
                }
                PathArguments::AngleBracketed(ab) => {
                    let args: Vec<_> = ab.args.iter().collect();
                    let ty_arg = |g: &GenericArgument| match g {
                        GenericArgument::Type(t) => Some(rust_ty(t)),
                        _ => None,
                    };
                    let n_arg = |g: &GenericArgument| match g {
                        GenericArgument::Const(e) => lit_u128(e).filter(|x| x.1.is_empty()).map(|x| x.0),
                        _ => None,
                    };
                    match (ps.as_str(), args.as_slice()) {
                        ("nalgebra::SVector", [a, b]) => match (ty_arg(a), n_arg(b)) {
                            (Some(t), Some(k)) => tagged("nalgebraV", vec![t, nat(k)]),
                            _ => tagged("unknownTy", vec![string(n(t))]),
                        },
                        ("nalgebra::SMatrix", [a, b, c]) => match (ty_arg(a), n_arg(b), n_arg(c)) {
                            (Some(t), Some(r), Some(cc)) => tagged("nalgebraM", vec![t, nat(r), nat(cc)]),
                            _ => tagged("unknownTy", vec![string(n(t))]),
                        },
                        ("Vec", [a]) => match ty_arg(a) {
                            Some(t) => tagged("vec", vec![t]),
                            _ => tagged("unknownTy", vec![string(n(t))]),
                        },
                        ("Option", [a]) => match ty_arg(a) {
                            Some(t) => tagged("option", vec![t]),
                            _ => tagged("unknownTy", vec![string(n(t))]),
                        },
                        _ => tagged("unknownTy", vec![string(n(t))]),
                    }
                }
                _ => tagged("unknownTy", vec![string(n(t))]),
            }
        }
        _ => tagged("unknownTy", vec![string(n(t))]),
    }
}

#[derive(Default)]
pub struct Facts {
    structs: Vec<Sexp>,
    consts: Vec<Sexp>,
    overrides: Option<(Vec<Sexp>, Option<Sexp>)>, // fields, impl facts
    groups: Vec<Sexp>,
    bind_module: Vec<Sexp>,
    set_bind_groups: Option<Sexp>,
    vertex: Vec<Sexp>,
    entry_consts: Vec<Sexp>,
    vertex_entries: Vec<Sexp>,
    fragment_entries: Vec<Sexp>,
    compute: Vec<Sexp>,
    source: Option<Sexp>,
    boiler: Vec<Sexp>,
    push_stages: Option<Sexp>,
    pipeline_layout: Option<Sexp>,
    order: Vec<Sexp>,
    unknown: Vec<Sexp>,
}

impl Facts {
    fn unk(&mut self, what: &str, item: &impl ToTokens) {
        let mut s = n(item);
        if s.len() > 400 {
            let mut cut = 400;
            while !s.is_char_boundary(cut) {
                cut -= 1;
            }
            s.truncate(cut);
        }
        self.unknown.push(list(vec![string(what), string(s)]));
    }
    fn boil(&mut self, key: &str, item: &impl ToTokens) {
        self.boiler.push(list(vec![string(key), string(n(item))]));
    }
}

fn is_pub(v: &syn::Visibility) -> bool {
    matches!(v, syn::Visibility::Public(_))
}

fn derive_list(attrs: &[syn::Attribute]) -> Option<(bool, Vec<String>, Vec<String>)> {
    // returns (repr_c, derives, other attrs normalized)
    let mut repr_c = false;
    let mut derives = vec![];
    let mut other = vec![];
    for a in attrs {
        if a.path().is_ident("repr") {
            if n(&a.meta) == "repr ( C )" {
                repr_c = true;
            } else {
                other.push(n(a));
            }
        } else if a.path().is_ident("derive") {
            let paths: Punctuated<syn::Path, Token![,]> =
                a.parse_args_with(Punctuated::parse_terminated).ok()?;
            for p in paths {
                derives.push(path_str(&p));
            }
        } else {
            other.push(n(a));
        }
    }
    Some((repr_c, derives, other))
}

/// Parse the argument tokens of `assert!(lhs == N, "msg")`.
fn parse_assert(f: &mut Facts, c: &syn::ItemConst) -> Option<Sexp> {
    if n(&c.ty) != "( )" {
        return None;
    }
    let mac = match &*c.expr {
        Expr::Macro(m) if m.mac.path.is_ident("assert") => &m.mac,
        _ => return None,
    };
    let args: Punctuated<Expr, Token![,]> = mac.parse_body_with(Punctuated::parse_terminated).ok()?;
    if args.len() != 2 {
        return None;
    }
    let msg = lit_str(&args[1])?;
    let (lhs, rhs) = match &args[0] {
        Expr::Binary(b) if matches!(b.op, syn::BinOp::Eq(_)) => (&*b.left, &*b.right),
        _ => return None,
    };
    let (val, suf) = lit_u128(rhs)?;
    if !suf.is_empty() {
        return None;
    }
    match lhs {
        // std::mem::size_of::<Name>()
        Expr::Call(call) if call.args.is_empty() => {
            if let Expr::Path(p) = &*call.func {
                let segs: Vec<_> = p.path.segments.iter().collect();
                if segs.len() == 3
                    && segs[0].ident == "std"
                    && segs[1].ident == "mem"
                    && segs[2].ident == "size_of"
                {
                    if let PathArguments::AngleBracketed(ab) = &segs[2].arguments {
                        if ab.args.len() == 1 {
                            if let GenericArgument::Type(Type::Path(tp)) = &ab.args[0] {
                                return Some(tagged(
                                    "size",
                                    vec![string(path_str(&tp.path)), nat(val), string(msg)],
                                ));
                            }
                        }
                    }
                }
            }
            let _ = f;
            None
        }
        // std::mem::offset_of!(Name, field)
        Expr::Macro(m) if n(&m.mac.path) == "std :: mem :: offset_of" => {
            let a: Punctuated<syn::Ident, Token![,]> = m
                .mac
                .parse_body_with(Punctuated::parse_terminated)
                .ok()?;
            if a.len() != 2 {
                return None;
            }
            Some(tagged(
                "offset",
                vec![
                    string(a[0].to_string()),
                    string(a[1].to_string()),
                    nat(val),
                    string(msg),
                ],
            ))
        }
        _ => None,
    }
}

/// Literal value of a user constant: evaluates `-` and the literal with Rust's own parsers.
fn const_value(decl_ty: &str, e: &Expr) -> Option<Sexp> {
    let (neg, e) = match e {
        Expr::Unary(u) if matches!(u.op, UnOp::Neg(_)) => (true, &*u.expr),
        e => (false, e),
    };
    match e {
        Expr::Lit(ExprLit { lit, .. }) => match lit {
            Lit::Bool(b) if !neg => Some(tagged("bval", vec![boolean(b.value)])),
            // `quote!` prints `11.0f32` as `11f32`, which lexes as an integer literal with a float suffix
            Lit::Int(i) if i.suffix() == "f32" || i.suffix() == "f64" => {
                let digits = i.base10_digits();
                let bits: u64 = if i.suffix() == "f32" {
                    let v: f32 = digits.parse().ok()?;
                    (if neg { -v } else { v }).to_bits() as u64
                } else {
                    let v: f64 = digits.parse().ok()?;
                    (if neg { -v } else { v }).to_bits()
                };
                Some(tagged("fval", vec![nat(bits), string(i.suffix())]))
            }
            Lit::Int(i) => {
                let v: i128 = i.base10_parse::<i128>().ok()?;
                let v = if neg { -v } else { v };
                Some(tagged("ival", vec![int(v), string(i.suffix())]))
            }
            Lit::Float(fl) => {
                let suffix = fl.suffix();
                let ty = if suffix.is_empty() { decl_ty } else { suffix };
                let digits = fl.base10_digits();
                let bits: u64 = match ty {
                    "f32" => {
                        let v: f32 = digits.parse().ok()?;
                        (if neg { -v } else { v }).to_bits() as u64
                    }
                    "f64" => {
                        let v: f64 = digits.parse().ok()?;
                        (if neg { -v } else { v }).to_bits()
                    }
                    _ => return None,
                };
                Some(tagged("fval", vec![nat(bits), string(suffix)]))
            }
            _ => None,
        },
        _ => None,
    }
}

fn struct_lit_fields(e: &Expr, expect_path: &str) -> Option<Vec<(String, Expr)>> {
    match e {
        Expr::Struct(s) if s.qself.is_none() && s.rest.is_none() && path_str(&s.path) == expect_path => {
            let mut v = vec![];
            for f in &s.fields {
                let name = match &f.member {
                    syn::Member::Named(i) => i.to_string(),
                    _ => return None,
                };
                v.push((name, f.expr.clone()));
            }
            Some(v)
        }
        Expr::Reference(r) if r.mutability.is_none() => struct_lit_fields(&r.expr, expect_path),
        _ => None,
    }
}

fn get<'a>(fs: &'a [(String, Expr)], k: &str) -> Option<&'a Expr> {
    fs.iter().find(|(n, _)| n == k).map(|(_, e)| e)
}

fn names_are(fs: &[(String, Expr)], names: &[&str]) -> bool {
    fs.len() == names.len() && fs.iter().zip(names).all(|((a, _), b)| a == b)
}

fn array_elems(e: &Expr) -> Option<Vec<Expr>> {
    match e {
        Expr::Reference(r) if r.mutability.is_none() => array_elems(&r.expr),
        Expr::Array(a) => Some(a.elems.iter().cloned().collect()),
        _ => None,
    }
}

fn last_seg(p: &str) -> &str {
    p.rsplit("::").next().unwrap()
}

fn binding_type(e: &Expr) -> Option<Sexp> {
    match e {
        Expr::Struct(_) => {
            if let Some(fs) = struct_lit_fields(e, "wgpu::BindingType::Buffer") {
                if !names_are(&fs, &["ty", "has_dynamic_offset", "min_binding_size"]) {
                    return None;
                }
                let ty = get(&fs, "ty")?;
                let bty = if let Some(p) = expr_path(ty) {
                    if p == "wgpu::BufferBindingType::Uniform" {
                        atom("uniform")
                    } else {
                        return None;
                    }
                } else {
                    let sf = struct_lit_fields(ty, "wgpu::BufferBindingType::Storage")?;
                    if !names_are(&sf, &["read_only"]) {
                        return None;
                    }
                    tagged("storage", vec![boolean(lit_bool(&sf[0].1)?)])
                };
                let dynoff = lit_bool(get(&fs, "has_dynamic_offset")?)?;
                let mbs = expr_path(get(&fs, "min_binding_size")?)?;
                if mbs != "None" {
                    return None;
                }
                return Some(tagged("buffer", vec![bty, boolean(dynoff)]));
            }
            if let Some(fs) = struct_lit_fields(e, "wgpu::BindingType::Texture") {
                if !names_are(&fs, &["sample_type", "view_dimension", "multisampled"]) {
                    return None;
                }
                let st = get(&fs, "sample_type")?;
                let sample = if let Some(p) = expr_path(st) {
                    match p.as_str() {
                        "wgpu::TextureSampleType::Sint" => atom("sint"),
                        "wgpu::TextureSampleType::Uint" => atom("uint"),
                        "wgpu::TextureSampleType::Depth" => atom("depth"),
                        _ => return None,
                    }
                } else {
                    let sf = struct_lit_fields(st, "wgpu::TextureSampleType::Float")?;
                    if !names_are(&sf, &["filterable"]) {
                        return None;
                    }
                    tagged("float", vec![boolean(lit_bool(&sf[0].1)?)])
                };
                let vd = expr_path(get(&fs, "view_dimension")?)?;
                let vd = vd.strip_prefix("wgpu::TextureViewDimension::")?.to_string();
                let multi = lit_bool(get(&fs, "multisampled")?)?;
                return Some(tagged("texture", vec![sample, atom(vd), boolean(multi)]));
            }
            if let Some(fs) = struct_lit_fields(e, "wgpu::BindingType::StorageTexture") {
                if !names_are(&fs, &["access", "format", "view_dimension"]) {
                    return None;
                }
                let acc = expr_path(get(&fs, "access")?)?;
                let acc = acc.strip_prefix("wgpu::StorageTextureAccess::")?.to_string();
                let fmt = expr_path(get(&fs, "format")?)?;
                let fmt = fmt.strip_prefix("wgpu::TextureFormat::")?.to_string();
                let vd = expr_path(get(&fs, "view_dimension")?)?;
                let vd = vd.strip_prefix("wgpu::TextureViewDimension::")?.to_string();
                return Some(tagged("storageTexture", vec![atom(acc), string(fmt), atom(vd)]));
            }
            None
        }
        Expr::Call(c) => {
            if expr_path(&c.func)? == "wgpu::BindingType::Sampler" && c.args.len() == 1 {
                let p = expr_path(&c.args[0])?;
                let k = p.strip_prefix("wgpu::SamplerBindingType::")?.to_string();
                return Some(tagged("sampler", vec![atom(k)]));
            }
            None
        }
        _ => None,
    }
}

fn suffix_index(name: &str, prefix: &str) -> Option<u128> {
    let rest = name.strip_prefix(prefix)?;
    if rest.is_empty() || !rest.chars().all(|c| c.is_ascii_digit()) || (rest.len() > 1 && rest.starts_with('0')) {
        return None;
    }
    rest.parse().ok()
}

struct GroupAcc {
    no: u128,
    tuple_struct: bool,
    layout_fields: Option<Vec<Sexp>>,
    descriptor: Option<Sexp>,
    imp: Option<Sexp>,
}

fn fn_sig_norm(sig: &syn::Signature) -> String {
    n(sig)
}

fn bind_groups_mod(f: &mut Facts, m: &syn::ItemMod) {
    let items = match &m.content {
        Some((_, items)) => items,
        None => {
            f.unk("bind_groups:nocontent", m);
            return;
        }
    };
    if !is_pub(&m.vis) || !m.attrs.is_empty() {
        f.unk("bind_groups:vis/attrs", &m.ident);
    }
    let mut groups: Vec<GroupAcc> = vec![];
    fn find(groups: &mut Vec<GroupAcc>, no: u128) -> &mut GroupAcc {
        if let Some(i) = groups.iter().position(|g| g.no == no) {
            &mut groups[i]
        } else {
            groups.push(GroupAcc {
                no,
                tuple_struct: false,
                layout_fields: None,
                descriptor: None,
                imp: None,
            });
            groups.last_mut().unwrap()
        }
    }
    for it in items {
        match it {
            Item::Struct(s) => {
                let name = s.ident.to_string();
                if let Some(no) = suffix_index(&name, "BindGroupLayout") {
                    // #[derive(Debug)] pub struct BindGroupLayoutN<'a> { pub name: kind, ... }
                    let ok_hdr = is_pub(&s.vis)
                        && derive_list(&s.attrs) == Some((false, vec!["Debug".into()], vec![]))
                        && n(&s.generics) == "< 'a >";
                    let mut fields = vec![];
                    let mut ok = ok_hdr;
                    match &s.fields {
                        Fields::Named(nf) => {
                            for fd in &nf.named {
                                let kind = match n(&fd.ty).as_str() {
                                    "wgpu :: BufferBinding < 'a >" => "buffer",
                                    "& 'a wgpu :: TextureView" => "texture",
                                    "& 'a wgpu :: Sampler" => "sampler",
                                    _ => {
                                        ok = false;
                                        "unknown"
                                    }
                                };
                                if !is_pub(&fd.vis) || !fd.attrs.is_empty() {
                                    ok = false;
                                }
                                fields.push(tagged(
                                    "lf",
                                    vec![string(fd.ident.as_ref().unwrap().to_string()), atom(kind)],
                                ));
                            }
                        }
                        _ => ok = false,
                    }
                    if !ok {
                        f.unk("bind_groups:layout-struct", s);
                    }
                    let g = find(&mut groups, no);
                    if g.layout_fields.is_some() {
                        f.unk("bind_groups:dup-layout-struct", &s.ident);
                    }
                    g.layout_fields = Some(fields);
                } else if let Some(no) = suffix_index(&name, "BindGroup") {
                    let expect = format!("# [ derive ( Debug ) ] pub struct BindGroup{no} ( wgpu :: BindGroup ) ;");
                    if n(s) != expect {
                        f.unk("bind_groups:group-struct", s);
                    }
                    let g = find(&mut groups, no);
                    if g.tuple_struct {
                        f.unk("bind_groups:dup-group-struct", &s.ident);
                    }
                    g.tuple_struct = true;
                } else if name == "BindGroups" {
                    // #[derive(Debug, Copy, Clone)] pub struct BindGroups<'a> { pub bind_groupN: &'a BindGroupN, ... }
                    let mut ok = is_pub(&s.vis)
                        && derive_list(&s.attrs)
                            == Some((false, vec!["Debug".into(), "Copy".into(), "Clone".into()], vec![]))
                        && n(&s.generics) == "< 'a >";
                    let mut fields = vec![];
                    if let Fields::Named(nf) = &s.fields {
                        for fd in &nf.named {
                            let fname = fd.ident.as_ref().unwrap().to_string();
                            let tyn = n(&fd.ty);
                            let tyno = tyn
                                .strip_prefix("& 'a ")
                                .and_then(|t| suffix_index(t, "BindGroup"));
                            match (suffix_index(&fname, "bind_group"), tyno) {
                                (Some(a), Some(b)) if is_pub(&fd.vis) => {
                                    fields.push(list(vec![nat(a), nat(b)]))
                                }
                                _ => ok = false,
                            }
                        }
                    } else {
                        ok = false;
                    }
                    if !ok {
                        f.unk("bind_groups:BindGroups-struct", s);
                    }
                    f.bind_module.push(tagged("bindGroupsFields", fields));
                } else {
                    f.unk("bind_groups:struct", s);
                }
            }
            Item::Const(c) => {
                let name = c.ident.to_string();
                if let Some(no) = suffix_index(&name, "LAYOUT_DESCRIPTOR") {
                    let mut ok = matches!(c.vis, syn::Visibility::Inherited)
                        && n(&c.ty) == "wgpu :: BindGroupLayoutDescriptor";
                    let mut label = String::new();
                    let mut entries = vec![];
                    if let Some(fs) = struct_lit_fields(&c.expr, "wgpu::BindGroupLayoutDescriptor") {
                        if !names_are(&fs, &["label", "entries"]) {
                            ok = false;
                        }
                        match get(&fs, "label") {
                            Some(Expr::Call(call))
                                if expr_path(&call.func).as_deref() == Some("Some")
                                    && call.args.len() == 1 =>
                            {
                                match lit_str(&call.args[0]) {
                                    Some(s) => label = s,
                                    None => ok = false,
                                }
                            }
                            _ => ok = false,
                        }
                        match get(&fs, "entries").and_then(array_elems) {
                            Some(elems) => {
                                for e in elems {
                                    let ent = (|| {
                                        let ef = struct_lit_fields(&e, "wgpu::BindGroupLayoutEntry")?;
                                        if !names_are(&ef, &["binding", "visibility", "ty", "count"]) {
                                            return None;
                                        }
                                        let (b, suf) = lit_u128(get(&ef, "binding")?)?;
                                        if !suf.is_empty() {
                                            return None;
                                        }
                                        let st = eval_stages(get(&ef, "visibility")?)?;
                                        let ty = binding_type(get(&ef, "ty")?)?;
                                        if expr_path(get(&ef, "count")?)? != "None" {
                                            return None;
                                        }
                                        Some(tagged("entry", vec![nat(b), stages_sexp(st), ty]))
                                    })();
                                    match ent {
                                        Some(x) => entries.push(x),
                                        None => {
                                            ok = false;
                                            entries.push(tagged("badEntry", vec![string(n(&e))]));
                                        }
                                    }
                                }
                            }
                            None => ok = false,
                        }
                    } else {
                        ok = false;
                    }
                    if !ok {
                        f.unk("bind_groups:descriptor", c);
                    }
                    let g = find(&mut groups, no);
                    if g.descriptor.is_some() {
                        f.unk("bind_groups:dup-descriptor", &c.ident);
                    }
                    g.descriptor = Some(tagged("descriptor", vec![string(label), list(entries)]));
                } else {
                    f.unk("bind_groups:const", c);
                }
            }
            Item::Impl(im) => {
                let self_ty = n(&im.self_ty);
                if im.trait_.is_none() {
                    if let Some(no) = suffix_index(&self_ty, "BindGroup") {
                        let fact = bind_group_impl(f, im, no);
                        let g = find(&mut groups, no);
                        if g.imp.is_some() {
                            f.unk("bind_groups:dup-impl", &im.self_ty);
                        }
                        g.imp = Some(fact);
                    } else if self_ty == "BindGroups < '_ >" {
                        // pub fn set<P: SetBindGroup>(&self, pass: &mut P) { self.bind_groupN.set(pass); ... }
                        let mut ok = im.items.len() == 1 && n(&im.generics).is_empty();
                        let mut calls = vec![];
                        if let Some(ImplItem::Fn(func)) = im.items.first() {
                            if fn_sig_norm(&func.sig)
                                != "fn set < P : SetBindGroup > ( & self , pass : & mut P )"
                                || !is_pub(&func.vis)
                            {
                                ok = false;
                            }
                            for st in &func.block.stmts {
                                let s = n(st);
                                // self . bind_groupN . set ( pass ) ;
                                let no = s
                                    .strip_prefix("self . ")
                                    .and_then(|r| r.strip_suffix(" . set ( pass ) ;"))
                                    .and_then(|r| suffix_index(r, "bind_group"));
                                match no {
                                    Some(k) => calls.push(nat(k)),
                                    None => ok = false,
                                }
                            }
                        } else {
                            ok = false;
                        }
                        if !ok {
                            f.unk("bind_groups:BindGroups-impl", im);
                        }
                        f.bind_module.push(tagged("bindGroupsSet", calls));
                    } else {
                        f.unk("bind_groups:impl", im);
                    }
                } else {
                    // impl SetBindGroup for wgpu::X<'_> { fn set_bind_group(&mut self, index, bind_group, offsets) { self.set_bind_group(index, bind_group, offsets); } }
                    let tr = n(&im.trait_.as_ref().unwrap().1);
                    let mut ok = tr == "SetBindGroup" && im.items.len() == 1;
                    let mut fact = vec![string(self_ty.clone())];
                    if let Some(ImplItem::Fn(func)) = im.items.first() {
                        if fn_sig_norm(&func.sig) != "fn set_bind_group ( & mut self , index : u32 , bind_group : & wgpu :: BindGroup , offsets : & [ wgpu :: DynamicOffset ] )"
                        {
                            ok = false;
                        }
                        if func.block.stmts.len() == 1 {
                            match &func.block.stmts[0] {
                                Stmt::Expr(Expr::MethodCall(mc), _)
                                    if n(&mc.receiver) == "self" && mc.method == "set_bind_group" =>
                                {
                                    for a in &mc.args {
                                        fact.push(string(n(a)));
                                    }
                                }
                                _ => ok = false,
                            }
                        } else {
                            ok = false;
                        }
                    } else {
                        ok = false;
                    }
                    if !ok {
                        f.unk("bind_groups:trait-impl", im);
                    }
                    f.bind_module.push(tagged("passImpl", fact));
                }
            }
            Item::Trait(t) => {
                f.bind_module
                    .push(tagged("trait", vec![string(n(t))]));
            }
            other => f.unk("bind_groups:item", other),
        }
    }
    for g in groups {
        if !g.tuple_struct {
            f.unknown.push(list(vec![
                string("bind_groups:missing-group-struct"),
                nat(g.no),
            ]));
        }
        f.groups.push(tagged(
            "group",
            vec![
                nat(g.no),
                tagged("layoutFields", g.layout_fields.unwrap_or_else(|| vec![atom("missing")])),
                g.descriptor.unwrap_or_else(|| tagged("descriptor", vec![atom("missing")])),
                g.imp.unwrap_or_else(|| tagged("impl", vec![atom("missing")])),
            ],
        ));
    }
}

fn bind_group_impl(f: &mut Facts, im: &syn::ItemImpl, no: u128) -> Sexp {
    let mut layout_fn = atom("missing");
    let mut from_bindings = atom("missing");
    let mut set = atom("missing");
    for it in &im.items {
        match it {
            ImplItem::Fn(func) if func.sig.ident == "get_bind_group_layout" => {
                let sig_ok = fn_sig_norm(&func.sig)
                    == "fn get_bind_group_layout ( device : & wgpu :: Device ) -> wgpu :: BindGroupLayout"
                    && is_pub(&func.vis);
                let body = n(&func.block);
                let d = body
                    .strip_prefix("{ device . create_bind_group_layout ( & ")
                    .and_then(|r| r.strip_suffix(" ) }"))
                    .and_then(|r| suffix_index(r, "LAYOUT_DESCRIPTOR"));
                match (sig_ok, d) {
                    (true, Some(k)) => layout_fn = tagged("layoutFn", vec![nat(k)]),
                    _ => f.unk("bind_group_impl:get_bind_group_layout", func),
                }
            }
            ImplItem::Fn(func) if func.sig.ident == "from_bindings" => {
                let r = (|| {
                    if !is_pub(&func.vis) {
                        return None;
                    }
                    // signature: (device: &wgpu::Device, bindings: BindGroupLayoutK) -> Self
                    let sig = fn_sig_norm(&func.sig);
                    let k = sig
                        .strip_prefix("fn from_bindings ( device : & wgpu :: Device , bindings : ")
                        .and_then(|r| r.strip_suffix(" ) -> Self"))
                        .and_then(|r| suffix_index(r, "BindGroupLayout"))?;
                    let stmts = &func.block.stmts;
                    if stmts.len() != 3 {
                        return None;
                    }
                    // let bind_group_layout = device.create_bind_group_layout(&LAYOUT_DESCRIPTORj);
                    let s0 = n(&stmts[0]);
                    let j = s0
                        .strip_prefix("let bind_group_layout = device . create_bind_group_layout ( & ")
                        .and_then(|r| r.strip_suffix(" ) ;"))
                        .and_then(|r| suffix_index(r, "LAYOUT_DESCRIPTOR"))?;
                    // let bind_group = device.create_bind_group(&wgpu::BindGroupDescriptor { layout: &bind_group_layout, entries: &[..], label: Some("..") });
                    let init = match &stmts[1] {
                        Stmt::Local(l) if n(&l.pat) == "bind_group" => &l.init.as_ref()?.expr,
                        _ => return None,
                    };
                    let mc = match &**init {
                        Expr::MethodCall(mc)
                            if n(&mc.receiver) == "device"
                                && mc.method == "create_bind_group"
                                && mc.args.len() == 1 =>
                        {
                            mc
                        }
                        _ => return None,
                    };
                    let fs = struct_lit_fields(&mc.args[0], "wgpu::BindGroupDescriptor")?;
                    if !names_are(&fs, &["layout", "entries", "label"]) {
                        return None;
                    }
                    if n(get(&fs, "layout")?) != "& bind_group_layout" {
                        return None;
                    }
                    let label = match get(&fs, "label")? {
                        Expr::Call(c) if expr_path(&c.func)? == "Some" && c.args.len() == 1 => {
                            lit_str(&c.args[0])?
                        }
                        _ => return None,
                    };
                    let mut ents = vec![];
                    for e in array_elems(get(&fs, "entries")?)? {
                        let ef = struct_lit_fields(&e, "wgpu::BindGroupEntry")?;
                        if !names_are(&ef, &["binding", "resource"]) {
                            return None;
                        }
                        let (b, suf) = lit_u128(get(&ef, "binding")?)?;
                        if !suf.is_empty() {
                            return None;
                        }
                        let (ctor, field) = match get(&ef, "resource")? {
                            Expr::Call(c) if c.args.len() == 1 => {
                                let p = expr_path(&c.func)?;
                                let ctor = p.strip_prefix("wgpu::BindingResource::")?.to_string();
                                let field = match &c.args[0] {
                                    Expr::Field(fe) if n(&fe.base) == "bindings" => match &fe.member {
                                        syn::Member::Named(i) => i.to_string(),
                                        _ => return None,
                                    },
                                    _ => return None,
                                };
                                (ctor, field)
                            }
                            _ => return None,
                        };
                        ents.push(tagged("be", vec![nat(b), atom(ctor), string(field)]));
                    }
                    if n(&stmts[2]) != "Self ( bind_group )" {
                        return None;
                    }
                    Some(tagged(
                        "fromBindings",
                        vec![nat(k), nat(j), string(label), list(ents)],
                    ))
                })();
                match r {
                    Some(x) => from_bindings = x,
                    None => f.unk("bind_group_impl:from_bindings", func),
                }
            }
            ImplItem::Fn(func) if func.sig.ident == "set" => {
                let sig_ok = fn_sig_norm(&func.sig)
                    == "fn set < P : SetBindGroup > ( & self , pass : & mut P )"
                    && is_pub(&func.vis);
                let body = n(&func.block);
                let idx = body
                    .strip_prefix("{ pass . set_bind_group ( ")
                    .and_then(|r| r.strip_suffix(" , & self . 0 , & [ ] ) ; }"))
                    .and_then(|r| r.parse::<u128>().ok());
                match (sig_ok, idx) {
                    (true, Some(k)) => set = tagged("set", vec![nat(k)]),
                    _ => f.unk("bind_group_impl:set", func),
                }
            }
            other => f.unk("bind_group_impl:item", other),
        }
    }
    let _ = no;
    tagged("impl", vec![layout_fn, from_bindings, set])
}

fn user_struct(f: &mut Facts, s: &syn::ItemStruct) {
    let (repr_c, derives, other) = match derive_list(&s.attrs) {
        Some(x) => x,
        None => {
            f.unk("struct:attrs", s);
            return;
        }
    };
    let mut ok = is_pub(&s.vis) && other.is_empty() && n(&s.generics).is_empty();
    let mut fields = vec![];
    match &s.fields {
        Fields::Named(nf) => {
            for fd in &nf.named {
                let mut runtime = false;
                for a in &fd.attrs {
                    if n(a) == "# [ size ( runtime ) ]" {
                        runtime = true;
                    } else {
                        ok = false;
                    }
                }
                if !is_pub(&fd.vis) {
                    ok = false;
                }
                fields.push(tagged(
                    "f",
                    vec![
                        string(fd.ident.as_ref().unwrap().to_string()),
                        rust_ty(&fd.ty),
                        boolean(runtime),
                    ],
                ));
            }
        }
        _ => ok = false,
    }
    if !ok {
        f.unk("struct:shape", s);
    }
    f.structs.push(tagged(
        "struct",
        vec![
            string(s.ident.to_string()),
            boolean(repr_c),
            tagged("derives", derives.into_iter().map(string).collect()),
            tagged("fields", fields),
            tagged("asserts", vec![]),
        ],
    ));
}

fn attach_assert(f: &mut Facts, a: Sexp, c: &syn::ItemConst) {
    if let Some(Sexp::List(v)) = f.structs.last_mut() {
        if let Some(Sexp::List(asserts)) = v.last_mut() {
            asserts.push(a);
            return;
        }
    }
    f.unk("assert:no-struct", c);
}

fn override_struct(f: &mut Facts, s: &syn::ItemStruct) {
    let mut ok = is_pub(&s.vis) && s.attrs.is_empty() && n(&s.generics).is_empty();
    let mut fields = vec![];
    if let Fields::Named(nf) = &s.fields {
        for fd in &nf.named {
            if !is_pub(&fd.vis) || !fd.attrs.is_empty() {
                ok = false;
            }
            fields.push(tagged(
                "of",
                vec![string(fd.ident.as_ref().unwrap().to_string()), rust_ty(&fd.ty)],
            ));
        }
    } else {
        ok = false;
    }
    if !ok {
        f.unk("overrides:struct", s);
    }
    if f.overrides.is_some() {
        f.unk("overrides:dup-struct", &s.ident);
    }
    f.overrides = Some((fields, None));
}

/// value conversion expression -> (field, conv)
fn override_value(e: &Expr, optional: bool) -> Option<(Option<String>, &'static str)> {
    // required: `self.name as f64` | `if self.name { 1.0 } else { 0.0 }`
    // optional: `value as f64` | `if value { 1.0 } else { 0.0 }`
    let s = n(e);
    if optional {
        if s == "value as f64" {
            return Some((None, "cast"));
        }
        if s == "if value { 1.0 } else { 0.0 }" {
            return Some((None, "bool"));
        }
        None
    } else {
        if let Some(name) = s.strip_prefix("self . ").and_then(|r| r.strip_suffix(" as f64")) {
            if !name.contains(' ') {
                return Some((Some(name.to_string()), "cast"));
            }
        }
        if let Some(name) = s
            .strip_prefix("if self . ")
            .and_then(|r| r.strip_suffix(" { 1.0 } else { 0.0 }"))
        {
            if !name.contains(' ') {
                return Some((Some(name.to_string()), "bool"));
            }
        }
        None
    }
}

fn key_of(e: &Expr) -> Option<String> {
    // "key".to_owned()
    match e {
        Expr::MethodCall(mc) if mc.method == "to_owned" && mc.args.is_empty() => lit_str(&mc.receiver),
        _ => None,
    }
}

fn override_impl(f: &mut Facts, im: &syn::ItemImpl) {
    let r = (|| {
        if im.items.len() != 1 || !n(&im.generics).is_empty() {
            return None;
        }
        let func = match &im.items[0] {
            ImplItem::Fn(func) => func,
            _ => return None,
        };
        if fn_sig_norm(&func.sig)
            != "fn constants ( & self ) -> std :: collections :: HashMap < String , f64 >"
            || !is_pub(&func.vis)
        {
            return None;
        }
        let stmts = &func.block.stmts;
        if stmts.is_empty() {
            return None;
        }
        // let [mut] entries = std::collections::HashMap::from([ (key.to_owned(), value), ... ]);
        let (mutable, init) = match &stmts[0] {
            Stmt::Local(l) => {
                let m = match &l.pat {
                    Pat::Ident(pi) if pi.ident == "entries" && pi.by_ref.is_none() => {
                        pi.mutability.is_some()
                    }
                    _ => return None,
                };
                (m, &l.init.as_ref()?.expr)
            }
            _ => return None,
        };
        let call = match &**init {
            Expr::Call(c)
                if expr_path(&c.func)? == "std::collections::HashMap::from" && c.args.len() == 1 =>
            {
                c
            }
            _ => return None,
        };
        let mut required = vec![];
        for e in array_elems(&call.args[0])? {
            match e {
                Expr::Tuple(t) if t.elems.len() == 2 => {
                    let key = key_of(&t.elems[0])?;
                    let (field, conv) = override_value(&t.elems[1], false)?;
                    required.push(tagged("re", vec![string(key), string(field?), atom(conv)]));
                }
                _ => return None,
            }
        }
        let mut optional = vec![];
        for st in &stmts[1..stmts.len() - 1] {
            // if let Some(value) = self.name { entries.insert("key".to_owned(), conv); }
            let e = match st {
                Stmt::Expr(e, _) => e,
                _ => return None,
            };
            let ife = match e {
                Expr::If(i) if i.else_branch.is_none() => i,
                _ => return None,
            };
            let cond = n(&ife.cond);
            let field = cond.strip_prefix("let Some ( value ) = self . ")?.to_string();
            if field.contains(' ') || ife.then_branch.stmts.len() != 1 {
                return None;
            }
            let mc = match &ife.then_branch.stmts[0] {
                Stmt::Expr(Expr::MethodCall(mc), Some(_))
                    if n(&mc.receiver) == "entries" && mc.method == "insert" && mc.args.len() == 2 =>
                {
                    mc
                }
                _ => return None,
            };
            let key = key_of(&mc.args[0])?;
            let (_, conv) = override_value(&mc.args[1], true)?;
            optional.push(tagged("oe", vec![string(key), string(field), atom(conv)]));
        }
        if stmts.len() < 2 || n(stmts.last()?) != "entries" {
            return None;
        }
        Some(list(vec![
            tagged("required", required),
            tagged("optional", optional),
            tagged("mutable", vec![boolean(mutable)]),
        ]))
    })();
    match (r, f.overrides.as_mut()) {
        (Some(x), Some(o)) if o.1.is_none() => o.1 = Some(x),
        _ => f.unk("overrides:impl", im),
    }
}

fn vertex_impl(f: &mut Facts, im: &syn::ItemImpl) {
    let name = n(&im.self_ty);
    let r = (|| {
        if im.items.len() != 2 || !n(&im.generics).is_empty() || name.contains(' ') {
            return None;
        }
        let c = match &im.items[0] {
            ImplItem::Const(c) if c.ident == "VERTEX_ATTRIBUTES" && is_pub(&c.vis) => c,
            _ => return None,
        };
        let count = match &c.ty {
            Type::Array(a) if n(&a.elem) == "wgpu :: VertexAttribute" => {
                let (k, suf) = lit_u128(&a.len)?;
                if !suf.is_empty() {
                    return None;
                }
                k
            }
            _ => return None,
        };
        let mut attrs = vec![];
        for e in array_elems(&c.expr)? {
            let fs = struct_lit_fields(&e, "wgpu::VertexAttribute")?;
            if !names_are(&fs, &["format", "offset", "shader_location"]) {
                return None;
            }
            let fmt = expr_path(get(&fs, "format")?)?;
            let fmt = fmt.strip_prefix("wgpu::VertexFormat::")?.to_string();
            // std::mem::offset_of!(Name, field) as u64
            let off = match get(&fs, "offset")? {
                Expr::Cast(c) if n(&c.ty) == "u64" => match &*c.expr {
                    Expr::Macro(m) if n(&m.mac.path) == "std :: mem :: offset_of" => {
                        let a: Punctuated<syn::Ident, Token![,]> =
                            m.mac.parse_body_with(Punctuated::parse_terminated).ok()?;
                        if a.len() != 2 {
                            return None;
                        }
                        (a[0].to_string(), a[1].to_string())
                    }
                    _ => return None,
                },
                _ => return None,
            };
            let (loc, suf) = lit_u128(get(&fs, "shader_location")?)?;
            if !suf.is_empty() {
                return None;
            }
            attrs.push(tagged(
                "a",
                vec![string(fmt), string(off.0), string(off.1), nat(loc)],
            ));
        }
        let func = match &im.items[1] {
            ImplItem::Fn(func) if is_pub(&func.vis) => func,
            _ => return None,
        };
        if fn_sig_norm(&func.sig) != "const fn vertex_buffer_layout ( step_mode : wgpu :: VertexStepMode ) -> wgpu :: VertexBufferLayout < 'static >" {
            return None;
        }
        if func.block.stmts.len() != 1 {
            return None;
        }
        let e = match &func.block.stmts[0] {
            Stmt::Expr(e, None) => e,
            _ => return None,
        };
        let fs = struct_lit_fields(e, "wgpu::VertexBufferLayout")?;
        if !names_are(&fs, &["array_stride", "step_mode", "attributes"]) {
            return None;
        }
        let stride = n(get(&fs, "array_stride")?);
        let stride_of = stride
            .strip_prefix("std :: mem :: size_of :: < ")
            .and_then(|r| r.strip_suffix(" > ( ) as u64"))?
            .to_string();
        if n(get(&fs, "step_mode")?) != "step_mode" {
            return None;
        }
        let at = n(get(&fs, "attributes")?);
        let attrs_of = at
            .strip_prefix("& ")
            .and_then(|r| r.strip_suffix(" :: VERTEX_ATTRIBUTES"))?
            .to_string();
        Some(tagged(
            "vs",
            vec![
                string(name.clone()),
                nat(count),
                tagged("attrs", attrs),
                string(stride_of),
                string(attrs_of),
            ],
        ))
    })();
    match r {
        Some(x) => f.vertex.push(x),
        None => f.unk("vertex:impl", im),
    }
}

fn fn_params(sig: &syn::Signature) -> Option<Vec<(String, String)>> {
    let mut v = vec![];
    for a in &sig.inputs {
        match a {
            FnArg::Typed(pt) => match &*pt.pat {
                Pat::Ident(pi) if pi.by_ref.is_none() && pi.mutability.is_none() => {
                    v.push((pi.ident.to_string(), n(&pt.ty)))
                }
                _ => return None,
            },
            _ => return None,
        }
    }
    Some(v)
}

fn entry_generic(t: &Type, name: &str) -> Option<u128> {
    // VertexEntry<3>
    match t {
        Type::Path(p) if p.path.segments.len() == 1 && p.path.segments[0].ident == name => {
            match &p.path.segments[0].arguments {
                PathArguments::AngleBracketed(ab) if ab.args.len() == 1 => match &ab.args[0] {
                    GenericArgument::Const(e) => lit_u128(e).filter(|x| x.1.is_empty()).map(|x| x.0),
                    _ => None,
                },
                _ => None,
            }
        }
        _ => None,
    }
}

fn entry_fn(f: &mut Facts, func: &syn::ItemFn) -> bool {
    let ret = match &func.sig.output {
        ReturnType::Type(_, t) => t,
        _ => return false,
    };
    let fname = func.sig.ident.to_string();
    if let Some(nn) = entry_generic(ret, "VertexEntry") {
        let r = (|| {
            if !is_pub(&func.vis) || !n(&func.sig.generics).is_empty() {
                return None;
            }
            let params = fn_params(&func.sig)?;
            if func.block.stmts.len() != 1 {
                return None;
            }
            let e = match &func.block.stmts[0] {
                Stmt::Expr(e, None) => e,
                _ => return None,
            };
            let fs = struct_lit_fields(e, "VertexEntry")?;
            if !names_are(&fs, &["entry_point", "buffers", "constants"]) {
                return None;
            }
            let ep = expr_path(get(&fs, "entry_point")?)?;
            let mut bufs = vec![];
            for b in array_elems(get(&fs, "buffers")?)? {
                match b {
                    Expr::Call(c) if c.args.len() == 1 => {
                        let p = expr_path(&c.func)?;
                        let s = p.strip_suffix("::vertex_buffer_layout")?.to_string();
                        let arg = expr_path(&c.args[0])?;
                        bufs.push(list(vec![string(s), string(arg)]));
                    }
                    _ => return None,
                }
            }
            let constants = match n(get(&fs, "constants")?).as_str() {
                "overrides . constants ( )" => "overrides",
                "Default :: default ( )" => "default",
                _ => return None,
            };
            Some(tagged(
                "ve",
                vec![
                    string(fname.clone()),
                    nat(nn),
                    tagged(
                        "params",
                        params
                            .into_iter()
                            .map(|(a, b)| list(vec![string(a), string(b)]))
                            .collect(),
                    ),
                    string(ep),
                    tagged("buffers", bufs),
                    atom(constants),
                ],
            ))
        })();
        match r {
            Some(x) => f.vertex_entries.push(x),
            None => f.unk("vertex-entry-fn", func),
        }
        return true;
    }
    if let Some(nn) = entry_generic(ret, "FragmentEntry") {
        let r = (|| {
            if !is_pub(&func.vis) || !n(&func.sig.generics).is_empty() {
                return None;
            }
            let params = fn_params(&func.sig)?;
            if func.block.stmts.len() != 1 {
                return None;
            }
            let e = match &func.block.stmts[0] {
                Stmt::Expr(e, None) => e,
                _ => return None,
            };
            let fs = struct_lit_fields(e, "FragmentEntry")?;
            if !names_are(&fs, &["entry_point", "targets", "constants"]) {
                return None;
            }
            let ep = expr_path(get(&fs, "entry_point")?)?;
            if n(get(&fs, "targets")?) != "targets" {
                return None;
            }
            let constants = match n(get(&fs, "constants")?).as_str() {
                "overrides . constants ( )" => "overrides",
                "Default :: default ( )" => "default",
                _ => return None,
            };
            Some(tagged(
                "fe",
                vec![
                    string(fname.clone()),
                    nat(nn),
                    tagged(
                        "params",
                        params
                            .into_iter()
                            .map(|(a, b)| list(vec![string(a), string(b)]))
                            .collect(),
                    ),
                    string(ep),
                    atom(constants),
                ],
            ))
        })();
        match r {
            Some(x) => f.fragment_entries.push(x),
            None => f.unk("fragment-entry-fn", func),
        }
        return true;
    }
    false
}

fn compute_mod(f: &mut Facts, m: &syn::ItemMod) {
    let items = match &m.content {
        Some((_, items)) => items,
        None => {
            f.unk("compute:nocontent", m);
            return;
        }
    };
    if !is_pub(&m.vis) || !m.attrs.is_empty() {
        f.unk("compute:vis/attrs", &m.ident);
    }
    for it in items {
        match it {
            Item::Const(c) if is_pub(&c.vis) && n(&c.ty) == "[ u32 ; 3 ]" => {
                let r = (|| {
                    let el = array_elems(&c.expr)?;
                    if el.len() != 3 {
                        return None;
                    }
                    let mut v = vec![string(c.ident.to_string())];
                    for e in el {
                        let (k, suf) = lit_u128(&e)?;
                        if !suf.is_empty() {
                            return None;
                        }
                        v.push(nat(k));
                    }
                    Some(tagged("wg", v))
                })();
                match r {
                    Some(x) => f.compute.push(x),
                    None => f.unk("compute:wg", c),
                }
            }
            Item::Fn(func) => {
                let r = (|| {
                    if !is_pub(&func.vis) {
                        return None;
                    }
                    let name = func.sig.ident.to_string();
                    if fn_sig_norm(&func.sig)
                        != format!("fn {name} ( device : & wgpu :: Device ) -> wgpu :: ComputePipeline")
                    {
                        return None;
                    }
                    let st = &func.block.stmts;
                    if st.len() != 3
                        || n(&st[0]) != "let module = super :: create_shader_module ( device ) ;"
                        || n(&st[1]) != "let layout = super :: create_pipeline_layout ( device ) ;"
                    {
                        return None;
                    }
                    let mc = match &st[2] {
                        Stmt::Expr(Expr::MethodCall(mc), None)
                            if n(&mc.receiver) == "device"
                                && mc.method == "create_compute_pipeline"
                                && mc.args.len() == 1 =>
                        {
                            mc
                        }
                        _ => return None,
                    };
                    let fs = struct_lit_fields(&mc.args[0], "wgpu::ComputePipelineDescriptor")?;
                    if !names_are(
                        &fs,
                        &["label", "layout", "module", "entry_point", "compilation_options", "cache"],
                    ) {
                        return None;
                    }
                    let some_str = |e: &Expr| match e {
                        Expr::Call(c) if expr_path(&c.func).as_deref() == Some("Some") && c.args.len() == 1 => {
                            lit_str(&c.args[0])
                        }
                        _ => None,
                    };
                    let label = some_str(get(&fs, "label")?)?;
                    let entry = some_str(get(&fs, "entry_point")?)?;
                    if n(get(&fs, "layout")?) != "Some ( & layout )"
                        || n(get(&fs, "module")?) != "& module"
                        || n(get(&fs, "compilation_options")?) != "Default :: default ( )"
                        || n(get(&fs, "cache")?) != "Default :: default ( )"
                    {
                        return None;
                    }
                    Some(tagged("pipeline", vec![string(name), string(label), string(entry)]))
                })();
                match r {
                    Some(x) => f.compute.push(x),
                    None => f.unk("compute:fn", func),
                }
            }
            other => f.unk("compute:item", other),
        }
    }
}

fn set_bind_groups_fn(f: &mut Facts, func: &syn::ItemFn) {
    let r = (|| {
        if !is_pub(&func.vis) || n(&func.sig.generics) != "< P : bind_groups :: SetBindGroup >" {
            return None;
        }
        if n(&func.sig.output) != "" {
            return None;
        }
        let params = fn_params(&func.sig)?;
        if params.first()? != &("pass".to_string(), "& mut P".to_string()) {
            return None;
        }
        let mut ps = vec![];
        for (a, t) in &params[1..] {
            let i = suffix_index(a, "bind_group")?;
            let j = t
                .strip_prefix("& bind_groups :: ")
                .and_then(|r| suffix_index(r, "BindGroup"))?;
            ps.push(list(vec![nat(i), nat(j)]));
        }
        let mut calls = vec![];
        for st in &func.block.stmts {
            let s = n(st);
            let k = s
                .strip_suffix(" . set ( pass ) ;")
                .and_then(|r| suffix_index(r, "bind_group"))?;
            calls.push(nat(k));
        }
        Some(tagged("setBindGroups", vec![tagged("params", ps), tagged("calls", calls)]))
    })();
    match r {
        Some(x) if f.set_bind_groups.is_none() => f.set_bind_groups = Some(x),
        _ => f.unk("set_bind_groups", func),
    }
}

fn pipeline_layout_fn(f: &mut Facts, func: &syn::ItemFn) {
    let r = (|| {
        if !is_pub(&func.vis)
            || fn_sig_norm(&func.sig)
                != "fn create_pipeline_layout ( device : & wgpu :: Device ) -> wgpu :: PipelineLayout"
        {
            return None;
        }
        if func.block.stmts.len() != 1 {
            return None;
        }
        let mc = match &func.block.stmts[0] {
            Stmt::Expr(Expr::MethodCall(mc), None)
                if n(&mc.receiver) == "device"
                    && mc.method == "create_pipeline_layout"
                    && mc.args.len() == 1 =>
            {
                mc
            }
            _ => return None,
        };
        let fs = struct_lit_fields(&mc.args[0], "wgpu::PipelineLayoutDescriptor")?;
        if !names_are(&fs, &["label", "bind_group_layouts", "push_constant_ranges"]) {
            return None;
        }
        if n(get(&fs, "label")?) != "None" {
            return None;
        }
        let mut groups = vec![];
        for e in array_elems(get(&fs, "bind_group_layouts")?)? {
            // &bind_groups::BindGroupN::get_bind_group_layout(device)
            let s = n(&e);
            let k = s
                .strip_prefix("& bind_groups :: ")
                .and_then(|r| r.strip_suffix(" :: get_bind_group_layout ( device )"))
                .and_then(|r| suffix_index(r, "BindGroup"))?;
            groups.push(nat(k));
        }
        let mut ranges = vec![];
        for e in array_elems(get(&fs, "push_constant_ranges")?)? {
            let rf = struct_lit_fields(&e, "wgpu::PushConstantRange")?;
            if !names_are(&rf, &["stages", "range"]) {
                return None;
            }
            let st = expr_path(get(&rf, "stages")?)?;
            let (lo, hi) = match get(&rf, "range")? {
                Expr::Range(r) if matches!(r.limits, syn::RangeLimits::HalfOpen(_)) => {
                    let lo = lit_u128(r.start.as_ref()?)?;
                    let hi = lit_u128(r.end.as_ref()?)?;
                    if !lo.1.is_empty() || !hi.1.is_empty() {
                        return None;
                    }
                    (lo.0, hi.0)
                }
                _ => return None,
            };
            ranges.push(tagged("range", vec![string(st), nat(lo), nat(hi)]));
        }
        Some(tagged(
            "pipelineLayout",
            vec![tagged("groups", groups), tagged("ranges", ranges)],
        ))
    })();
    match r {
        Some(x) if f.pipeline_layout.is_none() => f.pipeline_layout = Some(x),
        _ => f.unk("create_pipeline_layout", func),
    }
}

/// Raw text of the string literal token initialising SOURCE (between `= ` and `;`), from the token stream.
fn source_const(f: &mut Facts, c: &syn::ItemConst) {
    let r = (|| {
        if !is_pub(&c.vis) || n(&c.ty) != "& str" {
            return None;
        }
        match &*c.expr {
            Expr::Lit(ExprLit {
                lit: Lit::Str(s), ..
            }) => Some(tagged(
                "literal",
                vec![string(s.value()), string(s.token().to_string())],
            )),
            Expr::Macro(m) if m.mac.path.is_ident("include_str") => {
                let args: Punctuated<Expr, Token![,]> =
                    m.mac.parse_body_with(Punctuated::parse_terminated).ok()?;
                if args.len() != 1 {
                    return None;
                }
                Some(tagged("include", vec![string(lit_str(&args[0])?)]))
            }
            _ => None,
        }
    })();
    match r {
        Some(x) if f.source.is_none() => f.source = Some(x),
        _ => f.unk("SOURCE", c),
    }
}

pub fn extract(text: &str) -> Result<Sexp, String> {
    let file = syn::parse_file(text).map_err(|e| format!("syn: {e}"))?;
    let mut f = Facts::default();
    if !file.attrs.is_empty() {
        f.unk("file-attrs", &file.attrs[0]);
    }
    for it in &file.items {
        match it {
            Item::Struct(s) => {
                let name = s.ident.to_string();
                let has_derive = s.attrs.iter().any(|a| a.path().is_ident("derive"));
                if name == "OverrideConstants" && !has_derive {
                    f.order.push(string("overrides-struct"));
                    override_struct(&mut f, s);
                } else if (name == "VertexEntry" || name == "FragmentEntry") && !s.generics.params.is_empty() {
                    f.order.push(string(format!("boiler:{name}")));
                    f.boil(&format!("struct:{name}"), s);
                } else {
                    f.order.push(string(format!("struct:{name}")));
                    user_struct(&mut f, s);
                }
            }
            Item::Const(c) => {
                let name = c.ident.to_string();
                let ty = n(&c.ty);
                if name == "_" {
                    match parse_assert(&mut f, c) {
                        Some(a) => attach_assert(&mut f, a, c),
                        None => f.unk("assert", c),
                    }
                } else if ty == "& str" && name == "SOURCE" {
                    f.order.push(string("SOURCE"));
                    source_const(&mut f, c);
                } else if ty == "& str" {
                    f.order.push(string(format!("entry-const:{name}")));
                    match (is_pub(&c.vis), lit_str(&c.expr)) {
                        (true, Some(v)) => f.entry_consts.push(tagged("ec", vec![string(name), string(v)])),
                        _ => f.unk("entry-const", c),
                    }
                } else if ty == "wgpu :: ShaderStages" {
                    f.order.push(string(format!("stages-const:{name}")));
                    match (is_pub(&c.vis), eval_stages(&c.expr)) {
                        (true, Some(s)) if f.push_stages.is_none() => {
                            f.push_stages = Some(tagged("pushStages", vec![string(name), stages_sexp(s)]))
                        }
                        _ => f.unk("stages-const", c),
                    }
                } else {
                    f.order.push(string(format!("const:{name}")));
                    let decl = match &*c.ty {
                        Type::Path(p) if p.path.segments.len() == 1 => path_str(&p.path),
                        _ => String::new(),
                    };
                    match (is_pub(&c.vis) && c.attrs.is_empty(), const_value(&decl, &c.expr)) {
                        (true, Some(v)) if !decl.is_empty() => {
                            f.consts.push(tagged("const", vec![string(name), string(decl), v]))
                        }
                        _ => f.unk("const", c),
                    }
                }
            }
            Item::Mod(m) if m.ident == "bind_groups" => {
                f.order.push(string("mod:bind_groups"));
                bind_groups_mod(&mut f, m)
            }
            Item::Mod(m) if m.ident == "compute" => {
                f.order.push(string("mod:compute"));
                compute_mod(&mut f, m)
            }
            Item::Impl(im) if im.trait_.is_none() => {
                let st = n(&im.self_ty);
                let is_override = st == "OverrideConstants"
                    && matches!(im.items.first(), Some(ImplItem::Fn(func)) if func.sig.ident == "constants");
                if is_override {
                    f.order.push(string("overrides-impl"));
                    override_impl(&mut f, im);
                } else {
                    f.order.push(string(format!("vertex-impl:{st}")));
                    vertex_impl(&mut f, im);
                }
            }
            Item::Fn(func) => {
                let name = func.sig.ident.to_string();
                if entry_fn(&mut f, func) {
                    f.order.push(string(format!("entry-fn:{name}")));
                    continue;
                }
                f.order.push(string(format!("fn:{name}")));
                match name.as_str() {
                    "set_bind_groups" => set_bind_groups_fn(&mut f, func),
                    "create_pipeline_layout" => pipeline_layout_fn(&mut f, func),
                    "vertex_state" | "fragment_state" | "create_shader_module" => {
                        f.boil(&format!("fn:{name}"), func)
                    }
                    _ => f.unk("fn", func),
                }
            }
            other => f.unk("item", other),
        }
    }
    let overrides = match f.overrides {
        None => atom("none"),
        Some((fields, imp)) => tagged(
            "some",
            vec![
                tagged("fields", fields),
                imp.unwrap_or_else(|| atom("missing-impl")),
            ],
        ),
    };
    let _ = last_seg;
    Ok(tagged(
        "facts",
        vec![
            tagged("structs", f.structs),
            tagged("consts", f.consts),
            tagged("overrides", vec![overrides]),
            tagged("groups", f.groups),
            tagged("bindModule", f.bind_module),
            tagged("setBindGroups", vec![opt(f.set_bind_groups)]),
            tagged("vertex", f.vertex),
            tagged("entryConsts", f.entry_consts),
            tagged("vertexEntries", f.vertex_entries),
            tagged("fragmentEntries", f.fragment_entries),
            tagged("compute", f.compute),
            tagged("source", vec![opt(f.source)]),
            tagged("pushStages", vec![opt(f.push_stages)]),
            tagged("pipelineLayout", vec![opt(f.pipeline_layout)]),
            tagged("boiler", f.boiler),
            tagged("order", f.order),
            tagged("unknown", f.unknown),
        ],
    ))
}
