pub mod facts;
pub mod irdump;
pub mod run;
pub mod sexp;
pub mod wgslgen;
