//! S-expression printing (wire format shared with lean/WgslVerif/Sexp.lean).
use std::fmt::Write;

#[derive(Clone, Debug, PartialEq, Eq)]
pub enum Sexp {
    Atom(String),
    Str(String),
    List(Vec<Sexp>),
}

pub fn atom(s: impl Into<String>) -> Sexp {
    Sexp::Atom(s.into())
}
pub fn string(s: impl Into<String>) -> Sexp {
    Sexp::Str(s.into())
}
pub fn list(v: Vec<Sexp>) -> Sexp {
    Sexp::List(v)
}
pub fn tagged(tag: &str, mut v: Vec<Sexp>) -> Sexp {
    let mut out = vec![atom(tag)];
    out.append(&mut v);
    Sexp::List(out)
}
pub fn nat(n: impl Into<u128>) -> Sexp {
    Sexp::Atom(n.into().to_string())
}
pub fn int(n: impl Into<i128>) -> Sexp {
    Sexp::Atom(n.into().to_string())
}
pub fn boolean(b: bool) -> Sexp {
    atom(if b { "true" } else { "false" })
}
pub fn opt(o: Option<Sexp>) -> Sexp {
    match o {
        None => atom("none"),
        Some(x) => list(vec![atom("some"), x]),
    }
}
pub fn opt_str(o: Option<&String>) -> Sexp {
    opt(o.map(|s| string(s.clone())))
}

pub fn quote_into(out: &mut String, s: &str) {
    out.push('"');
    for c in s.chars() {
        let n = c as u32;
        if (0x20..=0x7e).contains(&n) && c != '"' && c != '\\' {
            out.push(c);
        } else {
            write!(out, "\\u{{{:x}}}", n).unwrap();
        }
    }
    out.push('"');
}

impl Sexp {
    pub fn render_into(&self, out: &mut String) {
        match self {
            Sexp::Atom(a) => out.push_str(a),
            Sexp::Str(s) => quote_into(out, s),
            Sexp::List(xs) => {
                out.push('(');
                for (i, x) in xs.iter().enumerate() {
                    if i > 0 {
                        out.push(' ');
                    }
                    x.render_into(out);
                }
                out.push(')');
            }
        }
    }
    pub fn render(&self) -> String {
        let mut s = String::new();
        self.render_into(&mut s);
        s
    }
}

/// Parser for the same format (used for replay files and corpus lines).
pub fn parse(input: &str) -> Option<Vec<Sexp>> {
    let cs: Vec<char> = input.chars().collect();
    let mut i = 0;
    let mut stack: Vec<Vec<Sexp>> = vec![];
    let mut cur: Vec<Sexp> = vec![];
    while i < cs.len() {
        let c = cs[i];
        match c {
            '(' => {
                stack.push(std::mem::take(&mut cur));
                i += 1;
            }
            ')' => {
                let mut top = stack.pop()?;
                top.push(Sexp::List(std::mem::take(&mut cur)));
                cur = top;
                i += 1;
            }
            '"' => {
                i += 1;
                let mut s = String::new();
                loop {
                    let c = *cs.get(i)?;
                    if c == '"' {
                        i += 1;
                        break;
                    }
                    if c == '\\' && cs.get(i + 1) == Some(&'u') && cs.get(i + 2) == Some(&'{') {
                        i += 3;
                        let mut n = 0u32;
                        loop {
                            let c = *cs.get(i)?;
                            i += 1;
                            if c == '}' {
                                break;
                            }
                            n = n * 16 + c.to_digit(16)?;
                        }
                        s.push(char::from_u32(n)?);
                    } else {
                        s.push(c);
                        i += 1;
                    }
                }
                cur.push(Sexp::Str(s));
            }
            ' ' | '\t' | '\n' | '\r' => i += 1,
            _ => {
                let start = i;
                while i < cs.len() && !matches!(cs[i], ' ' | '\t' | '\n' | '\r' | '(' | ')' | '"') {
                    i += 1;
                }
                cur.push(Sexp::Atom(cs[start..i].iter().collect()));
            }
        }
    }
    if stack.is_empty() {
        Some(cur)
    } else {
        None
    }
}
