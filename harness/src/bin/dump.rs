//! dump: case lines -> lines for the Lean driver.
//!   stdin:  (src "id" "wgsl" [(path "p")])   one per line
//!   args:   --opts i,j,k   option-set indices (see run::Opts::from_index), default 0
//!   stdout: (case "id" (src "...") (path none|(some "p")) <ir> (runs (run <options> <result> <ms>)...))
use std::io::{BufRead, Write};
use verif_harness::{irdump, run, sexp::*};

fn main() {
    run::silence_panics();
    let args: Vec<String> = std::env::args().collect();
    let mut opts: Vec<usize> = vec![0];
    let mut with_src = true;
    let mut i = 1;
    while i < args.len() {
        match args[i].as_str() {
            "--opts" => {
                opts = args[i + 1].split(',').map(|x| x.parse().unwrap()).collect();
                i += 1;
            }
            "--no-src" => with_src = false,
            other => panic!("unknown arg {other}"),
        }
        i += 1;
    }
    let stdin = std::io::stdin();
    let stdout = std::io::stdout();
    let mut out = std::io::BufWriter::new(stdout.lock());
    for line in stdin.lock().lines() {
        let line = line.unwrap();
        if line.trim().is_empty() {
            continue;
        }
        let parsed = parse(&line).expect("bad case line");
        let (id, src, path) = match &parsed[0] {
            Sexp::List(v) => {
                let id = match &v[1] {
                    Sexp::Str(s) => s.clone(),
                    _ => panic!("id"),
                };
                let src = match &v[2] {
                    Sexp::Str(s) => s.clone(),
                    _ => panic!("src"),
                };
                let path = v.get(3).and_then(|p| match p {
                    Sexp::List(pv) => match pv.get(1) {
                        Some(Sexp::Str(s)) => Some(s.clone()),
                        _ => None,
                    },
                    _ => None,
                });
                (id, src, path)
            }
            _ => panic!("case"),
        };
        let ir = match naga::front::wgsl::parse_str(&src) {
            Ok(m) => {
                let valid = naga::valid::Validator::new(
                    naga::valid::ValidationFlags::all(),
                    naga::valid::Capabilities::all(),
                )
                .validate(&m)
                .is_ok();
                tagged("ir", vec![boolean(valid), irdump::module(&m)])
            }
            Err(e) => tagged("parseError", vec![string(e.message().to_string())]),
        };
        let mut runs = vec![];
        for &oi in &opts {
            let o = run::Opts::from_index(oi);
            #[cfg(wgsl_to_wgpu_verif)]
            wgsl_to_wgpu::verif_hooks::reset();
            let t0 = std::time::Instant::now();
            let outcome = run::run_real(&src, path.as_deref(), o);
            let us = t0.elapsed().as_micros();
            let mut run = vec![o.sexp(), run::outcome_sexp(&outcome), nat(us)];
            #[cfg(wgsl_to_wgpu_verif)]
            {
                let (a, b, c) = wgsl_to_wgpu::verif_hooks::read();
                run.push(tagged("visits", vec![nat(a), nat(b), nat(c)]));
            }
            runs.push(tagged("run", run));
        }
        let case = tagged(
            "case",
            vec![
                string(id),
                tagged("src", vec![if with_src { string(src) } else { atom("omitted") }]),
                tagged("path", vec![opt(path.map(string))]),
                ir,
                tagged("runs", runs),
            ],
        );
        let mut s = String::new();
        case.render_into(&mut s);
        writeln!(out, "{s}").unwrap();
    }
}
