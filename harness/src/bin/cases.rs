//! cases: emit `(src "id" "wgsl")` lines.
//!   cases fixtures                      -- the repo's own fixtures + /verif/corpus/*.wgsl
//!   cases c11 <npairs_groups> <npairs_bindings> <maxlen>   -- bounded-exhaustive binding sequences
//!   cases c11rand <seed> <count>        -- random binding multisets incl. u32 extremes
//!   cases gen <profile> <seed> <count>  -- structured random generator (wgslgen)
//!   cases family <name> <n>             -- deterministic families chain/chainv/diamond/fanout/nested
use verif_harness::sexp::*;

fn emit(id: &str, src: &str) {
    let mut s = String::new();
    tagged("src", vec![string(id), string(src)]).render_into(&mut s);
    println!("{s}");
}

fn emit_path(id: &str, src: &str, path: &str) {
    let mut s = String::new();
    tagged("src", vec![string(id), string(src), tagged("path", vec![string(path)])]).render_into(&mut s);
    println!("{s}");
}

struct Rng(u64);
impl Rng {
    fn next(&mut self) -> u64 {
        self.0 = self.0.wrapping_add(0x9E3779B97F4A7C15);
        let mut z = self.0;
        z = (z ^ (z >> 30)).wrapping_mul(0xBF58476D1CE4E5B9);
        z = (z ^ (z >> 27)).wrapping_mul(0x94D049BB133111EB);
        z ^ (z >> 31)
    }
    fn below(&mut self, n: u64) -> u64 {
        self.next() % n
    }
}

/// mode 0: no variable is used; 1: all are used by one compute entry; 2: STAGE-DISJOINT use - even variables only by a vertex
/// entry, odd ones only by a fragment entry (a repeated slot is then never seen by one stage together);
/// 3: like 1, and every fifth variable has a type the generator has no binding for (top-level `atomic<u32>`)
fn binding_shader(pairs: &[(u32, u32)], mode: u8) -> String {
    let mut s = String::new();
    let kinds = ["var<uniform> NAME: vec4<f32>;", "var<storage, read> NAME: array<f32>;", "var NAME: texture_2d<f32>;", "var NAME: sampler;"];
    let odd = |i: usize| mode == 3 && i % 5 == 4;
    for (i, (g, b)) in pairs.iter().enumerate() {
        let decl = if odd(i) { "var<storage, read_write> NAME: atomic<u32>;".to_string() } else { kinds[i % kinds.len()].to_string() }.replace("NAME", &format!("v{i}"));
        let su = |x: u32| if x > i32::MAX as u32 || x % 5 == 4 { format!("{x}u") } else { format!("{x}") };
        s.push_str(&format!("@group({}) @binding({}) {decl}\n", su(*g), su(*b)));
    }
    let use_of = |i: usize| -> String {
        if odd(i) {
            return format!("    let x{i} = atomicLoad(&v{i});\n");
        }
        match i % kinds.len() {
            0 => format!("    let x{i} = v{i}.x;\n"),
            1 => format!("    let x{i} = v{i}[0];\n"),
            2 => format!("    let x{i} = textureDimensions(v{i});\n"),
            _ => format!("    _ = v{i};\n"),
        }
    };
    if mode == 2 {
        s.push_str("@vertex\nfn vs() -> @builtin(position) vec4<f32> {\n");
        for i in (0..pairs.len()).filter(|i| i % 2 == 0) {
            s.push_str(&use_of(i));
        }
        s.push_str("    return vec4<f32>(0.0);\n}\n@fragment\nfn fs() -> @location(0) vec4<f32> {\n");
        for i in (0..pairs.len()).filter(|i| i % 2 == 1) {
            s.push_str(&use_of(i));
        }
        s.push_str("    return vec4<f32>(0.0);\n}\n");
        return s;
    }
    if mode == 4 {
        // a declarations-only module (entry points live in another file)
        s.push_str("fn helper() -> f32 { return 1.0; }\n");
        return s;
    }
    s.push_str("@compute @workgroup_size(1)\nfn main() {\n");
    if mode != 0 {
        for i in 0..pairs.len() {
            s.push_str(&use_of(i));
        }
    }
    s.push_str("}\n");
    s
}

fn main() {
    let args: Vec<String> = std::env::args().collect();
    match args[1].as_str() {
        "fixtures" => {
            let mut files = vec![];
            for dir in [
                "/repo/wgsl_to_wgpu/src/data",
                "/repo/wgsl_to_wgpu/src/data/bindgroup",
                "/repo/wgsl_to_wgpu/src/data/struct",
                "/repo/example/src",
                "/verif/corpus",
            ] {
                if let Ok(rd) = std::fs::read_dir(dir) {
                    let mut v: Vec<_> = rd
                        .filter_map(|e| e.ok())
                        .map(|e| e.path())
                        .filter(|p| p.extension().map(|x| x == "wgsl").unwrap_or(false))
                        .collect();
                    v.sort();
                    files.extend(v);
                }
            }
            // development aid: shaders being tried out before they are added to /verif/corpus
            if let Ok(dir) = std::env::var("VERIF_EXTRA_CORPUS") {
                if let Ok(rd) = std::fs::read_dir(&dir) {
                    let mut v: Vec<_> = rd.filter_map(|e| e.ok()).map(|e| e.path()).filter(|p| p.extension().map(|x| x == "wgsl").unwrap_or(false)).collect();
                    v.sort();
                    files.extend(v);
                }
            }
            for f in files {
                let src = std::fs::read_to_string(&f).unwrap();
                emit(&format!("fixture:{}", f.display()), &src);
            }
        }
        "c11" => {
            let ng: u32 = args[2].parse().unwrap();
            let nb: u32 = args[3].parse().unwrap();
            let maxlen: usize = args[4].parse().unwrap();
            let pairs: Vec<(u32, u32)> = (0..ng).flat_map(|g| (0..nb).map(move |b| (g, b))).collect();
            // every sequence (ordered, with repetition) of length 0..=maxlen
            let mut idx: Vec<usize> = vec![];
            emit("c11:empty", &binding_shader(&[], 0));
            for len in 1..=maxlen {
                idx.clear();
                idx.resize(len, 0);
                loop {
                    let seq: Vec<(u32, u32)> = idx.iter().map(|&i| pairs[i]).collect();
                    let id: Vec<String> = seq.iter().map(|(g, b)| format!("{g}.{b}")).collect();
                    emit(&format!("c11:{}", id.join("-")), &binding_shader(&seq, 0));
                    if len >= 2 && len <= 3 {
                        emit(&format!("c11:{}:stage-disjoint", id.join("-")), &binding_shader(&seq, 2));
                    }
                    if len <= 2 {
                        emit(&format!("c11:{}:no-entry-point", id.join("-")), &binding_shader(&seq, 4));
                    }
                    // odometer
                    let mut k = len;
                    loop {
                        if k == 0 {
                            break;
                        }
                        k -= 1;
                        idx[k] += 1;
                        if idx[k] < pairs.len() {
                            break;
                        }
                        idx[k] = 0;
                        if k == 0 {
                            k = usize::MAX;
                            break;
                        }
                    }
                    if k == usize::MAX {
                        break;
                    }
                }
            }
        }
        "c11rand" => {
            let seed: u64 = args[2].parse().unwrap();
            let count: u64 = args[3].parse().unwrap();
            let mut r = Rng(seed ^ 0xC11);
            let extremes = [0u32, 1, 2, 3, 4, 7, 255, 65535, 65536, 2147483647, 2147483648, 4294967294, 4294967295];
            for i in 0..count {
                let n = 1 + r.below(7) as usize;
                let dense = r.below(3) != 0;
                let ngroups = 1 + r.below(4) as u32;
                let mut seq = vec![];
                for _ in 0..n {
                    let g = if dense { r.below(ngroups as u64) as u32 } else { extremes[r.below(extremes.len() as u64) as usize] };
                    let b = if r.below(2) == 0 { r.below(4) as u32 } else { extremes[r.below(extremes.len() as u64) as usize] };
                    seq.push((g, b));
                }
                let mode = r.below(4) as u8;
                emit(&format!("c11rand:{seed}:{i}"), &binding_shader(&seq, mode));
            }
        }
        "gen" => {
            let profile = &args[2];
            let seed: u64 = args[3].parse().unwrap();
            let count: u64 = args[4].parse().unwrap();
            for i in 0..count {
                let c = verif_harness::wgslgen::generate(profile, seed, i);
                emit(&format!("gen:{profile}:{seed}:{i}"), &c.wgsl);
            }
        }
        "genpath" => {
            // like `gen`, but with an include path (create_shader_module instead of ..._embedded)
            let profile = &args[2];
            let seed: u64 = args[3].parse().unwrap();
            let count: u64 = args[4].parse().unwrap();
            let paths = [
                "shader.wgsl", "../shaders/my shader.wgsl", "C:\\dir\\x.wgsl", "ünï/码.wgsl", "quote\"d.wgsl",
                "", "a/b/c/d/e/f.wgsl", "tab\tname.wgsl", "{brace}.wgsl", "nl\nname.wgsl",
                // not in normalised form: the path has to arrive in include_str! as given
                "shaders/./model.wgsl", "shaders//model.wgsl", "/abs/dir/./shader.wgsl", "dir/", "./x/../y.wgsl", "a\\b/../c.wgsl", " lead.wgsl ",
                "back\\slash\\", "\u{feff}bom.wgsl", "r#\"raw\"#.wgsl", "dollar$HOME/~.wgsl",
            ];
            for i in 0..count {
                let c = verif_harness::wgslgen::generate(profile, seed, i);
                emit_path(&format!("genpath:{profile}:{seed}:{i}"), &c.wgsl, paths[(i as usize) % paths.len()]);
            }
        }
        "pc" => {
            // push-constant usage patterns x every sequence of entry-point stages up to length maxlen
            let maxlen: usize = args[2].parse().unwrap();
            let tys = ["vec4<f32>", "f32", "mat4x4<f32>", "PC", "array<vec4<f32>, 3>", "mat3x3<f32>", "vec3<u32>"];
            let mut k = 0usize;
            // a module with a push constant and NO entry point at all (a shared declarations file)
            emit("pc:0:0:0", "struct PC { a: vec3<f32>, b: f32 }\nvar<push_constant> pc: PC;\n@group(0) @binding(0) var<uniform> ub: vec4<f32>;\nfn helper() -> f32 { return pc.b + ub.x; }\n");
            for len in 1..=maxlen {
                let total = 3usize.pow(len as u32);
                for code in 0..total {
                    let mut stages = vec![];
                    let mut c = code;
                    for _ in 0..len {
                        stages.push(c % 3);
                        c /= 3;
                    }
                    // usage: 0 = unused, 1 = first entry, 2 = last entry, 3 = all through a helper, 4 = middle via nested helper
                    // (value-returning call in a continuing block), 5 = middle via a call STATEMENT (no result) in a continuing
                    // block, 6 = middle via a call statement in the update clause of a for loop, 7 = call statement inside
                    // switch / if / nested block of a helper, 8 = call statement under `if DEBUG { .. }` with `const DEBUG = false` (the whole
                    // condition is a module constant), 9 = in the else branch of a constant-true flag, 10 = after the same void helper was
                    // called twice in the block, 11 = only the ADDRESS of the variable is taken, never dereferenced (`let p = &pc;`)
                    for usage in 0..18usize {
                        let ty = tys[k % tys.len()];
                        k += 1;
                        let mut s = String::new();
                        s.push_str("struct PC { a: vec3<f32>, b: f32, c: vec2<f32> }\n");
                        s.push_str(&format!("var<push_constant> pc: {ty};\n"));
                        // a resource variable used exactly where the push constant is: the same usage patterns decide its visibility
                        s.push_str("@group(0) @binding(0) var<uniform> ub: vec4<f32>;\n");
                        if usage == 16 {
                            // more than 64 functions before the one that touches the variables
                            for f in 0..70 {
                                s.push_str(&format!("fn filler{f}() {{ }}\n"));
                            }
                        }
                        s.push_str("fn leaf() -> f32 { _ = pc; _ = ub; let p = pc; return 1.0; }\nfn mid() -> f32 { var x = 0.0; loop { if x > 1.0 { break; } continuing { x += leaf(); } } return x; }\n");
                        if usage == 12 {
                            s.push_str("fn dead_inner() -> f32 { let p = pc; let b = ub; return 1.0; }\nfn dead() -> f32 { return dead_inner(); }\n");
                        }
                        if usage >= 5 && usage != 12 {
                            s.push_str("fn leafv() { _ = pc; _ = ub; }\n");
                            // 13-15: the call stands AFTER a statement that ends the block (static use ignores reachability; naga's front end
                            // keeps such statements, only its validator objects), 16: the callee is function number 70+, 17: the call sits in
                            // branch 66 of a flat `if .. else if ..` chain (naga nests each `else if` one level deeper)
                            // (only in the modules that use them: naga's validator rejects a module with statements after a terminator)
                            if usage == 13 {
                                s.push_str("fn midret() { return; leafv(); }\n");
                            }
                            if usage == 14 {
                                s.push_str("fn midbrk() { loop { break; leafv(); } }\n");
                            }
                            if usage == 15 {
                                s.push_str("fn midcnt() { var i = 0u; loop { if i > 1u { break; } i += 1u; continue; leafv(); } }\n");
                            }
                            if usage == 17 {
                                let mut chain = String::from("fn midelif(k: u32) { if k == 0u { }");
                                for b in 1..70 {
                                    if b == 66 {
                                        chain.push_str(&format!(" else if k == {b}u {{ leafv(); }}"));
                                    } else {
                                        chain.push_str(&format!(" else if k == {b}u {{ }}"));
                                    }
                                }
                                chain.push_str(" }\n");
                                s.push_str(&chain);
                            }
                            s.push_str("fn midv() { var x = 0.0; loop { if x > 1.0 { break; } continuing { x += 1.0; leafv(); } } }\n");
                            s.push_str("fn midf() { for (var i = 0u; i < 2u; leafv()) { i += 1u; } }\n");
                            s.push_str("fn mids(k: u32) { switch k { case 1u: { if k > 0u { { leafv(); } } } default: { } } }\n");
                            s.push_str("const DEBUG = false;\nconst ENABLED: bool = true;\n");
                            s.push_str("fn midc() { if DEBUG { leafv(); } }\n");
                            s.push_str("fn mide() { if ENABLED { } else { leafv(); } }\n");
                            s.push_str("fn noop() { }\nfn midr() { noop(); noop(); leafv(); }\n");
                        }
                        for (i, st) in stages.iter().enumerate() {
                            let uses = match usage {
                                0 => false,
                                1 => i == 0,
                                2 => i == len - 1,
                                3 => true,
                                _ => i == len / 2,
                            };
                            let body = if !uses {
                                ""
                            } else {
                                match usage {
                                    3 => "let q = leaf();",
                                    4 => "let q = mid();",
                                    5 => "midv();",
                                    6 => "midf();",
                                    7 => "mids(1u);",
                                    8 => "midc();",
                                    9 => "mide();",
                                    10 => "midr();",
                                    11 => "let p = &pc; let pb = &ub;",
                                    13 => "midret();",
                                    14 => "midbrk();",
                                    15 => "midcnt();",
                                    16 => "leafv();",
                                    17 => "midelif(3u);",
                                    12 => "",   // only a helper NOBODY calls mentions the variable (see `dead` below)
                                    _ => "let q = pc; let qb = ub;",
                                }
                            };
                            match st {
                                0 => s.push_str(&format!("@vertex fn e{i}() -> @builtin(position) vec4<f32> {{ {body} return vec4<f32>(0.0); }}\n")),
                                1 => s.push_str(&format!("@fragment fn e{i}() -> @location(0) vec4<f32> {{ {body} return vec4<f32>(0.0); }}\n")),
                                _ => s.push_str(&format!("@compute @workgroup_size(1) fn e{i}() {{ {body} }}\n")),
                            }
                        }
                        emit(&format!("pc:{len}:{code}:{usage}"), &s);
                    }
                }
            }
        }
        "types" => {
            // EXHAUSTIVE over the finite type tables: every leaf type x wrapper (plain, alias, fixed array, nested array, runtime
            // array, nested struct, array of structs) x role (storage, uniform, private, workgroup, push constant, vertex input,
            // vertex input + storage, entry result + uniform, entry result nested in storage)
            let scalars = ["f32", "i32", "u32", "f64", "bool"];
            let mut leaves: Vec<(String, &str, bool)> = vec![]; // (type, scalar, io-capable)
            for sc in scalars {
                leaves.push((sc.to_string(), sc, sc != "bool" && sc != "f64" || sc == "f64"));
                for n in 2..=4 {
                    leaves.push((format!("vec{n}<{sc}>"), sc, sc != "bool"));
                }
            }
            for sc in ["f32", "f64"] {
                for c in 2..=4 {
                    for r in 2..=4 {
                        leaves.push((format!("mat{c}x{r}<{sc}>"), sc, false));
                    }
                }
            }
            for sc in ["u32", "i32", "f32"] {
                leaves.push((format!("atomic<{sc}>"), "atomic", false));
            }
            let wrappers = ["plain", "alias", "array3", "array2x3", "runtime", "nested", "structarray", "alias-array"];
            // optional subsampling: `types <stride> <offset>` emits every stride-th case starting at offset
            let stride: usize = args.get(2).and_then(|x| x.parse().ok()).unwrap_or(1).max(1);
            let offset: usize = args.get(3).and_then(|x| x.parse().ok()).unwrap_or(0) % stride;
            let mut k = 0usize;
            for (leaf, sc, io) in &leaves {
                let is_bool = *sc == "bool";
                let is_atomic = *sc == "atomic";
                for w in wrappers {
                    let mut pre = String::new();
                    let member_ty = match w {
                        "plain" => leaf.clone(),
                        "alias" => {
                            pre.push_str(&format!("alias Al = {leaf};\n"));
                            "Al".to_string()
                        }
                        "array3" => format!("array<{leaf}, 3>"),
                        "array2x3" => format!("array<array<{leaf}, 2>, 3>"),
                        "runtime" => format!("array<{leaf}>"),
                        "nested" => {
                            pre.push_str(&format!("struct Inner {{ x: {leaf}, y: f32 }}\n"));
                            "Inner".to_string()
                        }
                        "structarray" => {
                            pre.push_str(&format!("struct Inner {{ x: {leaf} }}\n"));
                            "array<Inner, 2>".to_string()
                        }
                        _ => {
                            pre.push_str(&format!("alias Al = {leaf};\nalias Arr = array<Al, 4>;\n"));
                            "Arr".to_string()
                        }
                    };
                    let body = format!("{pre}struct S {{ head: f32, m: {member_ty} }}\n");
                    let mut roles: Vec<(&str, String)> = vec![];
                    if !is_bool {
                        let acc = if is_atomic { "read_write" } else if k % 2 == 0 { "read" } else { "read_write" };
                        roles.push(("storage", format!("{body}@group(0) @binding(0) var<storage, {acc}> g: S;\n@compute @workgroup_size(1) fn main() {{ let h = g.head; }}\n")));
                        if w != "runtime" && !is_atomic {
                            roles.push(("uniform", format!("{body}@group(0) @binding(0) var<uniform> g: S;\n@fragment fn main() -> @location(0) vec4<f32> {{ return vec4<f32>(g.head); }}\n")));
                            roles.push(("push", format!("{body}var<push_constant> g: S;\n@vertex fn main() -> @builtin(position) vec4<f32> {{ return vec4<f32>(g.head); }}\n")));
                        }
                    }
                    if w != "runtime" {
                        if !is_atomic {
                            roles.push(("private", format!("{body}var<private> g: S;\n@compute @workgroup_size(1) fn main() {{ g.head = 1.0; }}\n")));
                        }
                        roles.push(("workgroup", format!("{body}var<workgroup> g: S;\n@compute @workgroup_size(1) fn main() {{ g.head = 1.0; }}\n")));
                    }
                    if *io && (w == "plain" || w == "alias") {
                        let flat = if *sc == "f32" { "" } else { "@interpolate(flat) " };
                        let io_s = format!("{pre}struct S {{ @location(1) head: f32, @location(0) {flat}m: {member_ty} }}\n");
                        roles.push(("vertex", format!("{io_s}@vertex fn main(v: S) -> @builtin(position) vec4<f32> {{ return vec4<f32>(v.head); }}\n")));
                        roles.push(("vertex+storage", format!("{io_s}@group(0) @binding(0) var<storage, read> g: array<S>;\n@vertex fn main(v: S) -> @builtin(position) vec4<f32> {{ return vec4<f32>(v.head + g[0].head); }}\n")));
                        if *sc != "f64" {
                            roles.push(("result+uniform", format!("{io_s}@group(0) @binding(0) var<uniform> g: S;\n@fragment fn main() -> S {{ return g; }}\n")));
                            roles.push(("result-in-storage", format!("{io_s}struct Outer {{ a: f32, inner: S, arr: array<S, 2> }}\n@group(0) @binding(0) var<storage, read> g: Outer;\n@fragment fn main() -> S {{ return g.inner; }}\n")));
                            roles.push(("vertex+result", format!("{io_s}@vertex fn vs(v: S) -> @builtin(position) vec4<f32> {{ return vec4<f32>(v.head); }}\n@fragment fn fs() -> S {{ var o: S; return o; }}\n")));
                        }
                    }
                    for (role, src) in roles {
                        if k % stride == offset {
                            emit(&format!("types:{leaf}:{w}:{role}"), &src);
                        }
                        k += 1;
                    }
                }
            }
        }
        "names" => {
            // EXHAUSTIVE over (identifier role x name shape): one tiny shader per pair, every other identifier fixed.
            // Roles: vertex input struct, its member, host struct member, resource variable, second resource variable (texture),
            // constant, override with default, override without default (with and without @id), helper function,
            // vertex / fragment / compute entry point, push-constant variable.
            // Names: case shapes (camel, Pascal, SCREAMING, snake, digits, leading / trailing underscore, one letter), names the
            // generated module defines or spells itself (ENTRY_*, SOURCE, VertexEntry, bind_groups, overrides, device, wgpu, Option, ..),
            // Rust keywords WGSL allows, non-ASCII. Some pairs are not valid WGSL (reserved words): those are parse errors.
            let names = [
                "camelCase", "PascalCase", "SCREAMING_CASE", "snake_case", "with2Digits9", "_lead", "trail_", "q", "Q", "aB", "Ab",
                "ENTRY_X", "ENTRY_VS0", "ENTRY_", "SOURCE", "PUSH_CONSTANT_STAGES", "VertexEntry", "FragmentEntry", "OverrideConstants",
                "bind_groups", "compute", "overrides", "targets", "device", "bindings", "entries", "source", "pass", "vs0_entry",
                "fs0_entry", "vertex_state", "fragment_state", "create_shader_module", "create_pipeline_layout", "set_bind_groups",
                "BindGroup0", "BindGroupLayout0", "BindGroups", "wgpu", "glam", "std", "core", "bytemuck", "encase", "serde", "Option",
                "Vec", "String", "Default", "None", "Some", "Self_", "offset", "size", "value", "buffer", "fmt", "other", "in", "dyn",
                "box", "gen", "\u{394}t", "\u{65e5}\u{672c}", "VS0", "Vs0", "CS0_WORKGROUP_SIZE", "create_cs0_pipeline", "s0", "S0_", "x__y",
                "HTTPServer", "a1B2", "Z_", "ScaleX_naga_oil_mod_XMFRGGX", "Vertex_Input", "vertex__input", "Host2", "enable_bloom", "enabled", "_pad0", "_padding",
                "shade_entry", "requires_x", "diagnostic_off", "_", "__x",
            ];
            let roles = ["struct", "member", "hostmember", "hoststruct", "nestedstruct", "global", "texture", "const", "override", "override_req",
                         "override_id", "function", "vertex", "fragment", "compute", "pushconst"];
            let stride: usize = args.get(2).and_then(|x| x.parse().ok()).unwrap_or(1).max(1);
            let offset: usize = args.get(3).and_then(|x| x.parse().ok()).unwrap_or(0) % stride;
            let mut k = 0usize;
            for role in roles {
                for name in names {
                    k += 1;
                    if (k - 1) % stride != offset {
                        continue;
                    }
                    let pick = |r: &str, dflt: &str| if r == role { name.to_string() } else { dflt.to_string() };
                    let s = pick("struct", "S0");
                    let m = pick("member", "m0");
                    let hm = pick("hostmember", "hm0");
                    let hs = pick("hoststruct", "Host");
                    let ns = pick("nestedstruct", "Nested0");
                    let g = pick("global", "g0");
                    let t = pick("texture", "t0");
                    let c = pick("const", "C0");
                    let o = pick("override", "o0");
                    let oreq = pick("override_req", "o1");
                    let oid = pick("override_id", "o2");
                    let f = pick("function", "f0");
                    let ve = pick("vertex", "vs0");
                    let fe = pick("fragment", "fs0");
                    let ce = pick("compute", "cs0");
                    let pc = pick("pushconst", "pc0");
                    let src = format!(
                        "struct {s} {{\n  @location(0)\n  {m}: vec4<f32>,\n  @location(1) other_m: vec2<f32>\n}}\n\
                         struct {ns} {{ w: vec4<f32> }}\n\
                         struct {hs} {{\n  {hm}: vec4<f32>,\n  inner: f32,\n  nested: {ns},\n  arr: array<{ns}, 2>,\n}}\n\
                         struct Pc {{ k: vec4<f32> }}\n\
                         @group(0) @binding(0) var<uniform> {g}: {hs};\n\
                         @group(0) @binding(1) var {t}: texture_2d<f32>;\n\
                         var<push_constant> {pc}: Pc;\n\
                         const {c}: f32 = 1.5;\n\
                         override {o}: f32 = 2.0;\n\
                         override {oreq}: u32;\n\
                         @id(7) override {oid}: bool = true;\n\
                         alias Flag = bool;\n\
                         override o3: Flag;\n\
                         override o4: Flag = false;\n\
                         fn {f}(x: f32) -> f32 {{ return x * {c}; }}\n\
                         fn pass_through(w: {s}) -> {s} {{ return w; }}\n\
                         @vertex fn {ve}(v0: {s}) -> @builtin(position) vec4<f32> {{ let v = pass_through(v0); return v.{m} * {f}({g}.{hm}.x) * {o} * f32({oreq}) + {pc}.k; }}\n\
                         @fragment fn {fe}() -> @location(0) vec4<f32> {{ return select(vec4<f32>({c}), textureLoad({t}, vec2<i32>(0, 0), 0), {oid} || o3 || o4); }}\n\
                         @compute @workgroup_size(1) fn {ce}() {{ }}\n"
                    );
                    emit(&format!("names:{role}:{}", name.escape_unicode().to_string().replace("\\u", "u")), &src);
                }
            }
        }
        "variants" => {
            // consecutive shaders that are IDENTICAL EXCEPT FOR ONE ATTRIBUTE (an `@id`, a default, a member type, an `@size`, a stage ..):
            // `dump` runs its cases one after the other on one thread, so a cache inside the generator that is keyed by too little
            // (names without ids, Rust text without WGSL layout, entry name without module) serves the previous shader's answer
            let ov = |a: &str, b: &str, c: &str| format!(
                "{a}override scale: f32 = 1.0;\n{b}override invert: bool;\n{c}override count: u32 = 3u;\n\
                 @fragment fn fs_main() -> @location(0) vec4<f32> {{ return vec4<f32>(select(scale, -scale, invert) * f32(count)); }}\n");
            let st = |m0: &str, m1: &str, extra: &str| format!(
                "struct Light {{ {m0}, {m1} }}\n{extra}@group(0) @binding(0) var<storage, read> light: Light;\n\
                 @compute @workgroup_size(1) fn main() {{ _ = light.position; }}\n");
            let vx = |a: &str, b: &str, stage: &str| format!(
                "struct VertexInput {{ @location(0) position: {a}, @location(1) extra: {b} }}\n\
                 {stage} fn vs_main(v: VertexInput) -> @builtin(position) vec4<f32> {{ return vec4<f32>(0.0); }}\n");
            let list: Vec<(&str, String)> = vec![
                ("ov:plain", ov("", "", "")),
                ("ov:id-first", ov("@id(7) ", "", "")),
                ("ov:id-second", ov("", "@id(300) ", "")),
                ("ov:id-both", ov("@id(7) ", "@id(300) ", "")),
                ("ov:id-swapped", ov("@id(300) ", "@id(7) ", "")),
                ("ov:plain-again", ov("", "", "")),
                ("ov:id-third", ov("", "", "@id(0) ")),
                ("ov:all-required", "override a: f32;\noverride b: bool;\n@id(65535) override c: u32;\n@fragment fn fs_main() -> @location(0) vec4<f32> { return vec4<f32>(select(a, -a, b) * f32(c)); }\n".to_string()),
                ("ov:all-optional", "override a: f32 = 1.0;\noverride b: bool = true;\n@id(65535) override c: u32 = 2u;\n@fragment fn fs_main() -> @location(0) vec4<f32> { return vec4<f32>(select(a, -a, b) * f32(c)); }\n".to_string()),
                ("ov:single-required", "override only: i32;\n@compute @workgroup_size(1) fn main() { _ = only; }\n".to_string()),
                ("st:plain", st("position: vec3<f32>", "radius: f32", "")),
                ("st:size", st("@size(16) position: vec3<f32>", "radius: f32", "")),
                ("st:align", st("position: vec3<f32>", "@align(16) radius: f32", "")),
                ("st:plain-again", st("position: vec3<f32>", "radius: f32", "")),
                ("st:u32", st("position: vec3<u32>", "radius: f32", "")),
                ("st:array-f32", st("position: array<vec4<f32>, 4>", "radius: f32", "")),
                ("st:array-u32", st("position: array<vec4<u32>, 4>", "radius: f32", "")),
                ("st:array-len", st("position: array<vec4<u32>, 5>", "radius: f32", "")),
                ("st:with-earlier-type", st("position: vec3<f32>", "radius: f32", "struct Earlier { a: mat4x4<f32> }\n@group(0) @binding(1) var<uniform> e: Earlier;\n")),
                ("vx:f32", vx("vec3<f32>", "vec2<f32>", "@vertex")),
                ("vx:u32", vx("vec3<u32>", "vec2<f32>", "@vertex")),
                ("vx:swapped", vx("vec2<f32>", "vec3<f32>", "@vertex")),
                ("vx:f32-again", vx("vec3<f32>", "vec2<f32>", "@vertex")),
                ("vx:vec4", vx("vec4<f32>", "vec4<i32>", "@vertex")),
            ];
            for (id, src) in list {
                emit(&format!("variants:{id}"), &src);
            }
        }
        "provoke" => {
            // shaders that make a call END BADLY in different ways: the sequence harness runs them between other cases and checks that
            // nothing of the failure stays behind in the process (a "formatter is broken" flag, a poisoned lock, a cache that is only
            // cleared on success ..)
            let list: [(&str, &str); 31] = [
                // (the pair stands at the beginning and again at the end: the pipelines deal the cases out in runs of 32 lines, one of
                // the two pairs always stays inside one process)
                ("panic-after-structs-first", "struct P { a: vec4<f32>, m: mat3x3<f32>, k: vec2<u32> }\n@group(0) @binding(0) var<uniform> p: P;\n@group(0) @binding(1) var<storage, read_write> counter: atomic<u32>;\n@compute @workgroup_size(1) fn main() { atomicAdd(&counter, u32(p.a.x)); }\n"),
                ("plain-after-panic-first", "struct Q { x: f32, y: vec2<u32>, z: vec3<i32>, w: mat2x2<f32> }\n@group(0) @binding(0) var<uniform> q: Q;\n@group(0) @binding(1) var<storage, read_write> o: array<f32>;\n@compute @workgroup_size(1) fn main() { o[0] = q.x; }\n"),
                ("vertex-bool-location", "struct V { @location(0) p: vec4<f32>, @location(1) flag: u32, @location(2) b: vec2<bool> }\n@vertex fn vs(v: V) -> @builtin(position) vec4<f32> { return v.p; }\n"),
                ("preprocessor-line", "#import common::types\n@compute @workgroup_size(1) fn main() { }\n"),
                ("preprocessor-line-inside", "@compute @workgroup_size(1) fn main() {\n  #define N 4\n}\n"),
                ("invalid-and-unsupported", "@group(0) @binding(0) var<uniform> counter: atomic<u32>;\n@compute @workgroup_size(1) fn main() { _ = atomicLoad(&counter); }\n"),
                ("keyword-member-box", "struct S { box: vec4<f32> }\n@group(0) @binding(0) var<uniform> u: S;\n@compute @workgroup_size(1) fn main() { _ = u.box; }\n"),
                ("keyword-global-in", "@group(0) @binding(0) var<uniform> in: vec4<f32>;\n@compute @workgroup_size(1) fn main() { _ = in; }\n"),
                ("runtime-array-without-encase", "struct R { n: u32, items: array<vec4<f32>> }\n@group(0) @binding(0) var<storage, read> r: R;\n@compute @workgroup_size(1) fn main() { _ = r.n; }\n"),
                ("top-level-atomic", "@group(0) @binding(0) var<storage, read_write> counter: atomic<u32>;\n@compute @workgroup_size(1) fn main() { atomicAdd(&counter, 1u); }\n"),
                ("parse-error", "@compute @workgroup_size(1) fn main( {\n"),
                ("validation-error", "@fragment fn fs() -> vec4<f32> { return vec4<f32>(1.0); }\n"),
                ("duplicate-binding", "@group(0) @binding(0) var<uniform> a: vec4<f32>;\n@group(0) @binding(0) var<uniform> b: vec4<f32>;\n@compute @workgroup_size(1) fn main() { }\n"),
                ("group-gap", "@group(2) @binding(0) var<uniform> a: vec4<f32>;\n@compute @workgroup_size(1) fn main() { _ = a; }\n"),
                ("plain", "struct P { a: vec4<f32> }\n@group(0) @binding(0) var<uniform> p: P;\n@compute @workgroup_size(1) fn main() { _ = p.a; }\n"),
                // defects only the validator's pass over constants / overrides sees
                ("override-duplicate-id", "@id(0) override a: f32 = 1.0;\n@id(0) override b: f32 = 2.0;\n@compute @workgroup_size(1) fn main() { _ = a + b; }\n"),
                ("override-vector", "override offset: vec2<f32>;\n@compute @workgroup_size(1) fn main() { }\n"),
                ("leading-bom", "\u{feff}@compute @workgroup_size(1) fn main() { }\n"),
                // which failure wins: a numbering error together with a construct the generator panics on
                ("duplicate-and-runtime-array", "struct R { n: u32, items: array<vec4<f32>> }\n@group(0) @binding(0) var<storage, read> r: R;\n@group(0) @binding(0) var<uniform> b: vec4<f32>;\n@compute @workgroup_size(1) fn main() { _ = r.n; }\n"),
                ("gap-and-runtime-array", "struct R { n: u32, items: array<vec4<f32>> }\n@group(1) @binding(0) var<storage, read> r: R;\n@compute @workgroup_size(1) fn main() { _ = r.n; }\n"),
                ("duplicate-and-top-level-atomic", "@group(0) @binding(1) var<storage, read_write> counter: atomic<u32>;\n@group(0) @binding(1) var<uniform> b: vec4<f32>;\n@compute @workgroup_size(1) fn main() { atomicAdd(&counter, 1u); }\n"),
                ("gap-and-keyword-member", "struct S { box: vec4<f32> }\n@group(3) @binding(0) var<uniform> u: S;\n@compute @workgroup_size(1) fn main() { _ = u.box; }\n"),
                ("gap-and-vertex-bool-location", "struct V { @location(0) p: vec4<f32>, @location(1) b: vec2<bool> }\n@group(1) @binding(0) var<uniform> u: vec4<f32>;\n@vertex fn vs(v: V) -> @builtin(position) vec4<f32> { return v.p + u; }\n"),
                // modules without an entry point (shared declaration files), an empty file, comments only
                ("entryless-gap", "@group(1) @binding(0) var<uniform> a: vec4<f32>;\nfn helper() -> f32 { return a.x; }\n"),
                ("entryless-duplicate", "@group(0) @binding(2) var<uniform> a: vec4<f32>;\n@group(0) @binding(2) var<uniform> b: vec4<f32>;\n"),
                ("entryless-declarations", "struct Light { pos: vec3<f32>, intensity: f32 }\nconst MAX_LIGHTS: u32 = 16u;\nconst SCALE = 1.5;\noverride quality: u32 = 2u;\n@group(0) @binding(0) var<uniform> light: Light;\n@group(0) @binding(1) var<storage, read> lights: array<Light>;\nvar<push_constant> pcs: vec4<f32>;\nfn helper() -> f32 { return light.intensity * SCALE; }\n"),
                ("comment-only", "// nothing but a comment\n/* and a block comment */\n"),
                ("empty", ""),
                ("constants-only", "const A: i32 = -7;\nconst B = 2.5;\nconst C: u32 = 3u;\n"),
                // a call that panics AFTER its structs were generated, followed by a module whose type handles mean other types
                ("panic-after-structs", "struct P { a: vec4<f32>, m: mat3x3<f32>, k: vec2<u32> }\n@group(0) @binding(0) var<uniform> p: P;\n@group(0) @binding(1) var<storage, read_write> counter: atomic<u32>;\n@compute @workgroup_size(1) fn main() { atomicAdd(&counter, u32(p.a.x)); }\n"),
                ("plain-after-panic", "struct Q { x: f32, y: vec2<u32>, z: vec3<i32>, w: mat2x2<f32> }\n@group(0) @binding(0) var<uniform> q: Q;\n@group(0) @binding(1) var<storage, read_write> o: array<f32>;\n@compute @workgroup_size(1) fn main() { o[0] = q.x; }\n"),
            ];
            for (id, src) in list {
                emit(&format!("provoke:{id}"), src);
            }
        }
        "entries" => {
            // EXHAUSTIVE over vertex-entry parameter lists: every ordered selection of up to 3 of {struct with locations, second struct,
            // builtin-only struct, bare @builtin parameter, bare @location parameter}; a second vertex entry takes the same list
            // reversed (shared structs, other order). Every shader also carries one fragment entry per result shape (none, direct
            // location 0 / 3, direct builtin, struct dense / sparse / builtin-only / mixed) and compute entries with 1-, 2-, 3-dimensional
            // and constant-driven workgroup sizes.
            let items: [(&str, &str, &str); 5] = [
                ("A", "a: VIn", "a.pos.x + a.uv.y"),
                ("B", "b: Inst", "b.off.x + b.scale"),
                ("Bi", "c: OnlyBuiltins", "f32(c.ii)"),
                ("bb", "@builtin(vertex_index) vx: u32", "f32(vx)"),
                ("bl", "@location(7) extra: f32", "extra"),
            ];
            let mut lists: Vec<Vec<usize>> = vec![vec![]];
            for a in 0..5 {
                lists.push(vec![a]);
                for b in 0..5 {
                    if b == a { continue; }
                    lists.push(vec![a, b]);
                    for c in 0..5 {
                        if c == a || c == b { continue; }
                        lists.push(vec![a, b, c]);
                    }
                }
            }
            let stride: usize = args.get(2).and_then(|x| x.parse().ok()).unwrap_or(1).max(1);
            let offset: usize = args.get(3).and_then(|x| x.parse().ok()).unwrap_or(0) % stride;
            for (k, l) in lists.iter().enumerate() {
                if k % stride != offset {
                    continue;
                }
                let id: Vec<&str> = l.iter().map(|&i| items[i].0).collect();
                let mut s = String::new();
                s.push_str("struct VIn { @location(0) pos: vec3<f32>, @location(1) uv: vec2<f32> }\n");
                s.push_str("struct Inst { @location(2) off: vec4<f32>, @location(5) scale: f32 }\n");
                s.push_str("struct OnlyBuiltins { @builtin(instance_index) ii: u32 }\n");
                s.push_str("struct FDense { @location(0) c0: vec4<f32>, @location(1) c1: vec4<f32> }\n");
                s.push_str("struct FSparse { @location(2) c2: vec4<f32> }\n");
                s.push_str("struct FBuiltins { @builtin(frag_depth) d: f32, @builtin(sample_mask) m: u32 }\n");
                s.push_str("struct FMixed { @builtin(frag_depth) d: f32, @location(4) c4: vec4<f32>, @location(1) c1: vec4<f32> }\n");
                s.push_str("const WG: u32 = 8u;\n");
                s.push_str("@vertex fn vs_first_without_structs() -> @builtin(position) vec4<f32> { return vec4<f32>(0.0); }\n");
                for (name, order) in [("vs_a", l.clone()), ("vs_b", l.iter().rev().cloned().collect::<Vec<_>>())] {
                    let params: Vec<&str> = order.iter().map(|&i| items[i].1).collect();
                    let uses: Vec<&str> = order.iter().map(|&i| items[i].2).collect();
                    let sum = if uses.is_empty() { "0.0".to_string() } else { uses.join(" + ") };
                    s.push_str(&format!("@vertex fn {name}({}) -> @builtin(position) vec4<f32> {{ return vec4<f32>({sum}); }}\n", params.join(", ")));
                }
                s.push_str("@vertex fn vs_last_without_structs(@builtin(vertex_index) i: u32) -> @builtin(position) vec4<f32> { return vec4<f32>(f32(i)); }\n");
                s.push_str("@fragment fn f_none() { }\n");
                s.push_str("@fragment fn f_loc0() -> @location(0) vec4<f32> { return vec4<f32>(1.0); }\n");
                s.push_str("@fragment fn f_loc3() -> @location(3) vec4<f32> { return vec4<f32>(1.0); }\n");
                s.push_str("@fragment fn f_depth() -> @builtin(frag_depth) f32 { return 0.5; }\n");
                s.push_str("@fragment fn f_dense() -> FDense { return FDense(vec4<f32>(1.0), vec4<f32>(0.0)); }\n");
                s.push_str("@fragment fn f_sparse() -> FSparse { return FSparse(vec4<f32>(1.0)); }\n");
                s.push_str("@fragment fn f_builtins() -> FBuiltins { return FBuiltins(0.5, 1u); }\n");
                s.push_str("@fragment fn f_mixed(i: FDense) -> FMixed { return FMixed(0.5, i.c0, i.c1); }\n");
                s.push_str("@compute @workgroup_size(1) fn c_1() { }\n@compute @workgroup_size(8, 4) fn c_2() { }\n@compute @workgroup_size(2, 3, 4) fn c_3() { }\n@compute @workgroup_size(WG, WG) fn c_const() { }\n");
                emit(&format!("entries:{}", if id.is_empty() { "none".to_string() } else { id.join("-") }), &s);
            }
        }
        "c11long" => {
            // groups with MANY bindings (thresholds of 16 / 32 / 64 entries) and MANY groups (two-digit indices):
            // one group of n variables, binding j repeats binding i for every i < j (n = 20), sampled pairs for n = 34 and 66;
            // dense modules of 11, 12 and 101 groups declared in descending order
            let decl = |g: u32, b: u32, i: usize| format!("@group({g}) @binding({b}) var<uniform> v{i}: vec4<f32>;\n");
            let finish = |mut s: String, n: usize| { s.push_str("@compute @workgroup_size(1) fn main() { "); for i in (0..n).step_by(7) { s.push_str(&format!("_ = v{i}; ")); } s.push_str("}\n"); s };
            for n in [20usize, 34, 66] {
                let mut s = String::new();
                for i in 0..n { s.push_str(&decl(0, i as u32, i)); }
                emit(&format!("c11long:{n}:nodup"), &finish(s, n));
                for j in 1..n {
                    for i in 0..j {
                        if n > 20 && !(i == 15 || i == 16 || i == 17 || i == 31 || i == 32 || i == 33 || i == 63 || i == 64 || i == 65 || j == i + 1 || i == 0) { continue; }
                        if n > 20 && (j % 5 != 0 && j != n - 1 && j != i + 1) { continue; }
                        let mut s = String::new();
                        for q in 0..n { s.push_str(&decl(0, if q == j { i as u32 } else { q as u32 }, q)); }
                        emit(&format!("c11long:{n}:{i}={j}"), &finish(s, n));
                    }
                }
            }
            for ng in [11usize, 12, 101] {
                let mut s = String::new();
                for g in (0..ng).rev() { s.push_str(&decl(g as u32, 0, g)); }
                emit(&format!("c11long:groups:{ng}"), &finish(s, ng));
            }
        }
        "big" => {
            // shaders whose generated module exceeds the 64 KiB pipe buffer: `count` shaders with n, n+7, .. bindings
            let n: usize = args[2].parse().unwrap();
            let count: usize = args[3].parse().unwrap();
            for k in 0..count {
                let nb = n + 7 * k;
                let mut s = String::new();
                for i in 0..nb {
                    s.push_str(&format!("struct S{k}_{i} {{ a: vec4<f32>, b: array<vec4<f32>, 2> }}\n@group(0) @binding({i}) var<uniform> u{k}_{i}: S{k}_{i};\n"));
                }
                s.push_str("@compute @workgroup_size(1) fn main() {\n");
                for i in 0..nb {
                    s.push_str(&format!("    let x{i} = u{k}_{i}.a.x;\n"));
                }
                s.push_str("}\n");
                emit(&format!("big:{nb}:{k}"), &s);
            }
        }
        "family" => {
            let n: usize = args[3].parse().unwrap();
            let src = match args[2].as_str() {
                "chain" => verif_harness::wgslgen::chain(n, false),
                "chainv" => verif_harness::wgslgen::chain(n, true),
                "diamond" => verif_harness::wgslgen::diamond(n),
                "fanout" => verif_harness::wgslgen::fanout(n),
                "nested" => verif_harness::wgslgen::nested_structs(n),
                "diamondpure" => verif_harness::wgslgen::diamond_pure(n, false),
                "diamondvoid" => verif_harness::wgslgen::diamond_pure(n, true),
                "nestedarr" => verif_harness::wgslgen::nested_struct_arrays(n),
                "nesteddeep" => verif_harness::wgslgen::nested_deep(n),
                "diamondptr" => verif_harness::wgslgen::diamond_ptr(n),
                "nestedifs" => verif_harness::wgslgen::nested_ifs(n),
                "elseif" => {
                    // a FLAT `if .. else if .. else` chain of n branches (material dispatch); every 7th branch calls a helper
                    let mut s = String::from("@group(0) @binding(0) var<uniform> u: vec4<f32>;\n@group(0) @binding(1) var<storage, read_write> out: array<f32>;\nfn touch(k: u32) { out[k] = u.x; }\nfn shade(k: u32) -> f32 { return u.y * f32(k); }\n");
                    s.push_str("@fragment fn fs(@location(0) @interpolate(flat) m: u32) -> @location(0) vec4<f32> {\n    var c = 0.0;\n    if m == 0u { c = 1.0; }");
                    for b in 1..n {
                        if b % 7 == 3 {
                            s.push_str(&format!(" else if m == {b}u {{ touch({b}u); }}"));
                        } else if b % 7 == 5 {
                            s.push_str(&format!(" else if m == {b}u {{ c = shade({b}u); }}"));
                        } else {
                            s.push_str(&format!(" else if m == {b}u {{ c = {b}.0; }}"));
                        }
                    }
                    s.push_str(" else { c = -1.0; }\n    return vec4<f32>(c);\n}\n");
                    s
                }
                "switchnest" => {
                    // n switches nested in one another, each case clause with 8 selectors (naga lowers `case 1, 2, ..` to one case
                    // per selector, all but the last empty and falling through)
                    let mut s = String::from("@group(0) @binding(0) var<storage, read_write> out: array<u32>;\nfn touch(k: u32) { out[k] = k; }\n@compute @workgroup_size(1) fn main(@builtin(global_invocation_id) id: vec3<u32>) {\n    var k = id.x;\n");
                    for d in 0..n {
                        s.push_str(&format!("{}switch k {{ case 1u, 2u, 3u, 4u, 5u, 6u, 7u, 8u: {{\n", "    ".repeat(d + 1)));
                    }
                    s.push_str(&format!("{}touch(k);\n", "    ".repeat(n + 1)));
                    for d in (0..n).rev() {
                        s.push_str(&format!("{}}} default: {{ k += 1u; }} }}\n", "    ".repeat(d + 1)));
                    }
                    s.push_str("}\n");
                    s
                }
                "overrideladder" => {
                    // override defaults derived from each other, each level mentioning the previous one twice; the last sizes a workgroup
                    let mut s = String::from("override size0: u32 = 4u;\n");
                    for l in 1..=n {
                        s.push_str(&format!("override size{l}: u32 = (size{} + size{}) / 2u;\n", l - 1, l - 1));
                    }
                    s.push_str(&format!("@group(0) @binding(0) var<storage, read_write> data: array<u32>;\n@compute @workgroup_size(size{n}, 1, 1) fn main(@builtin(global_invocation_id) id: vec3<u32>) {{ data[id.x] = size{n}; }}\n"));
                    s
                }
                other => panic!("unknown family {other}"),
            };
            emit(&format!("family:{}:{n}", args[2]), &src);
        }
        other => panic!("unknown mode {other}"),
    }
    let _ = emit_path;
}
