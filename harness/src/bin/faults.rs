//! faults: property C19 -- the external formatter is only a formatter.
//!
//!   faults --cases <file> [--cases <file>..] [--small N] [--large N] [--faults a,b,..]
//!          [--timeout SECS] [--repeat R]
//!       picks the first N cases whose token text is < 4 KiB ("small") and the first N whose token
//!       text is > 200 KiB ("large"; topped up with synthetic `synth:large:<n>` shaders), and runs
//!       every formatter fault on each of them in a child process whose PATH holds only a stub
//!       `rustfmt`.  Lines:
//!         (case "id" <small|large> <token-text-bytes> <reference-len> "<reference norm-hash>")
//!         (trial "id" <small|large> "<fault>" <outcome> <same-tokens true|modulo-empty-stmt|false|n/a> <seconds>
//!                [(returned-len n)])
//!       outcome = ok | err | (panic "msg") | hang | (crash "status")
//!       then (summary-row ...) lines, a `;;` table, and (summary ...).
//!   faults --same-program --cases <file> [--timeout SECS]
//!       (same "id" true|modulo-empty-stmt|false <rustfmt-off outcome> <rustfmt-on outcome> <formatted|raw|n/a>) per case,
//!       then (summary ...).  `modulo-empty-stmt`: equal only after deleting every `;` that directly
//!       follows `}` (prettyplease drops such empty statements, rustfmt keeps them).
//!   faults --child <fault> <case file> <index>          (internal)
//!       (child <outcome> <len> "<fnv64 of text>" "<fnv64 of facts::norm(tokens)>"|unlexable (lines <n>))
use std::io::Read;
use std::os::unix::fs::PermissionsExt;
use std::os::unix::process::{CommandExt, ExitStatusExt};
use std::panic::{catch_unwind, AssertUnwindSafe};
use std::process::{Command, Stdio};
use std::time::{Duration, Instant};
use verif_harness::{facts, run, sexp::*};

/// scratch directory of this run: unique per top-level process, inherited by re-executed children
fn proc_dir() -> String {
    if let Ok(d) = std::env::var("VERIF_PROC_DIR") {
        return d;
    }
    let d = format!("/verif/target/proc/{}", std::process::id());
    std::env::set_var("VERIF_PROC_DIR", &d);
    d
}
const SMALL_MAX: usize = 4 * 1024;
const LARGE_MIN: usize = 200 * 1024;

extern "C" {
    fn kill(pid: i32, sig: i32) -> i32;
}

/// (fault, belongs to the property's fault list)
const FAULTS: &[(&str, bool)] = &[
    ("absent", true),
    ("exit1-after-drain", true),
    ("exit1-no-read", true),
    ("exit0-no-read-empty", true),
    ("exit0-drain-empty", true),
    ("kill-self", true),
    ("kill-before-read", true),
    ("kill-after-partial-output", true),
    ("exit1-after-partial-output", true),
    ("slow-ok", true),
    ("slow-6s-ok", false),
    ("fail-once-partial-then-real", true),
    ("fail-once-long-then-real-x2", true),
    ("partial-close-stdout-linger-exit1", true),
    ("partial-close-stdout-linger-kill", true),
    ("exit1-noisy-stderr-0", true),
    ("exit1-noisy-stderr-1", true),
    ("exit1-no-read-x6", true),
    ("kill-before-read-x6", true),
    ("real-with-RUSTFMT-env", true),
    ("real-with-RUSTFMT-env-empty", true),
    ("real-with-RUSTFMT-env-blank", true),
    ("real-with-RUSTFMT-env-args", true),
    ("truncated-ok", false),
    ("garbage-ok", false),
    ("invalid-utf8-ok", true),
    ("real", true),
];

fn fnv(bytes: &[u8]) -> u64 {
    let mut h: u64 = 0xcbf29ce484222325;
    for b in bytes {
        h ^= *b as u64;
        h = h.wrapping_mul(0x100000001b3);
    }
    h
}

/// Whitespace-independent token normal form.  `facts::norm` glues a punctuation character to the
/// next one whenever they are adjacent in the text (`::<`, `&'a`), so it distinguishes `:: <` from
/// `::<`; here adjacent punctuation runs are re-split by maximal munch over Rust's operators
/// (shift operators excluded because of nested generics), lifetimes are single tokens and a comma
/// directly before a closing delimiter or `>` is dropped.
fn norm2(ts: proc_macro2::TokenStream) -> String {
    use proc_macro2::{Delimiter, Spacing, TokenTree};
    enum Leaf {
        Tok(String),
        P(char, bool),
    }
    fn go(ts: proc_macro2::TokenStream, out: &mut Vec<Leaf>) {
        for tt in ts {
            match tt {
                TokenTree::Group(g) => {
                    let (o, c) = match g.delimiter() {
                        Delimiter::Parenthesis => ("(", ")"),
                        Delimiter::Brace => ("{", "}"),
                        Delimiter::Bracket => ("[", "]"),
                        Delimiter::None => ("", ""),
                    };
                    if !o.is_empty() {
                        out.push(Leaf::Tok(o.to_string()));
                    }
                    go(g.stream(), out);
                    if !c.is_empty() {
                        out.push(Leaf::Tok(c.to_string()));
                    }
                }
                TokenTree::Ident(i) => out.push(Leaf::Tok(i.to_string())),
                TokenTree::Punct(p) => out.push(Leaf::P(p.as_char(), p.spacing() == Spacing::Joint)),
                TokenTree::Literal(l) => out.push(Leaf::Tok(l.to_string())),
            }
        }
    }
    const OPS: &[&str] = &[
        "...", "..=", "::", "->", "=>", "==", "!=", "<=", ">=", "&&", "||", "+=", "-=", "*=", "/=", "%=", "^=",
        "&=", "|=", "..",
    ];
    let mut leaves = vec![];
    go(ts, &mut leaves);
    let mut out: Vec<String> = vec![];
    let push = |out: &mut Vec<String>, t: String| {
        if matches!(t.as_str(), ")" | "]" | "}" | ">") && out.last().map(|l| l == ",").unwrap_or(false) {
            out.pop();
        }
        out.push(t);
    };
    let mut i = 0;
    while i < leaves.len() {
        match &leaves[i] {
            Leaf::Tok(t) => {
                push(&mut out, t.clone());
                i += 1;
            }
            Leaf::P(..) => {
                // maximal run of adjacent punctuation
                let mut run: Vec<char> = vec![];
                let mut lifetime: Option<String> = None;
                while i < leaves.len() {
                    match &leaves[i] {
                        Leaf::P('\'', joint) => {
                            if *joint {
                                if let Some(Leaf::Tok(id)) = leaves.get(i + 1) {
                                    lifetime = Some(format!("'{id}"));
                                    i += 2;
                                    break;
                                }
                            }
                            run.push('\'');
                            i += 1;
                            break;
                        }
                        Leaf::P(c, joint) => {
                            run.push(*c);
                            i += 1;
                            if !*joint {
                                break;
                            }
                        }
                        Leaf::Tok(_) => break,
                    }
                }
                let mut k = 0;
                while k < run.len() {
                    let rest: String = run[k..].iter().collect();
                    match OPS.iter().find(|op| rest.starts_with(**op)) {
                        Some(op) => {
                            push(&mut out, op.to_string());
                            k += op.len();
                        }
                        None => {
                            push(&mut out, run[k].to_string());
                            k += 1;
                        }
                    }
                }
                if let Some(l) = lifetime {
                    push(&mut out, l);
                }
            }
        }
    }
    out.join(" ")
}

/// Weaker form: additionally drops every `;` that directly follows `}` (empty statements after
/// block expressions, which prettyplease deletes and rustfmt keeps).
fn weak(n2: &str) -> String {
    n2.replace("} ;", "}")
}

/// (whitespace-independent norm hash, facts::norm hash, weak norm hash)
fn norm_hashes(text: &str) -> Option<(u64, u64, u64)> {
    let r = catch_unwind(AssertUnwindSafe(|| match text.parse::<proc_macro2::TokenStream>() {
        Ok(ts) => {
            let n2 = norm2(ts.clone());
            Some((fnv(n2.as_bytes()), fnv(facts::norm(ts).as_bytes()), fnv(weak(&n2).as_bytes())))
        }
        Err(_) => None,
    }));
    r.unwrap_or(None)
}

fn read_cases(path: &str) -> Vec<(String, String)> {
    let text = std::fs::read_to_string(path).unwrap_or_else(|e| panic!("cannot read {path}: {e}"));
    let mut out = vec![];
    for line in text.lines() {
        if line.trim().is_empty() {
            continue;
        }
        let parsed = parse(line).expect("bad case line");
        if let Some(Sexp::List(v)) = parsed.first() {
            if let (Some(Sexp::Str(id)), Some(Sexp::Str(src))) = (v.get(1), v.get(2)) {
                out.push((id.clone(), src.clone()));
            }
        }
    }
    out
}

fn case_line(id: &str, src: &str) -> String {
    tagged("src", vec![string(id), string(src)]).render()
}

fn which(name: &str, path: &str) -> Option<String> {
    for d in path.split(':') {
        if d.is_empty() {
            continue;
        }
        let p = format!("{d}/{name}");
        if let Ok(m) = std::fs::metadata(&p) {
            if m.is_file() && m.permissions().mode() & 0o111 != 0 {
                return Some(p);
            }
        }
    }
    None
}

/// The real formatter, resolved once from the original PATH (through rustup when it is a proxy).
fn real_rustfmt(orig_path: &str) -> Option<String> {
    if let Ok(o) = Command::new("rustup").args(["which", "rustfmt"]).stderr(Stdio::null()).output() {
        if o.status.success() {
            let p = String::from_utf8_lossy(&o.stdout).trim().to_string();
            if !p.is_empty() && std::fs::metadata(&p).is_ok() {
                return Some(p);
            }
        }
    }
    which("rustfmt", orig_path)
}

fn stub_script(fault: &str, real: &str, cat: &str, head: &str, sleep: &str) -> Option<String> {
    // `<fault>-x6`: the same stub, but ONE generator process makes six calls in a row (what a failure leaks adds up)
    let fault = fault.strip_suffix("-x6").unwrap_or(fault);
    let body = match fault {
        "absent" => return None,
        "exit1-after-drain" => format!("{cat} >/dev/null\nexit 1\n"),
        "exit1-no-read" => "exit 1\n".to_string(),
        "exit0-no-read-empty" => "exit 0\n".to_string(),
        "exit0-drain-empty" => format!("{cat} >/dev/null\nexit 0\n"),
        "kill-self" => format!("{head} -c 16 >/dev/null\nkill -9 $$\n"),
        "kill-before-read" => "kill -9 $$\n".to_string(),
        // killed / failing AFTER it already printed a prefix of the formatted text
        "kill-after-partial-output" => format!("{cat} >/dev/null\nprintf 'pub const SOURCE'\nkill -9 $$\n"),
        "exit1-after-partial-output" => format!("{cat} >/dev/null\nprintf 'pub const SOURCE'\nexit 1\n"),
        "slow-ok" => format!("{sleep} 2\nexec {real} \"$@\"\n"),
        // only run on request (`--faults`): a formatter that needs longer than a generator-side time limit might allow
        "slow-6s-ok" => format!("{sleep} 6\nexec {real} \"$@\"\n"),
        // the FIRST invocation by one generator process prints a prefix and dies, later ones work: a generator that retries must not
        // keep what the failed run printed (the unchanged code calls the formatter once and falls back)
        "fail-once-partial-then-real" => format!(
            "f=\"$0.seen.$PPID\"\nif [ -e \"$f\" ]; then exec {real} \"$@\"; fi\n: > \"$f\"\n{cat} >/dev/null\nprintf 'pub const SOURCE'\nkill -9 $$\n"
        ),
        // two calls in one process: the formatter of the first prints a LONG text and fails, the second works - whatever scratch space
        // the generator keeps the formatter's output in must not carry the failed run's text into the next result
        "fail-once-long-then-real-x2" => format!(
            "f=\"$0.seen.$PPID\"\nif [ -e \"$f\" ]; then exec {real} \"$@\"; fi\n: > \"$f\"\n{cat} >/dev/null\ni=0\nwhile [ $i -lt 6000 ]; do printf 'pub const STALE_%s: u32 = %s;\\n' $i $i; i=$((i+1)); done\nexit 1\n"
        ),
        // reads everything, prints a partial text, CLOSES its stdout and only a second later fails / is killed: end-of-file on the
        // pipe is not the end of the process
        "partial-close-stdout-linger-exit1" => format!("{cat} >/dev/null\nprintf 'pub struct Partial {{ pub a: u32,'\nexec 1>&-\n{sleep} 1\nexit 1\n"),
        "partial-close-stdout-linger-kill" => format!("{cat} >/dev/null\nprintf 'pub struct Partial {{ pub a: u32,'\nexec 1>&-\n{sleep} 1\nkill -9 $$\n"),
        // fails after reading, with a long non-ASCII diagnostic on stderr (2-, 3- and 4-byte characters; the two variants shift every
        // character boundary by one byte): whatever the generator does with the formatter's stderr must not matter
        "exit1-noisy-stderr-0" | "exit1-noisy-stderr-1" => {
            let prefix = if fault.ends_with('1') { "E" } else { "" };
            let noise = format!("{prefix}{}{}{}", "\u{e9}".repeat(150), "\u{65e5}\u{672c}".repeat(80), "\u{1f600}".repeat(60));
            format!("{cat} >/dev/null\nprintf '%s\\n' '{noise}' >&2\nprintf '%s\\n' 'error: {noise}' >&2\nexit 1\n")
        }
        "truncated-ok" => format!("{real} \"$@\" | {head} -c 100\nexit 0\n"),
        "garbage-ok" => format!("{cat} >/dev/null\nprintf 'fn ('\nexit 0\n"),
        "invalid-utf8-ok" => format!("{cat} >/dev/null\nprintf '\\377\\376'\nexit 0\n"),
        "real" => format!("exec {real} \"$@\"\n"),
        f if f.starts_with("real-with-RUSTFMT-env") => format!("exec {real} \"$@\"\n"),
        other => panic!("unknown fault {other}"),
    };
    Some(format!("#!/bin/sh\n{body}"))
}

fn make_stub_dir(fault: &str, orig_path: &str, real: &str) -> String {
    let dir = format!("{}/stubs/{fault}", proc_dir());
    let _ = std::fs::remove_dir_all(&dir);
    std::fs::create_dir_all(&dir).unwrap();
    let tool = |n: &str| which(n, "/bin:/usr/bin").or_else(|| which(n, orig_path)).unwrap_or_else(|| panic!("no {n}"));
    if let Some(s) = stub_script(fault, real, &tool("cat"), &tool("head"), &tool("sleep")) {
        let p = format!("{dir}/rustfmt");
        std::fs::write(&p, s).unwrap();
        std::fs::set_permissions(&p, std::fs::Permissions::from_mode(0o755)).unwrap();
        if fault == "real-with-RUSTFMT-env" {
            // the variable `cargo fmt` / bindgen honour points at a formatter that prints garbage: the generator's formatter is `rustfmt` on PATH
            let g = format!("{dir}/garbage_formatter");
            std::fs::write(&g, format!("#!/bin/sh\n{} >/dev/null\nprintf 'fn ('\nexit 0\n", tool("cat"))).unwrap();
            std::fs::set_permissions(&g, std::fs::Permissions::from_mode(0o755)).unwrap();
        }
    }
    dir
}

#[derive(Clone, Debug)]
struct ChildResult {
    outcome: Sexp, // ok | err | (panic "m") | hang | (crash "status")
    len: usize,
    norm: Option<String>, // Some(hex) | None (unlexable / not ok)
    lines: usize,
    facts_norm: Option<String>,
    weak_norm: Option<String>,
    err_msg: String,
    secs: f64,
}

fn outcome_name(o: &Sexp) -> String {
    match o {
        Sexp::Atom(a) => a.clone(),
        Sexp::List(v) => match v.first() {
            Some(Sexp::Atom(a)) => a.clone(),
            _ => "?".into(),
        },
        Sexp::Str(s) => s.clone(),
    }
}

fn run_child(path_env: &str, fault: &str, file: &str, index: usize, timeout: Duration) -> ChildResult {
    let exe = std::env::current_exe().unwrap();
    let t0 = Instant::now();
    let mut child = Command::new(exe)
        .args(["--child", fault, file, &index.to_string()])
        .env("PATH", path_env)
        .env("FAULTS_REPEAT", if fault.ends_with("-x6") { "6" } else if fault.ends_with("-x2") { "2" } else { "1" })
        .env("FAULTS_REPEAT_MODE", if fault.contains("-then-real-x") { "last" } else { "all-equal" })
        // the variable `cargo fmt` / bindgen honour: pointing at a formatter that prints garbage, empty, blank, or a command with
        // arguments that would change the formatting; the generator's formatter is `rustfmt` on PATH whatever it says
        .env("FAULTS_RUSTFMT", match fault {
            "real-with-RUSTFMT-env" => format!("value:{}/garbage_formatter", path_env.split(':').next().unwrap_or("")),
            "real-with-RUSTFMT-env-empty" => "value:".to_string(),
            "real-with-RUSTFMT-env-blank" => "value:   ".to_string(),
            "real-with-RUSTFMT-env-args" => "value:rustfmt --config hard_tabs=true,max_width=40".to_string(),
            _ => "unset".to_string(),
        })
        .stdin(Stdio::null())
        .stdout(Stdio::piped())
        .stderr(Stdio::null())
        .process_group(0)
        .spawn()
        .expect("spawn child");
    let pid = child.id() as i32;
    let mut so = child.stdout.take().unwrap();
    let reader = std::thread::spawn(move || {
        let mut s = String::new();
        let _ = so.read_to_string(&mut s);
        s
    });
    let mut hung = false;
    let status = loop {
        match child.try_wait().unwrap() {
            Some(st) => break st,
            None => {
                if t0.elapsed() > timeout {
                    hung = true;
                    unsafe { kill(-pid, 9) };
                    break child.wait().unwrap();
                }
                std::thread::sleep(Duration::from_millis(5));
            }
        }
    };
    let secs = t0.elapsed().as_secs_f64();
    // reap stray stubs of this trial
    unsafe { kill(-pid, 9) };
    let out = reader.join().unwrap_or_default();
    if hung {
        return ChildResult { outcome: atom("hang"), len: 0, norm: None, lines: 0, facts_norm: None, weak_norm: None, err_msg: String::new(), secs };
    }
    let parsed = out.lines().rev().find(|l| l.starts_with("(child ")).and_then(parse);
    if let Some(v) = parsed {
        if let Some(Sexp::List(v)) = v.first() {
            let outcome = v.get(1).cloned().unwrap_or(atom("?"));
            let len = match v.get(2) {
                Some(Sexp::Atom(a)) => a.parse().unwrap_or(0),
                _ => 0,
            };
            let norm = match v.get(4) {
                Some(Sexp::Str(s)) => Some(s.clone()),
                _ => None,
            };
            let lines = match v.get(5) {
                Some(Sexp::List(l)) => match l.get(1) {
                    Some(Sexp::Atom(a)) => a.parse().unwrap_or(0),
                    _ => 0,
                },
                _ => 0,
            };
            let facts_norm = match v.get(6) {
                Some(Sexp::List(l)) => match l.get(1) {
                    Some(Sexp::Str(a)) => Some(a.clone()),
                    _ => None,
                },
                _ => None,
            };
            let weak_norm = match v.get(7) {
                Some(Sexp::List(l)) => match l.get(1) {
                    Some(Sexp::Str(a)) => Some(a.clone()),
                    _ => None,
                },
                _ => None,
            };
            let err_msg = match v.get(3) {
                Some(Sexp::Str(a)) => a.clone(),
                _ => String::new(),
            };
            return ChildResult { outcome, len, norm, lines, facts_norm, weak_norm, err_msg, secs };
        }
    }
    let st = match (status.code(), status.signal()) {
        (Some(c), _) => format!("exit {c}"),
        (None, Some(s)) => format!("signal {s}"),
        _ => "unknown".to_string(),
    };
    ChildResult { outcome: tagged("crash", vec![string(st)]), len: 0, norm: None, lines: 0, facts_norm: None, weak_norm: None, err_msg: String::new(), secs }
}

/// the option set of this run, rustfmt aside: FAULTS_OPT_INDEX (run::Opts::from_index), default = WriteOptions::default()
fn base_options() -> wgsl_to_wgpu::WriteOptions {
    match std::env::var("FAULTS_OPT_INDEX").ok().and_then(|v| v.parse::<usize>().ok()) {
        Some(i) => wgsl_to_wgpu::WriteOptions { rustfmt: false, ..run::Opts::from_index(i % 96).to_write_options() },
        None => wgsl_to_wgpu::WriteOptions::default(),
    }
}

fn child_main(file: &str, index: usize) {
    run::silence_panics();
    let cases = read_cases(file);
    let (_, src) = &cases[index];
    let wo = wgsl_to_wgpu::WriteOptions { rustfmt: true, ..base_options() };
    match std::env::var("FAULTS_RUSTFMT").ok().as_deref().and_then(|v| v.strip_prefix("value:")) {
        Some(v) => std::env::set_var("RUSTFMT", v),
        None => std::env::remove_var("RUSTFMT"),
    }
    let repeat: usize = std::env::var("FAULTS_REPEAT").ok().and_then(|v| v.parse().ok()).unwrap_or(1);
    let mut r = catch_unwind(AssertUnwindSafe(|| wgsl_to_wgpu::create_shader_module_embedded(src, wo)));
    for k in 1..repeat {
        let again = catch_unwind(AssertUnwindSafe(|| wgsl_to_wgpu::create_shader_module_embedded(src, wo)));
        let same = match (&r, &again) {
            (Ok(Ok(a)), Ok(Ok(b))) => a == b,
            (Ok(Err(a)), Ok(Err(b))) => format!("{a}") == format!("{b}"),
            (Err(_), Err(_)) => true,
            _ => false,
        };
        // `last`: the calls are expected to differ in formatting (the first formatter run fails); only the LAST result is judged
        if !same && std::env::var("FAULTS_REPEAT_MODE").as_deref() != Ok("last") {
            println!("{}", tagged("child", vec![tagged("panic", vec![string(format!("call {} of {} in one process gives another result than the first", k + 1, repeat))]), nat(0u32), string(""), atom("n/a")]).render());
            return;
        }
        r = again;
    }
    let line = match r {
        Ok(Ok(text)) => {
            if let Ok(p) = std::env::var("FAULTS_DUMP") {
                let _ = std::fs::write(p, &text);
            }
            let hs = norm_hashes(&text);
            let nh = match hs {
                Some(h) => string(format!("{:016x}", h.0)),
                None => atom("unlexable"),
            };
            let fh = match hs {
                Some(h) => string(format!("{:016x}", h.1)),
                None => atom("unlexable"),
            };
            let wh = match hs {
                Some(h) => string(format!("{:016x}", h.2)),
                None => atom("unlexable"),
            };
            tagged(
                "child",
                vec![
                    atom("ok"),
                    nat(text.len() as u64),
                    string(format!("{:016x}", fnv(text.as_bytes()))),
                    nh,
                    tagged("lines", vec![nat(text.lines().count() as u64)]),
                    tagged("facts-norm", vec![fh]),
                    tagged("weak-norm", vec![wh]),
                ],
            )
        }
        Ok(Err(e)) => tagged("child", vec![atom("err"), nat(0u32), string(format!("{e}")), atom("n/a")]),
        Err(p) => tagged(
            "child",
            vec![tagged("panic", vec![string(run::panic_message(p))]), nat(0u32), string(""), atom("n/a")],
        ),
    };
    println!("{}", line.render());
}

/// Reference computed in-process with the formatter option off.
#[derive(Clone)]
struct RefOk {
    raw_len: usize, // size of the token text (what is piped to the formatter)
    ref_len: usize,
    norm: String,
    facts: String,
    weak: String,
}
enum RefOut {
    Ok(RefOk),
    Err(String),
    Panic(String),
    Unlexable,
}

fn reference(src: &str) -> RefOut {
    let wo = base_options();
    let r = catch_unwind(AssertUnwindSafe(|| wgsl_to_wgpu::create_shader_module_embedded(src, wo)));
    match r {
        Ok(Ok(text)) => {
            let ts: proc_macro2::TokenStream = match text.parse() {
                Ok(t) => t,
                Err(_) => return RefOut::Unlexable,
            };
            let raw_len = ts.to_string().len();
            let fh = fnv(facts::norm(ts.clone()).as_bytes());
            let n2 = norm2(ts);
            RefOut::Ok(RefOk {
                raw_len,
                ref_len: text.len(),
                norm: format!("{:016x}", fnv(n2.as_bytes())),
                facts: format!("{fh:016x}"),
                weak: format!("{:016x}", fnv(weak(&n2).as_bytes())),
            })
        }
        Ok(Err(e)) => RefOut::Err(format!("{e}")),
        Err(p) => RefOut::Panic(run::panic_message(p)),
    }
}

/// "true" | "modulo-empty-stmt" | "false"
fn compare(r: &RefOk, c: &ChildResult) -> &'static str {
    if c.norm.as_deref() == Some(r.norm.as_str()) {
        "true"
    } else if c.weak_norm.as_deref() == Some(r.weak.as_str()) {
        "modulo-empty-stmt"
    } else {
        "false"
    }
}

const SYNTH_SMALL: &[&str] = &[
    "@compute @workgroup_size(1)\nfn main() {}\n",
    "@fragment\nfn fs_main() -> @location(0) vec4<f32> {\n    return vec4<f32>(1.0);\n}\n",
    "struct VsIn { @location(0) p: vec2<f32> }\n@vertex\nfn vs_main(i: VsIn) -> @builtin(position) vec4<f32> {\n    return vec4<f32>(i.p, 0.0, 1.0);\n}\n",
    "struct U { x: f32 }\n@group(0) @binding(0) var<uniform> u: U;\n@compute @workgroup_size(1)\nfn main() { let y = u.x; }\n",
    "const K: f32 = 2.0;\n@compute @workgroup_size(2, 2, 1)\nfn main() {}\n",
];

/// Always selected (small): a source whose TEXT is full of what a text-level clean-up of the fallback output
/// (re-spacing, line splitting, re-escaping) would damage inside the `SOURCE` string literal: punctuation
/// followed by blanks, runs of blanks, tabs, CR LF, quotes and backslashes in comments, Rust-looking text,
/// a non-ASCII identifier.
const TRICKY_SOURCE: &str = "// \"quoted\" \\ back\\slash :: <T> pub fn x ( ) { ; }  'a' wgpu :: ShaderStages # [derive (Debug)] & 'static -> => . , ;\r\nstruct P { a: f32, b: vec2<f32> }   \n@group(0) @binding(0) var<uniform> p: P;\n@compute @workgroup_size(1)\nfn main() {\tvar s = 0.0; for (var i = 0u; i < 4u; i++) { s += p.a; } ; { } var \u{394}t = s; }\n";

/// Always selected (large): ~250 KB of 3-byte characters in a comment of the embedded source - every fixed-size read of the
/// formatter's output cuts through a character somewhere
fn large_unicode_source() -> String {
    let mut s = String::from("// ");
    s.push_str(&"\u{65e5}\u{672c}\u{8a9e}\u{306e}\u{30c6}\u{30ad}\u{30b9}\u{30c8}".repeat(10500));
    s.push_str("\nstruct \u{3b1}\u{3b2} { \u{3b3}: vec4<f32> }\n@group(0) @binding(0) var<uniform> \u{3b4}: \u{3b1}\u{3b2};\n@compute @workgroup_size(1)\nfn main() { _ = \u{3b4}.\u{3b3}; }\n");
    s
}

fn synth_large(n: usize) -> String {
    let mut s = String::new();
    for i in 0..n {
        s.push_str(&format!(
            "struct Big{i} {{\n    a: vec4<f32>,\n    b: mat4x4<f32>,\n    c: array<vec4<f32>, 4>,\n    d: u32,\n    e: vec3<i32>,\n}}\n"
        ));
        s.push_str(&format!(
            "@group({}) @binding({}) var<storage, read_write> big{i}: Big{i};\n",
            i / 64,
            i % 64
        ));
    }
    s.push_str("@compute @workgroup_size(64, 1, 1)\nfn main(@builtin(global_invocation_id) id: vec3<u32>) {\n");
    for i in 0..n {
        s.push_str(&format!("    big{i}.d = id.x;\n"));
    }
    s.push_str("}\n");
    s
}

fn main() {
    let args: Vec<String> = std::env::args().collect();
    if args.get(1).map(|s| s.as_str()) == Some("--child") {
        child_main(&args[3], args[4].parse().unwrap());
        return;
    }
    if args.get(1).map(|s| s.as_str()) == Some("--ref") {
        // debugging aid: print the formatter-off text of one case
        let cases = read_cases(&args[2]);
        let (_, src) = &cases[args[3].parse::<usize>().unwrap()];
        let t = wgsl_to_wgpu::create_shader_module_embedded(src, Default::default()).unwrap();
        print!("{t}");
        return;
    }
    run::silence_panics();
    let mut files: Vec<String> = vec![];
    let mut n_small = 3usize;
    let mut n_large = 3usize;
    let mut timeout = 20.0f64;
    let mut repeat = 1usize;
    let mut same_program = false;
    // the default list leaves out the faults that are only run on request
    let mut faults: Vec<String> = FAULTS.iter().map(|f| f.0.to_string()).filter(|f| f != "slow-6s-ok").collect();
    let mut i = 1;
    while i < args.len() {
        match args[i].as_str() {
            "--cases" => {
                files.push(args[i + 1].clone());
                i += 1;
            }
            "--small" => {
                n_small = args[i + 1].parse().unwrap();
                i += 1;
            }
            "--large" => {
                n_large = args[i + 1].parse().unwrap();
                i += 1;
            }
            "--timeout" => {
                timeout = args[i + 1].parse().unwrap();
                i += 1;
            }
            "--repeat" => {
                repeat = args[i + 1].parse().unwrap();
                i += 1;
            }
            "--faults" => {
                faults = args[i + 1].split(',').map(|s| s.to_string()).collect();
                i += 1;
            }
            "--same-program" => same_program = true,
            other => panic!("unknown arg {other}"),
        }
        i += 1;
    }
    let timeout = Duration::from_secs_f64(timeout);
    let orig_path = std::env::var("PATH").unwrap_or_default();
    let real = real_rustfmt(&orig_path).expect("no real rustfmt on PATH");
    std::fs::create_dir_all(proc_dir()).unwrap();
    let mut all: Vec<(String, String)> = vec![];
    for f in &files {
        all.extend(read_cases(f));
    }

    if same_program {
        // child with PATH = a directory holding only the real formatter (baked path) + the original PATH
        let dir = make_stub_dir("real", &orig_path, &real);
        let path_env = format!("{dir}:{orig_path}");
        let file = format!("{}/faults_same_cases.sexp", proc_dir());
        let text: String = all.iter().map(|(id, s)| case_line(id, s) + "\n").collect();
        std::fs::write(&file, text).unwrap();
        let (mut t, mut m, mut f, mut na, mut raw, mut facts_norm_differs) = (0, 0, 0, 0, 0, 0);
        for (idx, (id, src)) in all.iter().enumerate() {
            let r = reference(src);
            let c = run_child(&path_env, "real", &file, idx, timeout);
            let oname = outcome_name(&c.outcome);
            // formatted output has many lines; the raw fallback is a single line
            let shape = if oname == "ok" {
                if c.lines > 1 { "formatted" } else { "raw" }
            } else {
                "n/a"
            };
            let child_msg = match &c.outcome {
                Sexp::List(v) => match v.get(1) {
                    Some(Sexp::Str(m)) => m.clone(),
                    _ => String::new(),
                },
                _ => c.err_msg.clone(),
            };
            let same = match (&r, oname.as_str()) {
                (RefOut::Ok(r), "ok") => compare(r, &c),
                (RefOut::Err(e), "err") if *e == child_msg => "true",
                (RefOut::Panic(p), "panic") if *p == child_msg => "true",
                _ => "false",
            };
            if !matches!(r, RefOut::Ok(_)) {
                na += 1;
            }
            if let (RefOut::Ok(r), Some(f)) = (&r, &c.facts_norm) {
                if same == "true" && &r.facts != f {
                    facts_norm_differs += 1;
                }
            }
            if shape == "raw" {
                raw += 1;
            }
            match same {
                "true" => t += 1,
                "modulo-empty-stmt" => m += 1,
                _ => f += 1,
            }
            let off = match &r {
                RefOut::Ok(_) => atom("ok"),
                RefOut::Err(e) => tagged("err", vec![string(e)]),
                RefOut::Panic(m) => tagged("panic", vec![string(m)]),
                RefOut::Unlexable => atom("ok-unlexable"),
            };
            let on = if oname == "err" { tagged("err", vec![string(&c.err_msg)]) } else { c.outcome.clone() };
            println!("{}", tagged("same", vec![string(id), atom(same), off, on, atom(shape)]).render());
        }
        println!(
            "(summary (cases {}) (same {t}) (same-modulo-empty-stmt {m}) (different {f}) (reference-not-ok {na}) (raw-fallbacks {raw}) (same-but-facts-norm-differs {facts_norm_differs}) (rustfmt \"{real}\"))",
            all.len()
        );
        return;
    }

    // --- select cases
    let mut selected: Vec<(String, String, &'static str, RefOk)> = vec![];
    let (mut ns, mut nl) = (0, 0);
    for (id, src) in &all {
        if ns >= n_small && nl >= n_large {
            break;
        }
        if let RefOut::Ok(r) = reference(src) {
            if r.raw_len < SMALL_MAX && ns < n_small {
                selected.push((id.clone(), src.clone(), "small", r));
                ns += 1;
            } else if r.raw_len > LARGE_MIN && nl < n_large {
                selected.push((id.clone(), src.clone(), "large", r));
                nl += 1;
            }
        }
    }
    if let RefOut::Ok(r) = reference(TRICKY_SOURCE) {
        selected.push(("synth:tricky-source".to_string(), TRICKY_SOURCE.to_string(), "small", r));
    }
    if n_large > 0 {
        let lu = large_unicode_source();
        if let RefOut::Ok(r) = reference(&lu) {
            selected.push(("synth:large-unicode".to_string(), lu, "large", r));
        }
    }
    for (k, src) in SYNTH_SMALL.iter().enumerate() {
        if ns >= n_small {
            break;
        }
        if let RefOut::Ok(r) = reference(src) {
            if r.raw_len < SMALL_MAX {
                selected.push((format!("synth:small:{k}"), src.to_string(), "small", r));
                ns += 1;
            }
        }
    }
    let mut n = 150;
    while nl < n_large {
        let src = synth_large(n);
        if let RefOut::Ok(r) = reference(&src) {
            if r.raw_len > LARGE_MIN {
                selected.push((format!("synth:large:{n}"), src, "large", r));
                nl += 1;
            }
        }
        n += 150;
        if n > 5000 {
            break;
        }
    }
    selected.sort_by_key(|s| s.2 == "large");
    let file = format!("{}/faults_cases.sexp", proc_dir());
    let text: String = selected.iter().map(|s| case_line(&s.0, &s.1) + "\n").collect();
    std::fs::write(&file, text).unwrap();
    for s in &selected {
        println!(
            "{}",
            tagged(
                "case",
                vec![string(&s.0), atom(s.2), nat(s.3.raw_len as u64), nat(s.3.ref_len as u64), string(&s.3.norm)]
            )
            .render()
        );
    }

    // --- trials
    // rows: fault, size -> list of (outcome name, same)
    let mut rows: Vec<(String, &'static str, Vec<(String, String)>)> = vec![];
    for fault in &faults {
        let dir = make_stub_dir(fault, &orig_path, &real);
        for (idx, s) in selected.iter().enumerate() {
            for _ in 0..repeat {
                let c = run_child(&dir, fault, &file, idx, timeout);
                let oname = outcome_name(&c.outcome);
                let same = if oname == "ok" { compare(&s.3, &c) } else { "n/a" };
                let mut items = vec![string(&s.0), atom(s.2), string(fault), c.outcome.clone(), atom(same)];
                items.push(atom(format!("{:.3}", c.secs)));
                if oname == "ok" {
                    // fnv64 of the returned text (byte-level identity across faults that must not change the formatted text, C18)
                    items.push(tagged("text-hash", vec![string(&c.err_msg)]));
                }
                if oname == "ok" && same == "false" {
                    items.push(tagged("returned-len", vec![nat(c.len as u64)]));
                }
                println!("{}", tagged("trial", items).render());
                let key = match (oname.as_str(), same) {
                    ("ok", "true") => "ok-same".to_string(),
                    ("ok", "modulo-empty-stmt") => "ok-same-modulo-empty-stmt".to_string(),
                    ("ok", _) => {
                        if c.len == 0 { "ok-EMPTY".to_string() } else { "ok-DIFFERENT".to_string() }
                    }
                    (o, _) => o.to_string(),
                };
                let detail = match &c.outcome {
                    Sexp::List(v) => match v.get(1) {
                        Some(Sexp::Str(m)) => m.clone(),
                        _ => String::new(),
                    },
                    _ => String::new(),
                };
                match rows.iter_mut().find(|r| &r.0 == fault && r.1 == s.2) {
                    Some(r) => r.2.push((key, detail)),
                    None => rows.push((fault.clone(), s.2, vec![(key, detail)])),
                }
            }
        }
    }

    // --- summary
    let mut table = vec![format!("{:<22} {:<6} {:<44} {}", "fault", "size", "outcomes", "verdict")];
    let (mut n_pass, mut n_viol, mut n_beyond) = (0, 0, 0);
    for (fault, size, outs) in &rows {
        let in_prop = FAULTS.iter().find(|f| f.0 == fault).map(|f| f.1).unwrap_or(true);
        let mut hist: Vec<(String, usize)> = vec![];
        for (k, _) in outs {
            match hist.iter_mut().find(|h| &h.0 == k) {
                Some(h) => h.1 += 1,
                None => hist.push((k.clone(), 1)),
            }
        }
        let all_ok = outs.iter().all(|o| o.0 == "ok-same");
        let all_ok_weak = outs.iter().all(|o| o.0.starts_with("ok-same"));
        let verdict = if all_ok {
            n_pass += 1;
            "pass"
        } else if all_ok_weak {
            n_pass += 1;
            "pass-modulo-empty-stmt"
        } else if in_prop {
            n_viol += 1;
            "VIOLATION"
        } else {
            n_beyond += 1;
            "beyond-property"
        };
        let detail = outs.iter().find(|o| !o.1.is_empty()).map(|o| o.1.clone()).unwrap_or_default();
        let hs: Vec<String> = hist.iter().map(|(k, n)| format!("{k}={n}")).collect();
        let mut items = vec![string(fault), atom(*size)];
        items.push(tagged("outcomes", hist.iter().map(|(k, n)| list(vec![atom(k), nat(*n as u64)])).collect()));
        items.push(atom(verdict));
        if !detail.is_empty() {
            items.push(string(&detail));
        }
        println!("{}", tagged("summary-row", items).render());
        let short: String = detail.chars().take(70).collect();
        table.push(format!("{:<22} {:<6} {:<44} {} {}", fault, size, hs.join(" "), verdict, short));
    }
    for l in &table {
        println!(";; {l}");
    }
    println!(
        "(summary (cases {}) (faults {}) (rows-pass {n_pass}) (rows-violation {n_viol}) (rows-beyond-property {n_beyond}) (rustfmt \"{real}\"))",
        selected.len(),
        faults.len()
    );
}
