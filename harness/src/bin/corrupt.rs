//! corrupt: property C17 -- rejected sources come back as errors, never as panics.
//!
//!   corrupt --cases <file> [--cases <file>..] --seed S --per-case K [--kinds a,b,..] [--quiet-ok]
//!   (run with 2>/dev/null: the emit_to_stderr* methods are exercised too)
//!
//! For every base case K corrupted variants are derived from a splitmix64 stream seeded by
//! (S, case index, k).  For each variant naga is called directly to obtain the expected class
//!   parse-error (front end rejects) | validation-error (validator rejects, all flags, all capabilities) |
//!   valid | naga-panic
//! and the real `create_shader_module_embedded` is called with validation off and on.  Expectations:
//!   parse-error      => off and on both Err(ParseError) with naga's message()
//!   validation-error => on is Err(ValidationError) with naga's Display text; off: anything (recorded)
//!   valid            => on and off give the same class and byte-identical text / Display
//! and for every Err the four emit_* methods must not panic, the string forms must be non-empty, contain
//! the path, and equal naga's own emit_to_string for parse and validation errors.
//! Lines:
//!   (corrupt "base id" <k> "<kind>" <naga class> <off class> <on class> <verdict ok|inherited-panic|"what is wrong">)
//!   (panic "base id" <k> "msg" "<corrupted source>" <off|on> <naga class> <new|inherited-from-base>)
//!        inherited-from-base: the uncorrupted case panics with the same message (known generator defect)
//!   (skipped-base "base id" "why")       base cases naga does not accept are not corrupted
//!   (emit-panic "base id" <k> "<method>" "msg" "<corrupted source>")
//!   (summary ...)
//! outcome classes: ok | err-parse | err-validation | err-duplicate | err-nonconsecutive | err-other | panic
use std::collections::BTreeMap;
use std::panic::{catch_unwind, AssertUnwindSafe};
use verif_harness::{run, sexp::*};
use wgsl_to_wgpu::{CreateModuleError, ValidationOptions, WriteOptions};

// ---------------------------------------------------------------- utilities

struct Rng(u64);
impl Rng {
    fn next(&mut self) -> u64 {
        self.0 = self.0.wrapping_add(0x9E3779B97F4A7C15);
        let mut z = self.0;
        z = (z ^ (z >> 30)).wrapping_mul(0xBF58476D1CE4E5B9);
        z = (z ^ (z >> 27)).wrapping_mul(0x94D049BB133111EB);
        z ^ (z >> 31)
    }
    fn below(&mut self, n: usize) -> usize {
        if n == 0 {
            0
        } else {
            (self.next() % n as u64) as usize
        }
    }
    fn pick<'a, T>(&mut self, v: &'a [T]) -> &'a T {
        &v[self.below(v.len())]
    }
}

fn read_cases(path: &str) -> Vec<(String, String)> {
    let text = std::fs::read_to_string(path).unwrap_or_else(|e| panic!("cannot read {path}: {e}"));
    let mut out = vec![];
    for line in text.lines() {
        if line.trim().is_empty() {
            continue;
        }
        let parsed = parse(line).expect("bad case line");
        if let Some(Sexp::List(v)) = parsed.first() {
            if let (Some(Sexp::Str(id)), Some(Sexp::Str(src))) = (v.get(1), v.get(2)) {
                out.push((id.clone(), src.clone()));
            }
        }
    }
    out
}

// ---------------------------------------------------------------- token-ish lexer for WGSL text

#[derive(Clone, Copy, PartialEq, Eq, Debug)]
enum Tk {
    Ident,
    Num,
    Punct,
    Ws,
    Comment,
}

#[derive(Clone, Copy, Debug)]
struct Tok {
    s: usize,
    e: usize,
    k: Tk,
}

fn lex(src: &str) -> Vec<Tok> {
    let cs: Vec<(usize, char)> = src.char_indices().collect();
    let end_of = |i: usize| if i < cs.len() { cs[i].0 } else { src.len() };
    let mut out = vec![];
    let mut i = 0;
    while i < cs.len() {
        let (s, c) = cs[i];
        let start = i;
        let k;
        if c.is_whitespace() {
            while i < cs.len() && cs[i].1.is_whitespace() {
                i += 1;
            }
            k = Tk::Ws;
        } else if c == '/' && i + 1 < cs.len() && cs[i + 1].1 == '/' {
            while i < cs.len() && cs[i].1 != '\n' {
                i += 1;
            }
            k = Tk::Comment;
        } else if c == '/' && i + 1 < cs.len() && cs[i + 1].1 == '*' {
            i += 2;
            let mut depth = 1;
            while i < cs.len() && depth > 0 {
                if cs[i].1 == '*' && i + 1 < cs.len() && cs[i + 1].1 == '/' {
                    depth -= 1;
                    i += 2;
                } else if cs[i].1 == '/' && i + 1 < cs.len() && cs[i + 1].1 == '*' {
                    depth += 1;
                    i += 2;
                } else {
                    i += 1;
                }
            }
            k = Tk::Comment;
        } else if c.is_alphabetic() || c == '_' {
            while i < cs.len() && (cs[i].1.is_alphanumeric() || cs[i].1 == '_') {
                i += 1;
            }
            k = Tk::Ident;
        } else if c.is_ascii_digit() {
            while i < cs.len() && (cs[i].1.is_ascii_alphanumeric() || cs[i].1 == '.') {
                i += 1;
            }
            k = Tk::Num;
        } else {
            i += 1;
            k = Tk::Punct;
        }
        let _ = start;
        out.push(Tok { s, e: end_of(i), k });
    }
    out
}

fn text<'a>(src: &'a str, t: &Tok) -> &'a str {
    &src[t.s..t.e]
}

fn solid(toks: &[Tok]) -> Vec<usize> {
    toks.iter().enumerate().filter(|(_, t)| !matches!(t.k, Tk::Ws | Tk::Comment)).map(|(i, _)| i).collect()
}

fn splice(src: &str, s: usize, e: usize, with: &str) -> String {
    format!("{}{}{}", &src[..s], with, &src[e..])
}

const KEYWORDS: &[&str] = &[
    "fn", "struct", "var", "let", "return", "if", "else", "loop", "for", "while", "switch", "break", "continue",
    "const", "override", "true", "false", "discard", "enable", "alias", "case", "default", "continuing",
];
const BUILTIN_WORDS: &[&str] = &[
    "f32", "u32", "i32", "bool", "f16", "vec2", "vec3", "vec4", "mat2x2", "mat2x3", "mat2x4", "mat3x2", "mat3x3",
    "mat3x4", "mat4x2", "mat4x3", "mat4x4", "array", "atomic", "ptr", "sampler", "sampler_comparison", "texture_2d",
    "uniform", "storage", "read", "read_write", "write", "private", "workgroup", "function", "push_constant",
    "group", "binding", "location", "builtin", "vertex", "fragment", "compute", "workgroup_size", "position",
    "align", "size", "interpolate", "flat", "linear", "perspective",
];

/// identifiers of the source that are user names (not keywords / predeclared words)
fn user_idents(src: &str, toks: &[Tok]) -> Vec<usize> {
    toks.iter()
        .enumerate()
        .filter(|(_, t)| {
            t.k == Tk::Ident && {
                let w = text(src, t);
                !KEYWORDS.contains(&w) && !BUILTIN_WORDS.contains(&w)
            }
        })
        .map(|(i, _)| i)
        .collect()
}

/// positions (byte offsets) where a struct member starts
fn struct_member_starts(src: &str, toks: &[Tok]) -> Vec<usize> {
    let sol = solid(toks);
    let mut out = vec![];
    let mut i = 0;
    while i < sol.len() {
        if toks[sol[i]].k == Tk::Ident && text(src, &toks[sol[i]]) == "struct" {
            // find '{'
            let mut j = i + 1;
            while j < sol.len() && text(src, &toks[sol[j]]) != "{" {
                j += 1;
            }
            let mut depth = 0i32;
            let mut angle = 0i32;
            let mut paren = 0i32;
            let mut expect_member = false;
            while j < sol.len() {
                let w = text(src, &toks[sol[j]]);
                if expect_member && w != "}" {
                    out.push(toks[sol[j]].s);
                }
                expect_member = false;
                match w {
                    "{" => {
                        depth += 1;
                        if depth == 1 {
                            expect_member = true;
                        }
                    }
                    "}" => {
                        depth -= 1;
                        if depth <= 0 {
                            break;
                        }
                    }
                    "<" => angle += 1,
                    ">" => angle -= 1,
                    "(" => paren += 1,
                    ")" => paren -= 1,
                    "," if depth == 1 && angle <= 0 && paren <= 0 => expect_member = true,
                    _ => {}
                }
                j += 1;
            }
            i = j;
        }
        i += 1;
    }
    out
}

/// byte offsets just after the `{` opening a function body
fn fn_body_starts(src: &str, toks: &[Tok]) -> Vec<usize> {
    let sol = solid(toks);
    let mut out = vec![];
    let mut i = 0;
    while i < sol.len() {
        if toks[sol[i]].k == Tk::Ident && text(src, &toks[sol[i]]) == "fn" {
            let mut j = i + 1;
            let mut paren = 0i32;
            while j < sol.len() {
                let w = text(src, &toks[sol[j]]);
                match w {
                    "(" => paren += 1,
                    ")" => paren -= 1,
                    "{" if paren == 0 => {
                        out.push(toks[sol[j]].e);
                        break;
                    }
                    _ => {}
                }
                j += 1;
            }
            i = j;
        }
        i += 1;
    }
    out
}

fn max_group(src: &str, toks: &[Tok]) -> Option<u32> {
    let sol = solid(toks);
    let mut best: Option<u32> = None;
    for w in sol.windows(3) {
        if text(src, &toks[w[0]]) == "group" && text(src, &toks[w[1]]) == "(" && toks[w[2]].k == Tk::Num {
            let digits: String = text(src, &toks[w[2]]).chars().take_while(|c| c.is_ascii_digit()).collect();
            if let Ok(n) = digits.parse::<u32>() {
                best = Some(best.map_or(n, |b| b.max(n)));
            }
        }
    }
    best
}

// ---------------------------------------------------------------- corruption kinds

/// (name, weight)
const KINDS: &[(&str, usize)] = &[
    // text level
    ("truncate", 3),
    ("delete-span", 3),
    ("swap-adjacent-tokens", 3),
    ("duplicate-line", 2),
    ("ident-to-keyword", 2),
    ("ident-to-undefined", 2),
    ("remove-closer", 3),
    ("inject-unicode", 3),
    ("unicode-at-start", 1),
    ("bom-at-start", 1),
    ("type-swap", 3),
    ("number-mangle", 1),
    // declared semantic errors the front end is expected to catch
    ("align-3", 1),
    ("size-too-small", 1),
    ("undefined-call", 1),
    ("recursion", 1),
    ("mutual-recursion", 1),
    ("redefinition", 1),
    ("assign-to-let", 1),
    ("let-type-mismatch", 1),
    // semantic errors expected at validation level
    ("storage-to-uniform", 2),
    ("uniform-runtime-array", 1),
    ("uniform-bad-stride", 1),
    ("uniform-bool", 1),
    ("return-type-mutate", 2),
    ("return-mismatch", 1),
    ("missing-return", 1),
    ("arg-type-mismatch", 1),
    ("binary-type-mismatch", 1),
    ("store-to-readonly", 1),
    ("binding-collision-used", 2),
    ("texture-sample-in-compute", 2),
    ("vertex-no-position", 1),
    ("fragment-no-location", 1),
    ("builtin-wrong-stage", 1),
    ("two-push-constants", 1),
    ("private-texture", 1),
    ("workgroup-size-zero", 1),
    ("duplicate-location", 1),
    ("int-location-not-flat", 1),
    ("entry-arg-unbound", 1),
    ("workgroup-var-in-fragment", 1),
    // rejected only by the validator's pass over constants / overrides (the one place override declarations are checked)
    ("override-duplicate-id", 1),
    ("override-vector-type", 1),
    // diagnostics that render a very long line with multi-byte characters (whatever is done to the rendered text afterwards
    // - cutting, wrapping, colouring - must not panic and must not change it)
    // the error sits at the very end of a newline-terminated source (naga counts a line after the last line break)
    ("open-block-at-end-of-file", 2),
    ("dangling-token-at-end-of-file", 1),
    ("long-line-parse-error", 2),
    ("long-line-validation-error", 2),
    // accepted by naga (output may change; validation must not matter)
    // accepted by naga, but deeper / longer than a generator that pre-scans its input may expect
    ("deep-parentheses", 1),
    ("comment-full-of-brackets", 1),
    ("insert-comment", 2),
    ("insert-whitespace", 1),
    ("append-unused-fn", 1),
    ("append-unused-struct", 1),
    ("append-valid-binding", 1),
    ("binding-duplicate-unused", 2),
    ("nonconsecutive-group", 1),
];

const UNI: &[&str] = &[
    "\u{0}", "\u{202e}", "\u{1F600}", "\u{301}", "\u{20dd}", "\u{feff}", "\u{200b}", "\u{2028}", "\u{85}", "\u{7f}",
    "\u{fffd}", "\u{10ffff}", "\u{e9}", "\u{3a9}x", "\u{1F468}\u{200d}\u{1F469}", "\u{d7ff}", "\u{1b}[31m", "\r",
];

fn corrupt(kind: &str, src: &str, r: &mut Rng, tag: &str) -> Option<String> {
    let toks = lex(src);
    let sol = solid(&toks);
    let g = max_group(src, &toks).map(|g| g.checked_add(1).unwrap_or(7)).unwrap_or(0);
    let z = format!("zq{tag}");
    let append = |s: String| Some(format!("{src}\n{s}\n"));
    match kind {
        "truncate" => {
            let bounds: Vec<usize> = src.char_indices().map(|(i, _)| i).collect();
            if bounds.len() < 2 {
                return None;
            }
            let cut = bounds[1 + r.below(bounds.len() - 1)];
            Some(src[..cut].to_string())
        }
        "delete-span" => {
            if sol.len() < 3 {
                return None;
            }
            let a = r.below(sol.len());
            let n = 1 + r.below(4);
            let b = (a + n).min(sol.len()) - 1;
            Some(splice(src, toks[sol[a]].s, toks[sol[b]].e, ""))
        }
        "swap-adjacent-tokens" => {
            if sol.len() < 3 {
                return None;
            }
            let a = r.below(sol.len() - 1);
            let (t1, t2) = (toks[sol[a]], toks[sol[a + 1]]);
            Some(format!(
                "{}{}{}{}{}",
                &src[..t1.s],
                text(src, &t2),
                &src[t1.e..t2.s],
                text(src, &t1),
                &src[t2.e..]
            ))
        }
        "duplicate-line" => {
            let lines: Vec<&str> = src.split_inclusive('\n').collect();
            if lines.is_empty() {
                return None;
            }
            let i = r.below(lines.len());
            let mut out = String::new();
            for (j, l) in lines.iter().enumerate() {
                out.push_str(l);
                if j == i {
                    if !l.ends_with('\n') {
                        out.push('\n');
                    }
                    out.push_str(l);
                }
            }
            Some(out)
        }
        "ident-to-keyword" => {
            let ids = user_idents(src, &toks);
            if ids.is_empty() {
                return None;
            }
            let t = toks[*r.pick(&ids)];
            Some(splice(src, t.s, t.e, *r.pick(KEYWORDS)))
        }
        "ident-to-undefined" => {
            let ids = user_idents(src, &toks);
            if ids.is_empty() {
                return None;
            }
            let t = toks[*r.pick(&ids)];
            Some(splice(src, t.s, t.e, &format!("{z}_undefined")))
        }
        "remove-closer" => {
            let c: Vec<usize> =
                sol.iter().copied().filter(|&i| matches!(text(src, &toks[i]), ";" | "}" | ")" | "]" | ">")).collect();
            if c.is_empty() {
                return None;
            }
            let t = toks[*r.pick(&c)];
            Some(splice(src, t.s, t.e, ""))
        }
        "inject-unicode" => {
            let bounds: Vec<usize> = src.char_indices().map(|(i, _)| i).chain(std::iter::once(src.len())).collect();
            let p = *r.pick(&bounds);
            Some(splice(src, p, p, *r.pick(UNI)))
        }
        // offset 0: byte order marks and other characters an editor may put first
        "unicode-at-start" => Some(format!("{}{src}", r.pick(UNI))),
        "bom-at-start" => Some(format!("{}{src}", '\u{feff}')),
        "type-swap" => {
            let swaps: &[(&str, &[&str])] = &[
                ("f32", &["u32", "i32", "bool"]),
                ("u32", &["f32", "i32", "bool"]),
                ("i32", &["f32", "u32"]),
                ("vec2", &["vec3", "vec4"]),
                ("vec3", &["vec2", "vec4"]),
                ("vec4", &["vec3", "vec2"]),
                ("mat4x4", &["mat3x3", "mat2x2"]),
            ];
            let c: Vec<usize> = sol
                .iter()
                .copied()
                .filter(|&i| toks[i].k == Tk::Ident && swaps.iter().any(|s| s.0 == text(src, &toks[i])))
                .collect();
            if c.is_empty() {
                return None;
            }
            let t = toks[*r.pick(&c)];
            let to = swaps.iter().find(|s| s.0 == text(src, &t)).unwrap().1;
            Some(splice(src, t.s, t.e, *r.pick(to)))
        }
        "number-mangle" => {
            let c: Vec<usize> = sol.iter().copied().filter(|&i| toks[i].k == Tk::Num).collect();
            if c.is_empty() {
                return None;
            }
            let t = toks[*r.pick(&c)];
            let with = *r.pick(&["4294967296", "1e999", "0x", "1.0.0", "-1", "99999999999999999999u", "1.5u", "0f"]);
            Some(splice(src, t.s, t.e, with))
        }
        "align-3" | "size-too-small" => {
            let m = struct_member_starts(src, &toks);
            if m.is_empty() {
                return None;
            }
            let p = *r.pick(&m);
            Some(splice(src, p, p, if kind == "align-3" { "@align(3) " } else { "@size(1) " }))
        }
        "undefined-call" => {
            let b = fn_body_starts(src, &toks);
            if b.is_empty() {
                return None;
            }
            let p = *r.pick(&b);
            Some(splice(src, p, p, &format!(" {z}_undefined_fn(); ")))
        }
        "recursion" => append(format!(
            "fn {z}_rec(n: u32) -> u32 {{\n    if n == 0u {{ return 0u; }}\n    return {z}_rec(n - 1u);\n}}"
        )),
        "mutual-recursion" => append(format!(
            "fn {z}_a(n: u32) -> u32 {{ return {z}_b(n); }}\nfn {z}_b(n: u32) -> u32 {{ return {z}_a(n); }}"
        )),
        "redefinition" => {
            let ids = user_idents(src, &toks);
            if ids.is_empty() {
                return None;
            }
            // redefine a name that is declared at module scope: take one following fn/struct/var/const
            let decl: Vec<usize> = sol
                .windows(2)
                .filter(|w| matches!(text(src, &toks[w[0]]), "fn" | "struct") && toks[w[1]].k == Tk::Ident)
                .map(|w| w[1])
                .collect();
            if decl.is_empty() {
                return None;
            }
            let name = text(src, &toks[*r.pick(&decl)]);
            append(format!("fn {name}() {{ }}"))
        }
        "assign-to-let" => append(format!("fn {z}_let() -> f32 {{\n    let a = 1.0;\n    a = 2.0;\n    return a;\n}}")),
        "let-type-mismatch" => append(format!("fn {z}_lt() -> u32 {{\n    let a: u32 = 1.5;\n    return a;\n}}")),
        "storage-to-uniform" => {
            // var<storage ...> -> var<uniform>
            let mut c = vec![];
            for w in sol.windows(3) {
                if text(src, &toks[w[0]]) == "var" && text(src, &toks[w[1]]) == "<" && text(src, &toks[w[2]]) == "storage" {
                    c.push(w[2]);
                }
            }
            if c.is_empty() {
                return None;
            }
            let first = *r.pick(&c);
            // up to the closing '>'
            let mut j = sol.iter().position(|&x| x == first).unwrap();
            while j < sol.len() && text(src, &toks[sol[j]]) != ">" {
                j += 1;
            }
            if j >= sol.len() {
                return None;
            }
            Some(splice(src, toks[first].s, toks[sol[j]].s, "uniform"))
        }
        "uniform-runtime-array" => append(format!("@group({g}) @binding(0) var<uniform> {z}_u: array<f32>;")),
        "uniform-bad-stride" => append(format!("@group({g}) @binding(0) var<uniform> {z}_u: array<f32, 4>;")),
        "uniform-bool" => append(format!("@group({g}) @binding(0) var<uniform> {z}_u: bool;")),
        "return-type-mutate" => {
            let mut c = vec![];
            for w in sol.windows(3) {
                if text(src, &toks[w[0]]) == "-" && text(src, &toks[w[1]]) == ">" && matches!(text(src, &toks[w[2]]), "f32" | "u32" | "i32" | "bool") {
                    c.push(w[2]);
                }
            }
            if c.is_empty() {
                return None;
            }
            let t = toks[*r.pick(&c)];
            let to = match text(src, &t) {
                "f32" => "u32",
                "u32" => "f32",
                "i32" => "f32",
                _ => "i32",
            };
            Some(splice(src, t.s, t.e, to))
        }
        "return-mismatch" => append(format!("fn {z}_ret(a: u32) -> f32 {{\n    return a;\n}}")),
        "missing-return" => append(format!("fn {z}_nr(a: f32) -> f32 {{\n    let b = a;\n}}")),
        "arg-type-mismatch" => append(format!(
            "fn {z}_callee(a: f32) -> f32 {{ return a; }}\nfn {z}_caller(b: u32) -> f32 {{ return {z}_callee(b); }}"
        )),
        "binary-type-mismatch" => append(format!("fn {z}_bin(a: f32, b: u32) -> f32 {{\n    return a + b;\n}}")),
        "store-to-readonly" => append(format!(
            "@group({g}) @binding(0) var<storage, read> {z}_ro: array<f32>;\n@compute @workgroup_size(1)\nfn {z}_main() {{\n    {z}_ro[0] = 1.0;\n}}"
        )),
        "binding-collision-used" => append(format!(
            "@group({g}) @binding(0) var<uniform> {z}_a: vec4<f32>;\n@group({g}) @binding(0) var<uniform> {z}_b: vec4<f32>;\n@compute @workgroup_size(1)\nfn {z}_main() {{\n    let x = {z}_a.x + {z}_b.x;\n}}"
        )),
        "texture-sample-in-compute" => append(format!(
            "@group({g}) @binding(0) var {z}_t: texture_2d<f32>;\n@group({g}) @binding(1) var {z}_s: sampler;\nfn {z}_sample() -> vec4<f32> {{\n    return textureSample({z}_t, {z}_s, vec2<f32>(0.5, 0.5));\n}}\n@compute @workgroup_size(1)\nfn {z}_main() {{\n    let c = {z}_sample();\n}}"
        )),
        "vertex-no-position" => append(format!("@vertex\nfn {z}_vs() -> @location(0) vec4<f32> {{\n    return vec4<f32>(0.0);\n}}")),
        "fragment-no-location" => append(format!("@fragment\nfn {z}_fs() -> vec4<f32> {{\n    return vec4<f32>(0.0);\n}}")),
        "builtin-wrong-stage" => {
            append(format!("@compute @workgroup_size(1)\nfn {z}_cs(@builtin(vertex_index) p: u32) {{\n}}"))
        }
        "two-push-constants" => append(format!(
            "var<push_constant> {z}_p: vec4<f32>;\nvar<push_constant> {z}_q: vec4<f32>;\n@compute @workgroup_size(1)\nfn {z}_main() {{\n    let x = {z}_p.x + {z}_q.x;\n}}"
        )),
        "private-texture" => append(format!("var<private> {z}_t: texture_2d<f32>;")),
        "workgroup-size-zero" => append(format!("@compute @workgroup_size(0)\nfn {z}_main() {{\n}}")),
        "duplicate-location" => append(format!(
            "struct {z}_Out {{\n    @builtin(position) p: vec4<f32>,\n    @location(0) a: vec4<f32>,\n    @location(0) b: vec4<f32>,\n}}\n@vertex\nfn {z}_vs() -> {z}_Out {{\n    var o: {z}_Out;\n    return o;\n}}"
        )),
        "int-location-not-flat" => append(format!(
            "struct {z}_Out {{\n    @builtin(position) p: vec4<f32>,\n    @location(0) a: u32,\n}}\n@vertex\nfn {z}_vs() -> {z}_Out {{\n    var o: {z}_Out;\n    return o;\n}}"
        )),
        "entry-arg-unbound" => append(format!("@fragment\nfn {z}_fs(a: vec4<f32>) -> @location(0) vec4<f32> {{\n    return a;\n}}")),
        "workgroup-var-in-fragment" => append(format!(
            "var<workgroup> {z}_w: array<f32, 4>;\n@fragment\nfn {z}_fs() -> @location(0) vec4<f32> {{\n    return vec4<f32>({z}_w[0]);\n}}"
        )),
        "override-duplicate-id" => append(format!(
            "@id(4091) override {z}_a: f32 = 1.0;\n@id(4091) override {z}_b: f32 = 2.0;\nfn {z}_use() -> f32 {{\n    return {z}_a + {z}_b;\n}}"
        )),
        "override-vector-type" => append(format!("override {z}_v: vec2<f32>;")),
        "open-block-at-end-of-file" => Some(format!("{}\nfn {z}_open(a: f32) -> f32 {{\n    return a;\n", src.trim_end())),
        "dangling-token-at-end-of-file" => Some(format!("{}\n{}\n", src.trim_end(), r.pick(&["@group(0)", "fn", "struct S", "var<private> x:", "const k ="]))),
        "long-line-parse-error" | "long-line-validation-error" => {
            // one line of 9-14 KiB: ASCII padding 0..3, then a block comment of 2-, 3- or 4-byte characters, then the defect
            let ch = *r.pick(&["\u{e9}", "\u{20ac}", "\u{1F600}", "\u{3a9}", "\u{4e2d}"]);
            let pad = "x".repeat(r.below(4));
            let n = 3000 + r.below(1200);
            let filler: String = std::iter::repeat(ch).take(n).collect();
            let defect = if kind == "long-line-parse-error" {
                format!("fn {z}_bad( {{")
            } else {
                format!("fn {z}_ret(a: u32) -> f32 {{ return a; }}")
            };
            append(format!("/*{pad}{filler}*/ {defect} /*{filler}*/"))
        }
        "deep-parentheses" => {
            // 70..120 nested parentheses in one expression (naga's own limit is on brace nesting, and ~150 parentheses)
            let n = 70 + r.below(50);
            append(format!("fn {z}_deep(a: f32) -> f32 {{\n    return {}a{};\n}}", "(".repeat(n), ")".repeat(n)))
        }
        "comment-full-of-brackets" => {
            let n = 100 + r.below(200);
            append(format!("// {}\n/* {} */", "([{".repeat(n), "{{(".repeat(n)))
        }
        "insert-comment" => {
            if sol.is_empty() {
                return None;
            }
            let t = toks[*r.pick(&sol)];
            let c = *r.pick(&["/* c */", "/* \u{2603} /* nested */ */", "// line\n", "/**/"]);
            Some(splice(src, t.s, t.s, c))
        }
        "insert-whitespace" => {
            if sol.is_empty() {
                return None;
            }
            let t = toks[*r.pick(&sol)];
            Some(splice(src, t.s, t.s, *r.pick(&[" ", "\n\n", "\t", "\r\n", "\u{a0}", "\u{2003}"])))
        }
        "append-unused-fn" => append(format!("fn {z}_ok(a: f32) -> f32 {{\n    return a * 2.0;\n}}")),
        "append-unused-struct" => append(format!("struct {z}_S {{\n    a: vec4<f32>,\n    b: f32,\n}}")),
        "append-valid-binding" => append(format!("@group({g}) @binding(0) var<uniform> {z}_u: vec4<f32>;")),
        "binding-duplicate-unused" => append(format!(
            "@group({g}) @binding(3) var<uniform> {z}_a: vec4<f32>;\n@group({g}) @binding(3) var<uniform> {z}_b: vec4<f32>;"
        )),
        "nonconsecutive-group" => {
            append(format!("@group({}) @binding(0) var<uniform> {z}_a: vec4<f32>;", g.checked_add(2).unwrap_or(9)))
        }
        other => panic!("unknown corruption kind {other}"),
    }
}

// ---------------------------------------------------------------- oracle (naga directly) and real calls

enum Naga {
    Parse { message: String, emitted: Option<String> },
    Validation { display: String, emitted: Option<String>, kind: String },
    Valid,
    Panic(String),
}

fn naga_class(src: &str) -> Naga {
    let r = catch_unwind(AssertUnwindSafe(|| match naga::front::wgsl::parse_str(src) {
        Err(e) => {
            let emitted = catch_unwind(AssertUnwindSafe(|| e.emit_to_string(src))).ok();
            Naga::Parse { message: e.message().to_string(), emitted }
        }
        Ok(module) => {
            let v = naga::valid::Validator::new(naga::valid::ValidationFlags::all(), naga::valid::Capabilities::all())
                .validate(&module);
            match v {
                Ok(_) => Naga::Valid,
                Err(e) => {
                    let emitted = catch_unwind(AssertUnwindSafe(|| e.emit_to_string(src))).ok();
                    let dbg = format!("{:?}", e.as_inner());
                    let head: String = dbg.chars().take_while(|c| c.is_alphanumeric()).collect();
                    let inner = std::error::Error::source(e.as_inner())
                        .map(|s| {
                            let d = format!("{s:?}");
                            d.chars().take_while(|c| c.is_alphanumeric()).collect::<String>()
                        })
                        .unwrap_or_default();
                    let kind = if inner.is_empty() { head } else { format!("{head}/{inner}") };
                    Naga::Validation { display: format!("{e}"), emitted, kind }
                }
            }
        }
    }));
    match r {
        Ok(n) => n,
        Err(p) => Naga::Panic(run::panic_message(p)),
    }
}

enum Real {
    Ok(String),
    Err(CreateModuleError),
    Panic(String),
}

fn real(src: &str, validate: bool) -> Real {
    let wo = WriteOptions { validate: if validate { Some(ValidationOptions::default()) } else { None }, ..Default::default() };
    match catch_unwind(AssertUnwindSafe(|| wgsl_to_wgpu::create_shader_module_embedded(src, wo))) {
        Ok(Ok(t)) => Real::Ok(t),
        Ok(Err(e)) => Real::Err(e),
        Err(p) => Real::Panic(run::panic_message(p)),
    }
}

fn real_class(r: &Real) -> &'static str {
    match r {
        Real::Ok(_) => "ok",
        Real::Err(CreateModuleError::ParseError { .. }) => "err-parse",
        Real::Err(CreateModuleError::ValidationError { .. }) => "err-validation",
        Real::Err(CreateModuleError::DuplicateBinding { .. }) => "err-duplicate",
        Real::Err(CreateModuleError::NonConsecutiveBindGroups) => "err-nonconsecutive",
        Real::Err(_) => "err-other",
        Real::Panic(_) => "panic",
    }
}

fn real_bytes(r: &Real) -> String {
    match r {
        Real::Ok(t) => format!("ok:{t}"),
        Real::Err(e) => format!("err:{e}"),
        Real::Panic(m) => format!("panic:{m}"),
    }
}

const PATH_STR: &str = "dir/a b.wgsl";

/// Exercise the four emit methods; returns problems and (method, panic message) pairs.
fn check_emit(
    e: &CreateModuleError,
    src: &str,
    naga_emitted: Option<&String>,
    problems: &mut Vec<String>,
    emit_panics: &mut Vec<(String, String)>,
    notes: &mut BTreeMap<String, usize>,
) {
    match catch_unwind(AssertUnwindSafe(|| e.emit_to_string(src))) {
        Ok(s) => {
            if s.is_empty() {
                problems.push("emit_to_string is empty".into());
            }
            if let Some(n) = naga_emitted {
                if &s != n {
                    problems.push("emit_to_string differs from naga's own rendering".into());
                }
            }
        }
        Err(p) => emit_panics.push(("emit_to_string".into(), run::panic_message(p))),
    }
    match catch_unwind(AssertUnwindSafe(|| e.emit_to_string_with_path(src, PATH_STR))) {
        Ok(s) => {
            if s.is_empty() {
                problems.push("emit_to_string_with_path is empty".into());
            } else if !s.contains(PATH_STR) {
                // naga prints no location for span-less errors; informational only
                let what = match e {
                    CreateModuleError::ParseError { .. } => "parse error",
                    CreateModuleError::ValidationError { .. } => "validation error",
                    _ => "other error",
                };
                bump(notes, format!("emit_to_string_with_path without the path ({what} without a source location)"));
            }
        }
        Err(p) => emit_panics.push(("emit_to_string_with_path".into(), run::panic_message(p))),
    }
    if let Err(p) = catch_unwind(AssertUnwindSafe(|| e.emit_to_stderr(src))) {
        emit_panics.push(("emit_to_stderr".into(), run::panic_message(p)));
    }
    if let Err(p) = catch_unwind(AssertUnwindSafe(|| e.emit_to_stderr_with_path(src, "x.wgsl"))) {
        emit_panics.push(("emit_to_stderr_with_path".into(), run::panic_message(p)));
    }
    // paths are `impl AsRef<Path>`: a path that is not valid UTF-8 (legal on Unix), a relative one with `..`, an empty one
    {
        use std::os::unix::ffi::OsStrExt;
        let odd = std::path::Path::new(std::ffi::OsStr::from_bytes(b"shaders/caf\xe9/\xff\xfe.wgsl"));
        for (label, pth) in [("non-utf8", odd), ("dotdot", std::path::Path::new("../a/./b.wgsl")), ("empty", std::path::Path::new(""))] {
            match catch_unwind(AssertUnwindSafe(|| e.emit_to_string_with_path(src, pth))) {
                Ok(t) => {
                    if t.is_empty() {
                        problems.push(format!("emit_to_string_with_path ({label} path) is empty"));
                    }
                }
                Err(p) => emit_panics.push((format!("emit_to_string_with_path[{label}-path]"), run::panic_message(p))),
            }
            if let Err(p) = catch_unwind(AssertUnwindSafe(|| e.emit_to_stderr_with_path(src, pth))) {
                emit_panics.push((format!("emit_to_stderr_with_path[{label}-path]"), run::panic_message(p)));
            }
        }
    }
}

fn first_word(s: &str) -> String {
    s.split(|c: char| !c.is_alphanumeric() && c != '_').find(|w| !w.is_empty()).unwrap_or("").to_string()
}

fn bump(m: &mut BTreeMap<String, usize>, k: impl Into<String>) {
    *m.entry(k.into()).or_insert(0) += 1;
}

fn main() {
    run::silence_panics();
    let args: Vec<String> = std::env::args().collect();
    let mut files = vec![];
    let mut seed = 1u64;
    let mut per_case = 8usize;
    let mut only: Option<Vec<String>> = None;
    let mut quiet_ok = false;
    let mut i = 1;
    while i < args.len() {
        match args[i].as_str() {
            "--cases" => {
                files.push(args[i + 1].clone());
                i += 1;
            }
            "--seed" => {
                seed = args[i + 1].parse().unwrap();
                i += 1;
            }
            "--per-case" => {
                per_case = args[i + 1].parse().unwrap();
                i += 1;
            }
            "--kinds" => {
                only = Some(args[i + 1].split(',').map(|s| s.to_string()).collect());
                i += 1;
            }
            "--quiet-ok" => quiet_ok = true,
            other => panic!("unknown arg {other}"),
        }
        i += 1;
    }
    let kinds: Vec<(&str, usize)> = match &only {
        Some(o) => KINDS.iter().copied().filter(|k| o.iter().any(|x| x == k.0)).collect(),
        None => KINDS.to_vec(),
    };
    assert!(!kinds.is_empty(), "no corruption kinds selected");
    let wheel: Vec<&str> = kinds.iter().flat_map(|(k, w)| std::iter::repeat(*k).take(*w)).collect();

    let mut cases = vec![];
    for f in &files {
        cases.extend(read_cases(f));
    }

    let mut hist: BTreeMap<String, BTreeMap<String, usize>> = BTreeMap::new();
    let mut classes: BTreeMap<String, usize> = BTreeMap::new();
    let mut parse_kinds: BTreeMap<String, usize> = BTreeMap::new();
    let mut validation_kinds: BTreeMap<String, usize> = BTreeMap::new();
    let mut off_for_validation: BTreeMap<String, usize> = BTreeMap::new();
    let mut valid_outcomes: BTreeMap<String, usize> = BTreeMap::new();
    let mut bad_verdicts: BTreeMap<String, usize> = BTreeMap::new();
    let (mut total, mut n_ok, mut n_bad, mut n_panics, mut n_emit_panics, mut skipped_base) = (0usize, 0usize, 0usize, 0usize, 0usize, 0usize);
    let (mut n_inherited_panics, mut n_inherited_verdicts) = (0usize, 0usize);
    let mut notes: BTreeMap<String, usize> = BTreeMap::new();

    for (ci, (id, src)) in cases.iter().enumerate() {
        // base cases have to be valid for naga (front end + validator)
        match naga_class(src) {
            Naga::Valid => {}
            other => {
                skipped_base += 1;
                let why = match other {
                    Naga::Parse { message, .. } => format!("naga front end rejects it: {message}"),
                    Naga::Validation { display, kind, .. } => format!("naga validator rejects it: {kind}: {display}"),
                    Naga::Panic(m) => format!("naga panics: {m}"),
                    Naga::Valid => unreachable!(),
                };
                println!("{}", tagged("skipped-base", vec![string(id), string(why)]).render());
                continue;
            }
        }
        // panics the uncorrupted case already provokes (known generator defects) are told apart from new ones
        let base_panic: Option<String> = match real(src, false) {
            Real::Panic(m) => Some(m),
            _ => None,
        };
        // two fixed variants per base case on top of the random ones: a BOM and another character at offset 0
        let fixed: &[&str] = if only.is_none() { &["bom-at-start", "unicode-at-start"] } else { &[] };
        for k in 0..per_case + fixed.len() {
            let mut r = Rng(seed.wrapping_mul(0x9E3779B97F4A7C15) ^ (ci as u64).wrapping_mul(0xD1B54A32D192ED03) ^ (k as u64).wrapping_mul(0x8CB92BA72F3D8DD7));
            r.next();
            // pick a kind that applies to this source
            let mut kind = if k >= per_case { fixed[k - per_case] } else { *r.pick(&wheel) };
            let mut corrupted = None;
            for _ in 0..20 {
                corrupted = corrupt(kind, src, &mut r, &k.to_string());
                if corrupted.is_some() {
                    break;
                }
                kind = *r.pick(&wheel);
            }
            let csrc = match corrupted {
                Some(c) => c,
                None => continue,
            };
            total += 1;
            let n = naga_class(&csrc);
            let off = real(&csrc, false);
            let on = real(&csrc, true);
            let nclass = match &n {
                Naga::Parse { .. } => "parse-error",
                Naga::Validation { .. } => "validation-error",
                Naga::Valid => "valid",
                Naga::Panic(_) => "naga-panic",
            };
            bump(&mut classes, nclass);
            bump(hist.entry(kind.to_string()).or_default(), nclass);

            let mut problems: Vec<String> = vec![];
            let mut emit_panics: Vec<(String, String)> = vec![];
            match &n {
                Naga::Parse { message, emitted } => {
                    bump(&mut parse_kinds, first_word(message));
                    for (name, res) in [("off", &off), ("on", &on)] {
                        match res {
                            Real::Err(CreateModuleError::ParseError { error }) => {
                                if error.message() != message {
                                    problems.push(format!("{name}: ParseError message differs from naga's"));
                                }
                            }
                            other => problems.push(format!("{name}: expected err-parse, got {}", real_class(other))),
                        }
                        if let Real::Err(e) = res {
                            check_emit(e, &csrc, emitted.as_ref(), &mut problems, &mut emit_panics, &mut notes);
                        }
                    }
                    if emitted.is_none() {
                        problems.push("naga's own emit_to_string panicked".into());
                    }
                }
                Naga::Validation { display, emitted, kind: vk } => {
                    bump(&mut validation_kinds, vk.clone());
                    bump(&mut off_for_validation, real_class(&off));
                    match &on {
                        Real::Err(CreateModuleError::ValidationError { error }) => {
                            if &format!("{error}") != display {
                                problems.push("on: ValidationError text differs from naga's".into());
                            }
                        }
                        other => problems.push(format!("on: expected err-validation, got {}", real_class(other))),
                    }
                    if let Real::Err(e) = &on {
                        check_emit(e, &csrc, emitted.as_ref(), &mut problems, &mut emit_panics, &mut notes);
                    }
                    if let Real::Err(e) = &off {
                        check_emit(e, &csrc, None, &mut problems, &mut emit_panics, &mut notes);
                    }
                    if emitted.is_none() {
                        problems.push("naga's own emit_to_string panicked".into());
                    }
                }
                Naga::Valid => {
                    bump(&mut valid_outcomes, real_class(&off));
                    if real_class(&off) != real_class(&on) {
                        problems.push(format!("validation changes the outcome class: off {} on {}", real_class(&off), real_class(&on)));
                    } else if real_bytes(&off) != real_bytes(&on) {
                        problems.push("validation changes the result bytes".into());
                    }
                    if matches!(on, Real::Err(CreateModuleError::ParseError { .. }) | Real::Err(CreateModuleError::ValidationError { .. })) {
                        problems.push("naga accepts the source but the generator reports a parse/validation error".into());
                    }
                    // the only errors a source naga accepts may come back with are the two numbering errors
                    for (name, res) in [("off", &off), ("on", &on)] {
                        if real_class(res) == "err-other" {
                            problems.push(format!("{name}: naga accepts the source but the generator returns an error that is neither of the numbering errors"));
                        }
                    }
                    for res in [&off, &on] {
                        if let Real::Err(e) = res {
                            check_emit(e, &csrc, None, &mut problems, &mut emit_panics, &mut notes);
                        }
                    }
                }
                Naga::Panic(m) => {
                    problems.push(format!("naga itself panicked: {m}"));
                }
            }
            let mut inherited_only = false;
            let mut accepted_source_panic = false;
            for (name, res) in [("off", &off), ("on", &on)] {
                if let Real::Panic(m) = res {
                    let inherited = base_panic.as_deref() == Some(m.as_str());
                    if inherited {
                        n_inherited_panics += 1;
                    } else {
                        n_panics += 1;
                    }
                    println!(
                        "{}",
                        tagged(
                            "panic",
                            vec![
                                string(id),
                                nat(k as u64),
                                string(m),
                                string(&csrc),
                                atom(name),
                                atom(nclass),
                                atom(if inherited { "inherited-from-base" } else { "new" })
                            ]
                        )
                        .render()
                    );
                    // a panic is tolerated for validate-off on a module the validator rejects, and on a source naga ACCEPTS (the
                    // generator's documented panics for inputs it does not support - e.g. a corruption that turns `array<i32, 1>` into
                    // a runtime-sized `array<i32>` - are generation's business; that validation does not change the outcome is
                    // checked above through the outcome class and the result bytes)
                    let tolerated = (name == "off" && nclass == "validation-error") || nclass == "valid";
                    if nclass == "valid" && !inherited {
                        accepted_source_panic = true;
                    }
                    if !tolerated {
                        if inherited {
                            inherited_only = true;
                        } else if !problems.iter().any(|p| p.starts_with(name)) {
                            problems.push(format!("{name}: panic"));
                        }
                    }
                }
            }
            for (method, msg) in &emit_panics {
                n_emit_panics += 1;
                println!("{}", tagged("emit-panic", vec![string(id), nat(k as u64), string(method), string(msg), string(&csrc)]).render());
                problems.push(format!("{method} panicked"));
            }
            problems.dedup();
            let verdict = if problems.is_empty() && inherited_only {
                n_inherited_verdicts += 1;
                atom("inherited-panic")
            } else if problems.is_empty() && accepted_source_panic {
                n_ok += 1;
                atom("panic-on-accepted-source")
            } else if problems.is_empty() {
                n_ok += 1;
                atom("ok")
            } else {
                n_bad += 1;
                for p in &problems {
                    bump(&mut bad_verdicts, format!("{kind}: {p}"));
                }
                string(problems.join("; "))
            };
            if !(quiet_ok && problems.is_empty()) {
                println!(
                    "{}",
                    tagged(
                        "corrupt",
                        vec![string(id), nat(k as u64), string(kind), atom(nclass), atom(real_class(&off)), atom(real_class(&on)), verdict]
                    )
                    .render()
                );
            }
        }
    }

    let pct = |n: usize| format!("{:.1}%", if total == 0 { 0.0 } else { 100.0 * n as f64 / total as f64 });
    let render = |m: &BTreeMap<String, usize>| -> Vec<Sexp> { m.iter().map(|(k, n)| list(vec![string(k), nat(*n as u64)])).collect() };
    let mut hist_rows = vec![];
    for (kind, m) in &hist {
        let mut row = vec![string(kind)];
        for c in ["parse-error", "validation-error", "valid", "naga-panic"] {
            if let Some(n) = m.get(c) {
                row.push(list(vec![atom(c), nat(*n as u64)]));
            }
        }
        hist_rows.push(list(row));
    }
    println!(
        "{}",
        tagged(
            "summary",
            vec![
                tagged("base-cases", vec![nat(cases.len() as u64), tagged("skipped", vec![nat(skipped_base as u64)])]),
                tagged("corrupted", vec![nat(total as u64)]),
                tagged(
                    "naga-classes",
                    classes.iter().map(|(k, n)| list(vec![atom(k), nat(*n as u64), atom(pct(*n))])).collect()
                ),
                tagged(
                    "verdicts",
                    vec![
                        list(vec![atom("ok"), nat(n_ok as u64)]),
                        list(vec![atom("inherited-panic"), nat(n_inherited_verdicts as u64)]),
                        list(vec![atom("bad"), nat(n_bad as u64)]),
                    ]
                ),
                tagged("library-panics", vec![list(vec![atom("new"), nat(n_panics as u64)]), list(vec![atom("inherited-from-base"), nat(n_inherited_panics as u64)])]),
                tagged("notes", render(&notes)),
                tagged("emit-panics", vec![nat(n_emit_panics as u64)]),
                tagged("bad-verdicts", render(&bad_verdicts)),
                tagged("validate-off-outcome-on-validation-errors", render(&off_for_validation)),
                tagged("outcome-on-valid", render(&valid_outcomes)),
                tagged("histogram", hist_rows),
                tagged("parse-error-kinds", render(&parse_kinds)),
                tagged("validation-error-kinds", render(&validation_kinds)),
            ]
        )
        .render()
    );
}
