//! stateful: call sequences within ONE process, looking for results that depend on earlier calls.
//!   stdin: (src "id" "wgsl") lines.  For every case, in this order and all in this process:
//!     embedded(validate all) ; include("a.wgsl") ; include("dir/b.wgsl") ; embedded again ;
//!     validate with Capabilities::all() ; validate with Capabilities::empty() ; all() again ; empty() again
//!   each result is compared with what a context-free evaluation prescribes:
//!     - the two embedded results are byte-identical; the include results differ from the embedded one exactly in SOURCE
//!       (checked by re-generating in a child-free way: include text must contain `include_str!("<path>")` and not the other path);
//!     - validation outcome for a capability set equals naga's own verdict for that set, whatever was validated before.
//!   stdout: (stateful "id" ok) | (stateful "id" (bad "what"))
use std::io::BufRead;
use verif_harness::{run, sexp::*};
use wgsl_to_wgpu::{create_shader_module, create_shader_module_embedded, CreateModuleError, ValidationOptions, WgslCapabilities, WriteOptions};

fn class(r: &Result<String, CreateModuleError>) -> String {
    match r {
        Ok(_) => "ok".into(),
        Err(CreateModuleError::ParseError { .. }) => "parse".into(),
        Err(CreateModuleError::ValidationError { .. }) => "validation".into(),
        Err(CreateModuleError::DuplicateBinding { .. }) => "dup".into(),
        Err(CreateModuleError::NonConsecutiveBindGroups) => "gap".into(),
        Err(_) => "other".into(),
    }
}

fn guarded<F: FnOnce() -> Result<String, CreateModuleError> + std::panic::UnwindSafe>(f: F) -> Result<Result<String, CreateModuleError>, String> {
    std::panic::catch_unwind(f).map_err(run::panic_message)
}

/// A fixed shader that is generated again after EVERY case of the stream (which may have panicked, been rejected, or made the
/// formatter fail): its output must never change - nothing a call leaves behind in the process (a flag, a cache, a poisoned
/// lock) may reach a later call.
const REFERENCE: &str = "struct VertexInput { @location(0) position: vec3<f32>, @location(1) uv: vec2<f32> }\n\
struct Light { position: vec3<f32>, radius: f32, colors: array<vec4<f32>, 2> }\n\
struct Globals { view: mat4x4<f32>, lights: array<Light, 2>, time: f32 }\n\
@group(0) @binding(0) var<uniform> globals: Globals;\n\
@group(0) @binding(1) var tex: texture_2d<f32>;\n\
@group(1) @binding(0) var samp: sampler;\n\
override scale: f32 = 1.0;\n\
@id(3) override flip: bool;\n\
const LIMIT: u32 = 4u;\n\
fn light_at(i: u32) -> vec3<f32> { return globals.lights[i % LIMIT].position; }\n\
@vertex fn vs_main(v: VertexInput) -> @builtin(position) vec4<f32> { return globals.view * vec4<f32>(v.position + light_at(1u), scale); }\n\
@fragment fn fs_main() -> @location(0) vec4<f32> { return textureSample(tex, samp, vec2<f32>(0.5)) * select(1.0, -1.0, flip); }\n";

fn reference_outputs() -> Vec<(String, String)> {
    let mut out = vec![];
    for (label, idx, fmt) in [("defaults", 0usize, false), ("rustfmt on", 0, true), ("glam + encase", 20, false), ("validation on", 48, false), ("bytemuck + serde", 11, false)] {
        let mut o = run::Opts::from_index(idx);
        o.rustfmt = fmt;
        let r = match run::run_real(REFERENCE, None, o) {
            run::Outcome::Ok(t) => format!("ok:{t}"),
            run::Outcome::Err(e) => format!("err:{e}"),
            run::Outcome::Panic(m) => format!("panic:{m}"),
        };
        out.push((label.to_string(), r));
    }
    out
}

fn main() {
    run::silence_panics();
    let baseline = reference_outputs();
    let stdin = std::io::stdin();
    for line in stdin.lock().lines() {
        let line = line.unwrap();
        if line.trim().is_empty() {
            continue;
        }
        let parsed = parse(&line).expect("bad case line");
        let (id, src) = match &parsed[0] {
            Sexp::List(v) => match (&v[1], &v[2]) {
                (Sexp::Str(a), Sexp::Str(b)) => (a.clone(), b.clone()),
                _ => panic!("case"),
            },
            _ => panic!("case"),
        };
        let mut bad: Vec<String> = vec![];
        let o = WriteOptions::default();
        let s1 = src.clone();
        let e1 = guarded(move || create_shader_module_embedded(&s1, o));
        let s2 = src.clone();
        let ia = guarded(move || create_shader_module(&s2, "a.wgsl", o));
        let s3 = src.clone();
        let ib = guarded(move || create_shader_module(&s3, "dir/b.wgsl", o));
        let s4 = src.clone();
        let e2 = guarded(move || create_shader_module_embedded(&s4, o));
        match (&e1, &e2) {
            (Ok(Ok(a)), Ok(Ok(b))) => {
                if a != b {
                    bad.push("embedded result changed after include calls".into());
                }
                if a.contains("include_str") && !src.contains("include_str") {
                    bad.push("embedded result contains include_str!".into());
                }
            }
            (Ok(a), Ok(b)) => {
                if class(a) != class(b) {
                    bad.push("embedded outcome class changed".into());
                }
            }
            (Err(a), Err(b)) => {
                if a != b {
                    bad.push("embedded panic message changed".into());
                }
            }
            _ => bad.push("embedded call panics only sometimes".into()),
        }
        for (r, own, other) in [(&ia, "\"a.wgsl\"", "\"dir/b.wgsl\""), (&ib, "\"dir/b.wgsl\"", "\"a.wgsl\"")] {
            if let Ok(Ok(t)) = r {
                let squeezed: String = t.chars().filter(|c| !c.is_whitespace()).collect();
                if !squeezed.contains(&format!("include_str!({own})")) {
                    bad.push(format!("include variant does not include {own}"));
                }
                if squeezed.contains(&format!("include_str!({other})")) {
                    bad.push(format!("include variant includes {other} (result of another call)"));
                }
            }
        }
        // capability sets, in an order that would expose a validation cache
        let expected = |caps: WgslCapabilities| -> String {
            match naga::front::wgsl::parse_str(&src) {
                Err(_) => "parse".into(),
                Ok(m) => match naga::valid::Validator::new(naga::valid::ValidationFlags::all(), caps).validate(&m) {
                    Ok(_) => "accepted".into(),
                    Err(_) => "validation".into(),
                },
            }
        };
        for caps in [WgslCapabilities::all(), WgslCapabilities::empty(), WgslCapabilities::all(), WgslCapabilities::empty()] {
            let exp = expected(caps);
            let s = src.clone();
            let wo = WriteOptions { validate: Some(ValidationOptions { capabilities: caps }), ..Default::default() };
            let got = guarded(move || create_shader_module_embedded(&s, wo));
            let got_class = match &got {
                Ok(r) => class(r),
                Err(_) => "panic".into(),
            };
            let consistent = match exp.as_str() {
                "parse" => got_class == "parse",
                "validation" => got_class == "validation",
                _ => got_class != "validation" && got_class != "parse",
            };
            if !consistent {
                bad.push(format!("capabilities {:?}: naga says {exp}, generator returned {got_class}", caps.bits()));
            }
        }
        // formatter path: the same source under option sets A, B, A with rustfmt on must describe, each time,
        // the same program as with rustfmt off under the same options (facts of the two texts are equal)
        {
            let a = run::Opts::from_index(0);
            let b = run::Opts::from_index(16 + 4 + 8); // glam + encase + serde
            for (k, oi) in [a, b, a].iter().enumerate() {
                let mut on = *oi;
                on.rustfmt = true;
                let off = *oi;
                let r_on = run::run_real(&src, None, on);
                let r_off = run::run_real(&src, None, off);
                if let (run::Outcome::Ok(t_on), run::Outcome::Ok(t_off)) = (&r_on, &r_off) {
                    match (verif_harness::facts::extract(t_on), verif_harness::facts::extract(t_off)) {
                        (Ok(mut f_on), Ok(mut f_off)) => {
                            // items the reader does not understand are kept as raw token text, which differs between the two
                            // printers; they are reported by the correspondence, not judged here
                            for f in [&mut f_on, &mut f_off] {
                                if let verif_harness::sexp::Sexp::List(v) = f {
                                    v.retain(|c| !matches!(c, verif_harness::sexp::Sexp::List(cv) if matches!(cv.first(), Some(verif_harness::sexp::Sexp::Atom(a)) if a == "unknown")));
                                }
                            }
                            if f_on != f_off {
                                bad.push(format!("rustfmt on/off describe different programs in call {k} of the A,B,A sequence"));
                            }
                        }
                        (Err(_), Ok(_)) => bad.push(format!("rustfmt-on text does not parse in call {k}")),
                        _ => {}
                    }
                }
            }
        }
        // nothing this case did may have changed what the reference shader generates
        for ((label, was), (_, now)) in baseline.iter().zip(reference_outputs().iter()) {
            if was != now {
                let kind = if now.starts_with("panic:") { "panics" } else if now.starts_with("err:") { "is rejected" } else { "generates different text" };
                bad.push(format!("after this case the reference shader {kind} under option set '{label}' (embedded source; state left behind by an earlier call): {}", now.chars().take(120).collect::<String>()));
            }
        }
        let verdict = if bad.is_empty() { atom("ok") } else { tagged("bad", bad.into_iter().map(string).collect()) };
        println!("{}", tagged("stateful", vec![string(id), verdict]).render());
    }
}
