//! Self-test of the WGSL generator: `gen_selftest [N] [--seed S] [--dump DIR] [--profile NAME]`
//!
//! For every profile and index `0..N` (seed 1): generate, parse with naga, validate with all
//! capabilities, run `wgsl_to_wgpu::create_shader_module_embedded` under `catch_unwind`, and
//! print validity, outcome counts, distinct panic messages and the feature histogram.
//! Exits non-zero if any profile other than `bindings` is below 99 % valid, if a case fails to
//! parse, or if generation is not deterministic.

use std::collections::BTreeMap;
use std::time::Instant;

use naga::valid::{Capabilities, ValidationFlags, Validator};
use verif_harness::wgslgen;

fn panic_message(p: Box<dyn std::any::Any + Send>) -> String {
    if let Some(s) = p.downcast_ref::<String>() {
        s.clone()
    } else if let Some(s) = p.downcast_ref::<&str>() {
        s.to_string()
    } else {
        "<non-string panic payload>".to_string()
    }
}

/// Collapse details (names, numbers) so that equal kinds of panics are counted together.
fn normalize_panic(m: &str) -> String {
    let first = m.lines().next().unwrap_or("");
    let mut out = String::new();
    let mut in_quote = false;
    for c in first.chars() {
        if c == '\'' || c == '`' {
            in_quote = !in_quote;
            out.push(c);
            if in_quote {
                out.push('…');
            }
            continue;
        }
        if in_quote {
            continue;
        }
        out.push(if c.is_ascii_digit() { '#' } else { c });
    }
    if out.chars().count() > 160 {
        out = out.chars().take(160).collect::<String>() + "…";
    }
    out
}

fn check(src: &str) -> (Result<(), String>, Result<(), String>) {
    match naga::front::wgsl::parse_str(src) {
        Err(e) => (Err(e.emit_to_string(src)), Err("not parsed".into())),
        Ok(m) => {
            let v = Validator::new(ValidationFlags::all(), Capabilities::all()).validate(&m);
            (Ok(()), v.map(|_| ()).map_err(|e| format!("{:?}", e)))
        }
    }
}

fn main() {
    let args: Vec<String> = std::env::args().skip(1).collect();
    let mut n: u64 = 300;
    let mut dump: Option<String> = None;
    let mut only: Option<String> = None;
    let mut seed = 1u64;
    let mut i = 0;
    while i < args.len() {
        match args[i].as_str() {
            "--dump" => {
                dump = args.get(i + 1).cloned();
                i += 1;
            }
            "--seed" => {
                seed = args.get(i + 1).and_then(|x| x.parse().ok()).unwrap_or(1);
                i += 1;
            }
            "--profile" => {
                only = args.get(i + 1).cloned();
                i += 1;
            }
            a => {
                if let Ok(v) = a.parse::<u64>() {
                    n = v;
                }
            }
        }
        i += 1;
    }
    // silence the default panic printer: wgsl_to_wgpu panics are caught and counted
    std::panic::set_hook(Box::new(|_| {}));

    let mut failed = false;
    let mut total_cases = 0u64;
    let mut total_panics = 0u64;

    for profile in wgslgen::PROFILES {
        if let Some(o) = &only {
            if o != profile {
                continue;
            }
        }
        let t0 = Instant::now();
        let mut valid = 0u64;
        let mut parse_fail: Vec<(u64, String, String)> = Vec::new();
        let mut valid_fail: Vec<(u64, String, String)> = Vec::new();
        let mut outcomes: BTreeMap<String, u64> = BTreeMap::new();
        let mut panics: BTreeMap<String, (u64, u64, String)> = BTreeMap::new();
        let mut feats: BTreeMap<&'static str, u64> = BTreeMap::new();
        let mut nondet = 0u64;
        let mut lines_min = usize::MAX;
        let mut lines_max = 0usize;
        let mut lines_sum = 0usize;
        let mut slowest = (0u128, 0u64);

        for index in 0..n {
            let case = wgslgen::generate(profile, seed, index);
            let again = wgslgen::generate(profile, seed, index);
            if case.wgsl != again.wgsl || case.features != again.features {
                nondet += 1;
            }
            let src = case.wgsl;
            let nl = src.lines().count();
            lines_min = lines_min.min(nl);
            lines_max = lines_max.max(nl);
            lines_sum += nl;
            for f in &case.features {
                *feats.entry(*f).or_insert(0) += 1;
            }
            if let Some(d) = &dump {
                let _ = std::fs::create_dir_all(d);
                let _ = std::fs::write(format!("{}/{}_{:04}.wgsl", d, profile, index), &src);
            }
            let (p, v) = check(&src);
            match (&p, &v) {
                (Err(e), _) => parse_fail.push((index, src.clone(), e.clone())),
                (Ok(_), Err(e)) => valid_fail.push((index, src.clone(), e.clone())),
                _ => valid += 1,
            }
            let s2 = src.clone();
            let t1 = Instant::now();
            let r = std::panic::catch_unwind(move || {
                wgsl_to_wgpu::create_shader_module_embedded(
                    &s2,
                    wgsl_to_wgpu::WriteOptions { derive_encase_host_shareable: true, ..Default::default() },
                )
            });
            let el = t1.elapsed().as_millis();
            if el > slowest.0 {
                slowest = (el, index);
            }
            total_cases += 1;
            match r {
                Ok(Ok(_)) => *outcomes.entry("Ok".into()).or_insert(0) += 1,
                Ok(Err(e)) => {
                    let k = format!("Err({})", normalize_panic(&e.to_string()));
                    *outcomes.entry(k).or_insert(0) += 1
                }
                Err(pl) => {
                    total_panics += 1;
                    *outcomes.entry("panic".into()).or_insert(0) += 1;
                    let msg = panic_message(pl);
                    let e = panics.entry(normalize_panic(&msg)).or_insert((0, index, msg.clone()));
                    e.0 += 1;
                }
            }
        }

        let pct = 100.0 * valid as f64 / n.max(1) as f64;
        println!("==================================================================");
        println!(
            "profile {:<10} valid {:6.2}% ({}/{})  parse failures {}  validation failures {}  [{:.1}s]",
            profile,
            pct,
            valid,
            n,
            parse_fail.len(),
            valid_fail.len(),
            t0.elapsed().as_secs_f64()
        );
        println!(
            "  lines: min {} avg {} max {};  slowest wgsl_to_wgpu call: {} ms (index {})",
            lines_min,
            lines_sum / n.max(1) as usize,
            lines_max,
            slowest.0,
            slowest.1
        );
        if nondet > 0 {
            println!("  NON-DETERMINISTIC cases: {}", nondet);
            failed = true;
        }
        for (idx, src, err) in parse_fail.iter().take(3) {
            println!("  ---- PARSE FAILURE index {} ----\n{}\n  ---- error ----\n{}", idx, src, err);
        }
        for (idx, src, err) in valid_fail.iter().take(if *profile == "bindings" { 1 } else { 3 }) {
            println!("  ---- VALIDATION FAILURE index {} ----\n{}\n  ---- error ----\n{}", idx, src, err);
        }
        if *profile == "bindings" && !valid_fail.is_empty() {
            let mut kinds: BTreeMap<String, u64> = BTreeMap::new();
            for (_, _, e) in &valid_fail {
                let k = if e.contains("BindingCollision") { "BindingCollision".to_string() } else { normalize_panic(e) };
                *kinds.entry(k).or_insert(0) += 1;
            }
            println!("  validation failure kinds: {:?}", kinds);
        }
        println!("  wgsl_to_wgpu outcomes:");
        for (k, c) in &outcomes {
            println!("    {:6}  {}", c, k);
        }
        if !panics.is_empty() {
            println!("  distinct panic messages:");
            for (k, (c, idx, full)) in &panics {
                println!("    {:6}  {}   (first: index {}; full: {})", c, k, idx, full.lines().next().unwrap_or("").chars().take(300).collect::<String>());
            }
        }
        println!("  feature histogram ({} features):", feats.len());
        let mut line = String::new();
        for (f, c) in &feats {
            let item = format!("{}={}", f, c);
            if line.len() + item.len() > 110 {
                println!("    {}", line);
                line.clear();
            }
            if !line.is_empty() {
                line.push_str("  ");
            }
            line.push_str(&item);
        }
        if !line.is_empty() {
            println!("    {}", line);
        }
        if !parse_fail.is_empty() {
            failed = true;
        }
        if *profile != "bindings" && pct < 99.0 {
            println!("  FAIL: below 99 % valid");
            failed = true;
        }
    }

    println!("==================================================================");
    println!("deterministic families:");
    let fams: Vec<(&str, String)> = vec![
        ("chain(8,true)", wgslgen::chain(8, true)),
        ("chain(8,false)", wgslgen::chain(8, false)),
        ("chain(0,true)", wgslgen::chain(0, true)),
        ("chain(1,false)", wgslgen::chain(1, false)),
        ("diamond(6)", wgslgen::diamond(6)),
        ("diamond(1)", wgslgen::diamond(1)),
        ("fanout(20)", wgslgen::fanout(20)),
        ("fanout(0)", wgslgen::fanout(0)),
        ("nested_structs(6)", wgslgen::nested_structs(6)),
        ("nested_structs(0)", wgslgen::nested_structs(0)),
    ];
    for (name, src) in fams {
        let (p, v) = check(&src);
        let ok = p.is_ok() && v.is_ok();
        println!("  {:<20} {}", name, if ok { "ok".to_string() } else { format!("FAIL parse={:?} validate={:?}\n{}", p, v, src) });
        if !ok {
            failed = true;
        }
    }
    println!(
        "total wgsl_to_wgpu panic rate: {:.2}% ({}/{})",
        100.0 * total_panics as f64 / total_cases.max(1) as f64,
        total_panics,
        total_cases
    );
    if failed {
        std::process::exit(1);
    }
}
