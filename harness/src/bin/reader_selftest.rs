//! reader_selftest: mutation test of the FACT READER (harness/src/facts.rs), the piece of the trusted base through which
//! every comparison of the real output with the model passes ("a wrong reader can hide a difference").
//!
//!   stdin:  (src "id" "wgsl" [(path "p")]) case lines;   args: --opts i,j  --per-text N  --seed S
//!
//! For every real generated text: the text is lexed into leaf tokens; N sampled tokens are mutated ONE AT A TIME
//! (an integer literal becomes another integer, a string / float literal another one, an identifier another identifier,
//! a punctuation character another one, a token is deleted, two adjacent tokens are swapped) and the reader runs on the mutated
//! text.  A mutation is DETECTED when the reader's facts differ from the original's (or the text no longer reads).  A mutation the
//! facts do not notice is a place where generated text could change without the correspondence seeing it: reported per token kind
//! and enclosing item, with examples.
//!   stdout: (mutation "id" <opt> <kind> detected|UNDETECTED "<context>")  for undetected ones only, and a (summary ...) line.
use proc_macro2::{Delimiter, TokenStream, TokenTree};
use std::collections::BTreeMap;
use std::io::BufRead;
use verif_harness::{facts, run, sexp::*};

#[derive(Clone, Debug)]
enum Leaf {
    Open(char),
    Close(char),
    Ident(String),
    Punct(char, bool),
    Lit(String),
}

fn flatten(ts: TokenStream, out: &mut Vec<Leaf>) {
    for tt in ts {
        match tt {
            TokenTree::Group(g) => {
                let (o, c) = match g.delimiter() {
                    Delimiter::Parenthesis => ('(', ')'),
                    Delimiter::Brace => ('{', '}'),
                    Delimiter::Bracket => ('[', ']'),
                    Delimiter::None => (' ', ' '),
                };
                out.push(Leaf::Open(o));
                flatten(g.stream(), out);
                out.push(Leaf::Close(c));
            }
            TokenTree::Ident(i) => out.push(Leaf::Ident(i.to_string())),
            TokenTree::Punct(p) => out.push(Leaf::Punct(p.as_char(), p.spacing() == proc_macro2::Spacing::Joint)),
            TokenTree::Literal(l) => out.push(Leaf::Lit(l.to_string())),
        }
    }
}

fn render(leaves: &[Leaf]) -> String {
    let mut s = String::new();
    for l in leaves {
        match l {
            Leaf::Open(c) | Leaf::Close(c) => {
                if *c != ' ' {
                    s.push(*c);
                }
                s.push(' ');
            }
            Leaf::Ident(i) => {
                s.push_str(i);
                s.push(' ');
            }
            Leaf::Punct(c, joint) => {
                s.push(*c);
                if !*joint {
                    s.push(' ');
                }
            }
            Leaf::Lit(t) => {
                s.push_str(t);
                s.push(' ');
            }
        }
    }
    s
}

struct Rng(u64);
impl Rng {
    fn next(&mut self) -> u64 {
        self.0 = self.0.wrapping_add(0x9E3779B97F4A7C15);
        let mut z = self.0;
        z = (z ^ (z >> 30)).wrapping_mul(0xBF58476D1CE4E5B9);
        z = (z ^ (z >> 27)).wrapping_mul(0x94D049BB133111EB);
        z ^ (z >> 31)
    }
    fn below(&mut self, n: usize) -> usize {
        (self.next() % n.max(1) as u64) as usize
    }
}

/// (kind, mutated leaves) or None when this token offers no mutation of the drawn kind
fn mutate(leaves: &[Leaf], at: usize, r: &mut Rng) -> Option<(&'static str, Vec<Leaf>)> {
    let mut v = leaves.to_vec();
    match &leaves[at] {
        Leaf::Lit(t) => {
            if t.starts_with('"') || t.starts_with("r\"") || t.starts_with("r#") {
                // a string literal: another text of the same kind
                v[at] = Leaf::Lit(format!("{:?}", format!("{}~", t.trim_matches(|c| c == '"' || c == 'r' || c == '#'))));
                Some(("string-literal", v))
            } else if t.contains('.') || t.contains('e') && !t.starts_with("0x") || t.ends_with("f32") || t.ends_with("f64") {
                v[at] = Leaf::Lit(if t.starts_with("1.5") || t.starts_with("15") { "2.5f32".into() } else { "1.5f32".into() });
                Some(("float-literal", v))
            } else {
                // integer (possibly suffixed): change the value, keep the suffix
                let digits: String = t.chars().take_while(|c| c.is_ascii_digit()).collect();
                let suffix = &t[digits.len()..];
                let n: u128 = digits.parse().unwrap_or(0);
                v[at] = Leaf::Lit(format!("{}{}", if n == 0 { 1 } else { n - 1 + 2 * (r.below(2) as u128) }, suffix));
                Some(("integer-literal", v))
            }
        }
        Leaf::Ident(i) => {
            match r.below(3) {
                0 => {
                    v[at] = Leaf::Ident(format!("{i}_x"));
                    Some(("identifier-renamed", v))
                }
                1 => {
                    // another identifier that occurs in the text (a plausible mix-up)
                    let others: Vec<&String> = leaves.iter().filter_map(|l| if let Leaf::Ident(o) = l { if o != i { Some(o) } else { None } } else { None }).collect();
                    if others.is_empty() {
                        return None;
                    }
                    v[at] = Leaf::Ident(others[r.below(others.len())].clone());
                    Some(("identifier-swapped-for-another", v))
                }
                _ => {
                    v.remove(at);
                    Some(("identifier-deleted", v))
                }
            }
        }
        Leaf::Punct(c, j) => {
            let repl = match c {
                ',' => ';',
                ';' => ',',
                ':' => '=',
                '|' => '&',
                '&' => '*',
                '*' => '&',
                '.' => ',',
                '<' => '>',
                '>' => '<',
                '=' => ':',
                '-' => '+',
                '#' => '!',
                '!' => '#',
                _ => '?',
            };
            if r.below(2) == 0 {
                v[at] = Leaf::Punct(repl, *j);
                Some(("punctuation-changed", v))
            } else {
                // a comma directly before a closing delimiter or `>` is optional in Rust: deleting it changes nothing
                if *c == ',' && matches!(leaves.get(at + 1), Some(Leaf::Close(_)) | Some(Leaf::Punct('>', _))) {
                    return None;
                }
                v.remove(at);
                Some((if *c == '&' { "reference-operator-deleted" } else if *c == ';' { "semicolon-deleted" } else { "punctuation-deleted" }, v))
            }
        }
        Leaf::Open(_) | Leaf::Close(_) => {
            // swap the two tokens after an opening delimiter / before a closing one
            if at + 2 < leaves.len() && matches!(leaves[at], Leaf::Open(_)) && !matches!(leaves[at + 1], Leaf::Open(_) | Leaf::Close(_)) && !matches!(leaves[at + 2], Leaf::Open(_) | Leaf::Close(_)) {
                v.swap(at + 1, at + 2);
                Some(("adjacent-tokens-swapped", v))
            } else {
                None
            }
        }
    }
}

fn main() {
    run::silence_panics();
    let args: Vec<String> = std::env::args().collect();
    let (mut opts, mut per_text, mut seed) = (vec![0usize], 60usize, 1u64);
    let mut i = 1;
    while i < args.len() {
        match args[i].as_str() {
            "--opts" => {
                opts = args[i + 1].split(',').map(|x| x.parse().unwrap()).collect();
                i += 1;
            }
            "--per-text" => {
                per_text = args[i + 1].parse().unwrap();
                i += 1;
            }
            "--seed" => {
                seed = args[i + 1].parse().unwrap();
                i += 1;
            }
            other => panic!("unknown arg {other}"),
        }
        i += 1;
    }
    let mut r = Rng(seed ^ 0x5EED);
    let mut by_kind: BTreeMap<&'static str, (usize, usize)> = BTreeMap::new(); // kind -> (tried, undetected)
    let (mut texts, mut mutants, mut undetected, mut equal_text) = (0usize, 0usize, 0usize, 0usize);
    let stdin = std::io::stdin();
    for line in stdin.lock().lines() {
        let line = line.unwrap();
        if line.trim().is_empty() {
            continue;
        }
        let parsed = match parse(&line) {
            Some(p) => p,
            None => continue,
        };
        let (id, src, path) = match &parsed[0] {
            Sexp::List(v) => {
                let id = if let Sexp::Str(s) = &v[1] { s.clone() } else { continue };
                let src = if let Sexp::Str(s) = &v[2] { s.clone() } else { continue };
                let path = v.get(3).and_then(|p| if let Sexp::List(pv) = p { if let Some(Sexp::Str(s)) = pv.get(1) { Some(s.clone()) } else { None } } else { None });
                (id, src, path)
            }
            _ => continue,
        };
        for &o in &opts {
            let text = match run::run_real(&src, path.as_deref(), run::Opts::from_index(o)) {
                run::Outcome::Ok(t) => t,
                _ => continue,
            };
            let base = match facts::extract(&text) {
                Ok(f) => f.render(),
                Err(_) => continue,
            };
            let ts: TokenStream = match text.parse() {
                Ok(t) => t,
                Err(_) => continue,
            };
            let mut leaves = vec![];
            flatten(ts, &mut leaves);
            if leaves.is_empty() {
                continue;
            }
            texts += 1;
            for _ in 0..per_text {
                let at = r.below(leaves.len());
                let Some((kind, mutated)) = mutate(&leaves, at, &mut r) else { continue };
                let mtext = render(&mutated);
                if facts::norm(mtext.parse::<TokenStream>().unwrap_or_default()) == facts::norm(text.parse::<TokenStream>().unwrap_or_default()) {
                    equal_text += 1; // the mutation produced the same token text (e.g. swapped equal tokens)
                    continue;
                }
                mutants += 1;
                let e = by_kind.entry(kind).or_insert((0, 0));
                e.0 += 1;
                let detected = match std::panic::catch_unwind(|| facts::extract(&mtext)) {
                    Ok(Ok(f)) => f.render() != base,
                    _ => true, // unreadable or reader panic: noticed
                };
                if !detected {
                    e.1 += 1;
                    undetected += 1;
                    let lo = at.saturating_sub(6);
                    let hi = (at + 7).min(leaves.len());
                    let ctx = render(&leaves[lo..hi]);
                    let mctx = render(&mutated[lo..hi.min(mutated.len())]);
                    println!("{}", tagged("mutation", vec![string(&id), nat(o as u64), atom(kind), atom("UNDETECTED"), string(&ctx), string(&mctx)]).render());
                }
            }
        }
    }
    let kinds: Vec<Sexp> = by_kind.iter().map(|(k, (t, u))| tagged(k, vec![nat(*t as u64), nat(*u as u64)])).collect();
    println!(
        "{}",
        tagged(
            "summary",
            vec![
                tagged("texts", vec![nat(texts as u64)]),
                tagged("mutants", vec![nat(mutants as u64)]),
                tagged("undetected", vec![nat(undetected as u64)]),
                tagged("no-op-mutations", vec![nat(equal_text as u64)]),
                tagged("by-kind-tried-undetected", kinds),
            ]
        )
        .render()
    );
}
