//! determinism: property C18 -- equal (source, options) => byte-identical result, within a process,
//! across processes (different hash seeds / cwd / environment / order), under concurrent calls; and the
//! calls do not observe or modify other state.
//!
//!   determinism --cases <file> [--cases <file>..] --opts 0,6,21,.. [--children N] [--threads N]
//!               [--strace] [--strace-limit N]
//!     option index i < 96: run::Opts::from_index(i); 96 <= i < 192: the same with rustfmt = true.
//!     (a) in-process: every (case, opts) twice back to back, then the whole set again in reverse order
//!     (b) N (default 4) concurrent child processes, each with its own cwd /verif/target/proc/cwdK, its own
//!         HOME/LANG/TMPDIR/RUST_BACKTRACE/random variable and its own shuffled order; children print
//!         (out "id" <opt> <fnv64 hex of result bytes> <len>)
//!     (c) N (default 16) threads in this process, each with its own shuffled order
//!     (d) --strace: one child under `strace -f -e trace=%file,%process`; file system calls made between
//!         the child's begin/end markers (i.e. during the generator calls) are reported as
//!         (strace (writes ..) (execs ..) (reads ..) (other-file-calls ..) (startup-reads ..))
//!     environment/cwd of this process are snapshotted before and after (a)+(c): (state-changed ..) if not equal
//!   lines: (nondeterministic "id" <opt> "<where>") per mismatch, (summary ..) at the end.
//!   result bytes: Ok(text) -> "ok:"+text; Err(e) -> "err:"+Display+"\n"+emit_to_string(src); panic -> "panic:"+msg
//!   determinism --child <k> --cases .. --opts ..      (internal)
use std::collections::{BTreeMap, BTreeSet};
use std::panic::{catch_unwind, AssertUnwindSafe};
use std::process::{Command, Stdio};
use verif_harness::{run, sexp::*};

/// scratch directory of this run: unique per top-level process, inherited by re-executed children
fn proc_dir() -> String {
    if let Ok(d) = std::env::var("VERIF_PROC_DIR") {
        return d;
    }
    let d = format!("/verif/target/proc/{}", std::process::id());
    std::env::set_var("VERIF_PROC_DIR", &d);
    d
}
const MARK_BEGIN: &str = "/__determinism_marker_begin__";
const MARK_END: &str = "/__determinism_marker_end__";

fn fnv(bytes: &[u8]) -> u64 {
    let mut h: u64 = 0xcbf29ce484222325;
    for b in bytes {
        h ^= *b as u64;
        h = h.wrapping_mul(0x100000001b3);
    }
    h
}

struct Rng(u64);
impl Rng {
    fn next(&mut self) -> u64 {
        self.0 = self.0.wrapping_add(0x9E3779B97F4A7C15);
        let mut z = self.0;
        z = (z ^ (z >> 30)).wrapping_mul(0xBF58476D1CE4E5B9);
        z = (z ^ (z >> 27)).wrapping_mul(0x94D049BB133111EB);
        z ^ (z >> 31)
    }
    fn below(&mut self, n: u64) -> u64 {
        self.next() % n
    }
}

fn shuffle<T>(v: &mut [T], seed: u64) {
    let mut r = Rng(seed.wrapping_mul(0x2545F4914F6CDD1D) ^ 0xD37E);
    for i in (1..v.len()).rev() {
        let j = r.below(i as u64 + 1) as usize;
        v.swap(i, j);
    }
}

fn read_cases(path: &str) -> Vec<(String, String)> {
    let text = std::fs::read_to_string(path).unwrap_or_else(|e| panic!("cannot read {path}: {e}"));
    let mut out = vec![];
    for line in text.lines() {
        if line.trim().is_empty() {
            continue;
        }
        let parsed = parse(line).expect("bad case line");
        if let Some(Sexp::List(v)) = parsed.first() {
            if let (Some(Sexp::Str(id)), Some(Sexp::Str(src))) = (v.get(1), v.get(2)) {
                // a case with an include path (`create_shader_module(src, path, ..)`): the path travels in front
                // of the source, between two U+0001 marks (see `one`)
                let path = v.get(3).and_then(|p| match p {
                    Sexp::List(pv) => match pv.get(1) {
                        Some(Sexp::Str(s)) => Some(s.clone()),
                        _ => None,
                    },
                    _ => None,
                });
                match path {
                    Some(p) => out.push((id.clone(), format!("\u{1}{p}\u{1}{src}"))),
                    None => out.push((id.clone(), src.clone())),
                }
            }
        }
    }
    out
}

fn opts_of(i: usize) -> run::Opts {
    if i < 96 {
        run::Opts::from_index(i)
    } else {
        let mut o = run::Opts::from_index(i - 96);
        o.rustfmt = true;
        o
    }
}

/// `--expect-source`: every Ok result of an embedded-source call must carry `pub const SOURCE` = the input of THAT call
/// (C16 under concurrent calls); mismatches are collected as (fnv of the input, option, what) and printed by main
static EXPECT_SOURCE: std::sync::atomic::AtomicBool = std::sync::atomic::AtomicBool::new(false);
static SOURCE_MISMATCHES: std::sync::Mutex<Vec<(u64, usize, String)>> = std::sync::Mutex::new(Vec::new());

fn embedded_source(text: &str) -> Result<String, String> {
    let fx = verif_harness::facts::extract(text).map_err(|e| format!("result does not read: {}", e.chars().take(80).collect::<String>()))?;
    fn find<'a>(s: &'a Sexp, tag: &str) -> Option<&'a Sexp> {
        if let Sexp::List(v) = s {
            v.iter().find(|c| matches!(c, Sexp::List(cv) if matches!(cv.first(), Some(Sexp::Atom(a)) if a == tag)))
        } else {
            None
        }
    }
    let src = find(&fx, "source").ok_or("no source fact")?;
    let some = find(src, "some").ok_or("no SOURCE constant")?;
    let lit = find(some, "literal").ok_or("SOURCE is not a string literal")?;
    match lit {
        Sexp::List(v) => match v.get(1) {
            Some(Sexp::Str(s)) => Ok(s.clone()),
            _ => Err("SOURCE literal without value".into()),
        },
        _ => Err("SOURCE literal without value".into()),
    }
}

/// (hash, len, class) of the result bytes of one call.
fn one(src: &str, opt: usize) -> (u64, usize, u8) {
    let (path, src): (Option<&str>, &str) = match src.strip_prefix('\u{1}').and_then(|r| r.split_once('\u{1}')) {
        Some((p, s)) => (Some(p), s),
        None => (None, src),
    };
    let o = run::run_real(src, path, opts_of(opt));
    if let (run::Outcome::Ok(t), None, true) = (&o, path, EXPECT_SOURCE.load(std::sync::atomic::Ordering::Relaxed)) {
        let what = match embedded_source(t) {
            Ok(s) if s == src => None,
            Ok(s) => Some(format!("SOURCE holds {} bytes that are not the {} bytes of this call's input (fnv {:016x} vs {:016x})", s.len(), src.len(), fnv(s.as_bytes()), fnv(src.as_bytes()))),
            Err(e) => Some(e),
        };
        if let Some(w) = what {
            SOURCE_MISMATCHES.lock().unwrap_or_else(|e| e.into_inner()).push((fnv(src.as_bytes()), opt, w));
        }
    }
    let (bytes, class) = match &o {
        run::Outcome::Ok(t) => (format!("ok:{t}"), 0u8),
        run::Outcome::Err(e) => {
            let emitted = catch_unwind(AssertUnwindSafe(|| e.emit_to_string(src)))
                .unwrap_or_else(|p| format!("emit-panic:{}", run::panic_message(p)));
            (format!("err:{e}\n{emitted}"), 1u8)
        }
        run::Outcome::Panic(m) => (format!("panic:{m}"), 2u8),
    };
    (fnv(bytes.as_bytes()), bytes.len(), class)
}

struct Args {
    files: Vec<String>,
    opts: Vec<usize>,
    children: usize,
    threads: usize,
    strace: bool,
    strace_limit: usize,
    child: Option<u64>,
}

fn parse_args() -> Args {
    let args: Vec<String> = std::env::args().collect();
    let mut a = Args { files: vec![], opts: vec![0], children: 4, threads: 16, strace: false, strace_limit: usize::MAX, child: None };
    let mut i = 1;
    while i < args.len() {
        match args[i].as_str() {
            "--cases" => {
                a.files.push(args[i + 1].clone());
                i += 1;
            }
            "--opts" => {
                a.opts = args[i + 1].split(',').map(|x| x.parse().unwrap()).collect();
                i += 1;
            }
            "--children" => {
                a.children = args[i + 1].parse().unwrap();
                i += 1;
            }
            "--threads" => {
                a.threads = args[i + 1].parse().unwrap();
                i += 1;
            }
            "--strace" => a.strace = true,
            "--expect-source" => EXPECT_SOURCE.store(true, std::sync::atomic::Ordering::Relaxed),
            "--strace-limit" => {
                a.strace_limit = args[i + 1].parse().unwrap();
                i += 1;
            }
            "--child" => {
                a.child = Some(args[i + 1].parse().unwrap());
                i += 1;
            }
            other => panic!("unknown arg {other}"),
        }
        i += 1;
    }
    a
}

fn load(files: &[String]) -> Vec<(String, String)> {
    let mut all = vec![];
    let mut seen: BTreeMap<String, usize> = BTreeMap::new();
    for f in files {
        for (id, src) in read_cases(f) {
            let n = seen.entry(id.clone()).or_insert(0);
            *n += 1;
            let id = if *n > 1 { format!("{id}#{n}") } else { id };
            all.push((id, src));
        }
    }
    all
}

fn child_main(a: &Args, k: u64) {
    run::silence_panics();
    let cases = load(&a.files);
    let mut order: Vec<(usize, usize)> = vec![];
    for ci in 0..cases.len().min(a.strace_limit) {
        for &o in &a.opts {
            order.push((ci, o));
        }
    }
    shuffle(&mut order, k);
    let _ = std::fs::metadata(MARK_BEGIN);
    let mut lines = Vec::with_capacity(order.len());
    for (ci, o) in order {
        let (h, len, _) = one(&cases[ci].1, o);
        lines.push(format!(
            "{}",
            tagged("out", vec![string(&cases[ci].0), nat(o as u64), atom(format!("{h:016x}")), nat(len as u64)]).render()
        ));
    }
    let _ = std::fs::metadata(MARK_END);
    println!("{}", lines.join("\n"));
}

fn snapshot_state() -> (Vec<(String, String)>, String) {
    let mut env: Vec<(String, String)> = std::env::vars_os()
        .map(|(k, v)| (k.to_string_lossy().to_string(), v.to_string_lossy().to_string()))
        .collect();
    env.sort();
    let cwd = std::env::current_dir().map(|p| p.display().to_string()).unwrap_or_default();
    (env, cwd)
}

fn child_command(a: &Args, k: u64, abs_files: &[String]) -> Command {
    let exe = std::env::current_exe().unwrap();
    let mut c = Command::new(exe);
    configure_child(&mut c, a, k, abs_files, true);
    c
}

fn configure_child(c: &mut Command, a: &Args, k: u64, abs_files: &[String], own_args: bool) {
    if own_args {
        c.arg("--child").arg(k.to_string());
        for f in abs_files {
            c.arg("--cases").arg(f);
        }
        c.arg("--opts").arg(a.opts.iter().map(|o| o.to_string()).collect::<Vec<_>>().join(","));
    }
    let cwd = format!("{}/cwd{k}", proc_dir());
    std::fs::create_dir_all(format!("{cwd}/home")).unwrap();
    std::fs::create_dir_all(format!("{cwd}/tmp")).unwrap();
    let mut r = Rng(k ^ 0xE57);
    let langs = ["C", "en_US.UTF-8", "de_DE.UTF-8", "tr_TR.UTF-8", "ja_JP.eucJP", "POSIX"];
    let bts = [None, Some("0"), Some("1"), Some("full")];
    c.env_clear();
    c.env("PATH", std::env::var("PATH").unwrap_or_default());
    c.env("HOME", format!("{cwd}/home"));
    c.env("LANG", langs[(k as usize) % langs.len()]);
    c.env("LC_ALL", langs[(k as usize + 1) % langs.len()]);
    c.env("TMPDIR", format!("{cwd}/tmp"));
    if let Some(b) = bts[(k as usize) % bts.len()] {
        c.env("RUST_BACKTRACE", b);
    }
    c.env(format!("DET_{:x}", r.next()), format!("{:x}", r.next()));
    if k % 2 == 1 {
        // what a build script sees when cargo cross-compiles (and a few tool conventions): none of it is an input of the generator
        for (key, val) in [
            ("CARGO_CFG_TARGET_ARCH", "wasm32"), ("CARGO_CFG_TARGET_OS", "unknown"), ("CARGO_CFG_TARGET_FAMILY", "wasm"),
            ("CARGO_CFG_TARGET_POINTER_WIDTH", "32"), ("CARGO_CFG_TARGET_ENDIAN", "big"), ("CARGO_CFG_WINDOWS", ""), ("CARGO_CFG_TARGET_ENV", "msvc"),
            ("TARGET", "wasm32-unknown-unknown"), ("HOST", "x86_64-pc-windows-msvc"), ("PROFILE", "release"), ("OPT_LEVEL", "3"), ("DEBUG", "false"),
            ("NUM_JOBS", "1"), ("OUT_DIR", "/nonexistent/out"), ("CARGO_MANIFEST_DIR", "/nonexistent/crate"), ("CARGO_PKG_NAME", "x"),
            ("CARGO_FEATURE_SERDE", "1"), ("CARGO_FEATURE_GLAM", "1"), ("RUSTFMT", "/nonexistent/rustfmt"), ("RUSTC", "/nonexistent/rustc"),
            ("CARGO", "/nonexistent/cargo"), ("RUSTFLAGS", "-C debug-assertions"), ("CARGO_ENCODED_RUSTFLAGS", "--cfg\u{1f}x"), ("RUST_LOG", "trace"),
            ("NO_COLOR", "1"), ("CLICOLOR_FORCE", "1"), ("TERM", "dumb"), ("COLUMNS", "20"), ("CI", "true"), ("SOURCE_DATE_EPOCH", "0"),
            ("WGSL_TO_WGPU_RUSTFMT", "0"), ("WGPU_BACKEND", "gl"), ("NAGA_VALIDATE", "0"), ("TZ", "Pacific/Kiritimati"),
        ] {
            c.env(key, val);
        }
    }
    c.current_dir(&cwd);
}

type Table = BTreeMap<(String, usize), (u64, usize)>;

fn parse_out(text: &str) -> Vec<(String, usize, u64, usize)> {
    let mut v = vec![];
    for line in text.lines() {
        if !line.starts_with("(out ") {
            continue;
        }
        if let Some(p) = parse(line) {
            if let Some(Sexp::List(l)) = p.first() {
                if let (Some(Sexp::Str(id)), Some(Sexp::Atom(o)), Some(Sexp::Atom(h)), Some(Sexp::Atom(len))) =
                    (l.get(1), l.get(2), l.get(3), l.get(4))
                {
                    v.push((id.clone(), o.parse().unwrap(), u64::from_str_radix(h, 16).unwrap(), len.parse().unwrap()));
                }
            }
        }
    }
    v
}

// ---------------------------------------------------------------- strace log analysis

struct Call {
    pid: String,
    name: String,
    args: String,
    ret: String,
}

fn parse_strace(log: &str) -> Vec<Call> {
    let mut pending: BTreeMap<String, String> = BTreeMap::new();
    let mut calls = vec![];
    for line in log.lines() {
        let line = line.trim_end();
        let (pid, rest) = match line.split_once(char::is_whitespace) {
            Some((p, r)) if p.chars().all(|c| c.is_ascii_digit()) => (p.to_string(), r.trim_start().to_string()),
            _ => continue,
        };
        let full = if let Some(stripped) = rest.strip_suffix("<unfinished ...>") {
            pending.insert(pid.clone(), stripped.trim_end().to_string());
            continue;
        } else if rest.starts_with("<... ") {
            let after = rest.split_once("resumed>").map(|x| x.1).unwrap_or("");
            let head = pending.remove(&pid).unwrap_or_default();
            format!("{head}{after}")
        } else {
            rest
        };
        if full.starts_with("+++") || full.starts_with("---") {
            continue;
        }
        let (name, after) = match full.split_once('(') {
            Some(x) => x,
            None => continue,
        };
        // "...args)   = ret": the last " = " that is preceded (modulo blanks) by ')'
        let (args, ret) = match after.rfind(" = ") {
            Some(p) if after[..p].trim_end().ends_with(')') => {
                let a = after[..p].trim_end();
                (a[..a.len() - 1].to_string(), after[p + 3..].trim().to_string())
            }
            _ => (after.to_string(), "?".to_string()),
        };
        calls.push(Call { pid, name: name.trim().to_string(), args, ret });
    }
    calls
}

/// quoted strings of a strace argument list (escape sequences kept as printed)
fn quoted(args: &str) -> Vec<String> {
    let mut out = vec![];
    let cs: Vec<char> = args.chars().collect();
    let mut i = 0;
    while i < cs.len() {
        if cs[i] == '"' {
            let mut s = String::new();
            i += 1;
            while i < cs.len() && cs[i] != '"' {
                if cs[i] == '\\' && i + 1 < cs.len() {
                    s.push(cs[i]);
                    i += 1;
                }
                s.push(cs[i]);
                i += 1;
            }
            out.push(s);
        } else if cs[i] == '[' || cs[i] == '{' {
            // argv / env / struct: stop, paths come first
            break;
        }
        i += 1;
    }
    out
}

fn boring_read(p: &str) -> bool {
    p.starts_with("/proc/")
        || p.starts_with("/sys/")
        || p.starts_with("/lib/")
        || p.starts_with("/lib64/")
        || p.starts_with("/usr/lib/")
        || p.starts_with("/usr/lib64/")
        || p.starts_with("/usr/share/locale")
        || p.starts_with("/usr/lib/locale")
        || p == "/etc/ld.so.cache"
        || p == "/etc/ld.so.preload"
        || p.contains(".so.")
        || p.ends_with(".so")
}

fn strace_report(a: &Args, abs_files: &[String]) -> Option<Sexp> {
    let strace_ok = Command::new("strace").arg("-V").stdout(Stdio::null()).stderr(Stdio::null()).status().map(|s| s.success()).unwrap_or(false);
    if !strace_ok {
        return None;
    }
    let log = format!("{}/determinism_strace.log", proc_dir());
    let _ = std::fs::remove_file(&log);
    let exe = std::env::current_exe().unwrap();
    let mut c = Command::new("strace");
    c.args(["-f", "-s", "256", "-e", "trace=%file,%process", "-o", &log]);
    c.arg(&exe);
    c.arg("--child").arg("99");
    for f in abs_files {
        c.arg("--cases").arg(f);
    }
    c.arg("--opts").arg(a.opts.iter().map(|o| o.to_string()).collect::<Vec<_>>().join(","));
    if a.strace_limit != usize::MAX {
        c.arg("--strace-limit").arg(a.strace_limit.to_string());
    }
    configure_child(&mut c, a, 99, abs_files, false);
    let out = c.stdout(Stdio::piped()).stderr(Stdio::null()).output().ok()?;
    let n_out = parse_out(&String::from_utf8_lossy(&out.stdout)).len();
    let text = std::fs::read_to_string(&log).ok()?;
    let calls = parse_strace(&text);
    let uses_rustfmt = a.opts.iter().any(|o| *o >= 96);
    let exe_s = exe.display().to_string();
    let mut phase = 0; // 0 startup, 1 generator calls, 2 after
    let mut foreign: BTreeSet<String> = BTreeSet::new(); // pids that exec'd another program
    let mut main_pid: Option<String> = None;
    let mut writes: BTreeMap<String, usize> = BTreeMap::new();
    let mut execs: BTreeMap<String, usize> = BTreeMap::new();
    let mut expected_execs: BTreeMap<String, usize> = BTreeMap::new();
    let mut reads: BTreeMap<String, usize> = BTreeMap::new();
    let mut others: BTreeMap<String, usize> = BTreeMap::new();
    let mut startup_reads: BTreeMap<String, usize> = BTreeMap::new();
    let mut forks = 0usize;
    let mut foreign_calls = 0usize;
    for c in &calls {
        let q = quoted(&c.args);
        let path = q.first().cloned().unwrap_or_default();
        if path == MARK_BEGIN {
            phase = 1;
            continue;
        }
        if path == MARK_END {
            phase = 2;
            continue;
        }
        if c.name == "execve" {
            if main_pid.is_none() {
                main_pid = Some(c.pid.clone());
                continue; // the child itself
            }
            let ok = c.ret.starts_with('0');
            let is_rustfmt = path.ends_with("/rustfmt");
            if ok {
                foreign.insert(c.pid.clone());
            }
            let label = format!("{path}{}", if ok { "" } else { " (failed)" });
            if path == exe_s || (uses_rustfmt && is_rustfmt) {
                *expected_execs.entry(label).or_insert(0) += 1;
            } else {
                *execs.entry(label).or_insert(0) += 1;
            }
            continue;
        }
        let is_clone = matches!(c.name.as_str(), "clone" | "clone3" | "fork" | "vfork");
        if foreign.contains(&c.pid) {
            // threads / children of an exec'd program belong to it
            if is_clone {
                let new = c.ret.split_whitespace().next().unwrap_or("").to_string();
                if new.chars().all(|ch| ch.is_ascii_digit()) && !new.is_empty() {
                    foreign.insert(new);
                }
            }
            foreign_calls += 1;
            continue;
        }
        if is_clone {
            if phase == 1 {
                forks += 1;
            }
            continue;
        }
        let is_open = matches!(c.name.as_str(), "open" | "openat" | "openat2" | "creat");
        let write_open = is_open
            && (c.name == "creat" || ["O_WRONLY", "O_RDWR", "O_CREAT", "O_TRUNC", "O_APPEND"].iter().any(|f| c.args.contains(f)));
        let mutating = matches!(
            c.name.as_str(),
            "mkdir" | "mkdirat" | "unlink" | "unlinkat" | "rename" | "renameat" | "renameat2" | "rmdir" | "symlink"
                | "symlinkat" | "link" | "linkat" | "chmod" | "fchmodat" | "chown" | "fchownat" | "lchown" | "truncate"
                | "mknod" | "mknodat" | "utime" | "utimes" | "utimensat" | "chdir" | "chroot" | "setxattr"
        );
        let failed = c.ret.starts_with("-1");
        let label = format!("{}{}", path, if failed { " (failed)" } else { "" });
        if phase == 1 {
            if write_open || mutating {
                *writes.entry(format!("{} {}", c.name, label)).or_insert(0) += 1;
            } else if is_open {
                if !boring_read(&path) {
                    *reads.entry(label).or_insert(0) += 1;
                }
            } else if !path.is_empty() && !boring_read(&path) && !matches!(c.name.as_str(), "wait4" | "exit_group" | "exit" | "kill") {
                *others.entry(format!("{} {}", c.name, label)).or_insert(0) += 1;
            }
        } else if phase == 0 && is_open && !failed && !boring_read(&path) {
            *startup_reads.entry(label).or_insert(0) += 1;
        }
    }
    let render = |m: &BTreeMap<String, usize>| -> Vec<Sexp> { m.iter().map(|(k, n)| list(vec![string(k), nat(*n as u64)])).collect() };
    Some(tagged(
        "strace",
        vec![
            tagged("writes", render(&writes)),
            tagged("execs", render(&execs)),
            tagged("reads", render(&reads)),
            tagged("other-file-calls", render(&others)),
            tagged("expected-execs", render(&expected_execs)),
            tagged("forks-during-calls", vec![nat(forks as u64)]),
            tagged("calls-inside-exec'd-programs-ignored", vec![nat(foreign_calls as u64)]),
            tagged("startup-reads", render(&startup_reads)),
            tagged("markers-seen", vec![boolean(phase == 2)]),
            tagged("results", vec![nat(n_out as u64)]),
            tagged("syscalls-logged", vec![nat(calls.len() as u64)]),
            tagged("log", vec![string(&log)]),
        ],
    ))
}

fn main() {
    let a = parse_args();
    if let Some(k) = a.child {
        child_main(&a, k);
        return;
    }
    run::silence_panics();
    std::fs::create_dir_all(proc_dir()).unwrap();
    let abs_files: Vec<String> = a
        .files
        .iter()
        .map(|f| std::fs::canonicalize(f).map(|p| p.display().to_string()).unwrap_or(f.clone()))
        .collect();
    let cases = std::sync::Arc::new(load(&a.files));
    let mut mismatches = 0usize;
    let report = |id: &str, opt: usize, wher: &str| {
        println!("{}", tagged("nondeterministic", vec![string(id), nat(opt as u64), string(wher)]).render());
    };

    // (b) children first started so that they run concurrently with (a)
    let children: Vec<_> = (1..=a.children as u64)
        .map(|k| {
            child_command(&a, k, &abs_files)
                .stdin(Stdio::null())
                .stdout(Stdio::piped())
                .stderr(Stdio::null())
                .spawn()
                .expect("spawn child")
        })
        .collect();

    let before = snapshot_state();

    // (a) in-process
    let mut base: Table = BTreeMap::new();
    let mut classes = [0usize; 3];
    let mut runs = 0usize;
    for (id, src) in cases.iter() {
        for &o in &a.opts {
            let r1 = one(src, o);
            let r2 = one(src, o);
            runs += 2;
            classes[r1.2 as usize] += 1;
            if (r1.0, r1.1) != (r2.0, r2.1) {
                mismatches += 1;
                report(id, o, "in-process-back-to-back");
            }
            base.insert((id.clone(), o), (r1.0, r1.1));
        }
    }
    for (id, src) in cases.iter().rev() {
        for &o in a.opts.iter().rev() {
            let r = one(src, o);
            runs += 1;
            if base.get(&(id.clone(), o)) != Some(&(r.0, r.1)) {
                mismatches += 1;
                report(id, o, "in-process-after-all-other-cases");
            }
        }
    }

    // (c) threads
    let mut handles = vec![];
    for t in 0..a.threads as u64 {
        let cases = cases.clone();
        let opts = a.opts.clone();
        let h = std::thread::Builder::new()
            .stack_size(32 << 20)
            .spawn(move || {
                let mut order: Vec<(usize, usize)> = vec![];
                for ci in 0..cases.len() {
                    for &o in &opts {
                        order.push((ci, o));
                    }
                }
                shuffle(&mut order, 1000 + t);
                order
                    .into_iter()
                    .map(|(ci, o)| {
                        let r = one(&cases[ci].1, o);
                        (ci, o, r.0, r.1)
                    })
                    .collect::<Vec<_>>()
            })
            .unwrap();
        handles.push(h);
    }
    let mut thread_runs = 0usize;
    for (t, h) in handles.into_iter().enumerate() {
        match h.join() {
            Ok(v) => {
                for (ci, o, hash, len) in v {
                    thread_runs += 1;
                    if base.get(&(cases[ci].0.clone(), o)) != Some(&(hash, len)) {
                        mismatches += 1;
                        report(&cases[ci].0, o, &format!("thread{t}"));
                    }
                }
            }
            Err(_) => {
                mismatches += 1;
                report("*", 0, &format!("thread{t} died"));
            }
        }
    }

    let after = snapshot_state();
    let mut state_changed = false;
    if before != after {
        state_changed = true;
        let mut items = vec![];
        if before.1 != after.1 {
            items.push(tagged("cwd", vec![string(&before.1), string(&after.1)]));
        }
        for kv in &after.0 {
            if !before.0.contains(kv) {
                items.push(tagged("env-now", vec![string(&kv.0), string(&kv.1)]));
            }
        }
        for kv in &before.0 {
            if !after.0.contains(kv) {
                items.push(tagged("env-was", vec![string(&kv.0), string(&kv.1)]));
            }
        }
        println!("{}", tagged("state-changed", items).render());
    }

    // (b) collect children
    let mut child_runs = 0usize;
    for (k, c) in children.into_iter().enumerate() {
        let k = k + 1;
        let out = c.wait_with_output().expect("child output");
        let child_text = String::from_utf8_lossy(&out.stdout).to_string();
        let rows = parse_out(&child_text);
        // a child prints nothing but its own result lines: anything else on its stdout was written by the generator calls
        // (a build script's stdout is cargo's directive channel)
        if let Some(stray) = child_text.lines().find(|l| !l.trim().is_empty() && !l.starts_with("(out ") && !l.starts_with("(child")) {
            mismatches += 1;
            report("*", 0, &format!("child{k} wrote to its standard output during generation: {}", stray.chars().take(100).collect::<String>()));
        }
        if !out.status.success() {
            mismatches += 1;
            report("*", 0, &format!("child{k} exited with {:?}", out.status));
        }
        let mut seen = 0usize;
        for (id, o, hash, len) in rows {
            seen += 1;
            child_runs += 1;
            if base.get(&(id.clone(), o)) != Some(&(hash, len)) {
                mismatches += 1;
                report(&id, o, &format!("child{k}"));
            }
        }
        if seen != base.len() {
            mismatches += 1;
            report("*", 0, &format!("child{k} produced {seen} of {} results", base.len()));
        }
    }

    // (d)
    let mut strace_done = atom("not-requested");
    if a.strace {
        let mut rep = strace_report(&a, &abs_files);
        if rep.as_ref().map(|s| s.render().contains("(markers-seen false)")).unwrap_or(false) {
            rep = strace_report(&a, &abs_files); // one retry
        }
        match rep {
            Some(s) => {
                println!("{}", s.render());
                strace_done = atom("done");
            }
            None => {
                println!("(strace unavailable)");
                strace_done = atom("unavailable");
            }
        }
    }

    let mut source_mismatches = 0u64;
    {
        let ms = SOURCE_MISMATCHES.lock().unwrap_or_else(|e| e.into_inner());
        let mut seen = BTreeSet::new();
        for (h, o, w) in ms.iter() {
            let id = cases.iter().find(|(_, s)| fnv(s.as_bytes()) == *h).map(|(i, _)| i.clone()).unwrap_or_else(|| "?".into());
            if seen.insert((id.clone(), *o)) {
                source_mismatches += 1;
                println!("{}", tagged("source-mismatch", vec![string(&id), nat(*o as u64), string(w)]).render());
            }
        }
    }
    println!(
        "{}",
        tagged(
            "summary",
            vec![
                tagged("source-checked", vec![boolean(EXPECT_SOURCE.load(std::sync::atomic::Ordering::Relaxed)), nat(source_mismatches)]),
                tagged("cases", vec![nat(cases.len() as u64)]),
                tagged("opts", a.opts.iter().map(|o| nat(*o as u64)).collect()),
                tagged("pairs", vec![nat(base.len() as u64)]),
                tagged(
                    "outcomes",
                    vec![
                        list(vec![atom("ok"), nat(classes[0] as u64)]),
                        list(vec![atom("err"), nat(classes[1] as u64)]),
                        list(vec![atom("panic"), nat(classes[2] as u64)]),
                    ]
                ),
                tagged("in-process-runs", vec![nat(runs as u64)]),
                tagged("children", vec![nat(a.children as u64), tagged("runs", vec![nat(child_runs as u64)])]),
                tagged("threads", vec![nat(a.threads as u64), tagged("runs", vec![nat(thread_runs as u64)])]),
                tagged("state-changed", vec![boolean(state_changed)]),
                tagged("strace", vec![strace_done]),
                tagged("mismatches", vec![nat(mismatches as u64)]),
            ]
        )
        .render()
    );
}
