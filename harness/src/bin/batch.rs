//! batch: compile the generator's output against the REAL crates (C01) and measure encase layouts (C10).
//!
//!   batch check  --cases <file> --opts 0,5,23 --out <file> [--jobs N] [--keep] [--template DIR] [--root DIR]
//!   batch encase --cases <file> --out <file> [--jobs N] [--keep] [--compare] [--template DIR] [--root DIR]
//!
//! Case file: lines `(src "id" "wgsl" [...])` as printed by the `cases` binary.
//!
//! mode check, one line per (case, option index), in input order:
//!   (mod "case id" <opt> ok)
//!   (mod "case id" <opt> (permitted "layout-assert"|"pod-padding" ...))
//!   (mod "case id" <opt> (reject ("E0277"|"none" "first line of message" "source line") ...))
//!   (mod "case id" <opt> (syntax "message"))
//!   (mod "case id" <opt> (gen "class" "detail"))   class: parse validation nonConsecutive duplicateBinding
//!                                                  other panic nalgebra-unavailable
//!   (summary modules N ok A permitted B reject C syntax D gen G seconds S)
//!
//! mode encase (option index 20 = encase + glam), per case:
//!   (wgsl "case id" "Struct" (size n) (field "name" offset) ...)      -- naga Layouter, every named struct
//!   (mod "case id" 20 ...)                                            -- only when the module is not `ok`
//!   (encase "case id" "Struct" (len k bytes) ... (field "name" offset|none) ...)
//!   (skip "case id" "Struct" "reason")
//!   with --compare additionally (cmp "case id" "Struct" match|(mismatch "what" ...)) and counts in the summary
//!   (summary cases N modules M structs S measured A skipped B seconds S)
//!
//! mode exec (C07 / C12 / C14 / C16: the generated code is RUN, compiled by rustc against the real wgpu):
//!   (vbuf "case" <opt> "Struct" (stride n) (step Vertex|Instance) (attr <Format> <offset> <location>) ...)
//!        = `Struct::vertex_buffer_layout(step)` as evaluated by the compiler (offset_of!, size_of)
//!   (ventry "case" <opt> "<entry>_entry" (call j) (entry_point "name") (constants n) (buf (stride ..) (step ..) (attr ..)...) ...)
//!        call j passes `Instance` to the j-th step-mode parameter only (j = number of parameters: none)
//!   (fentry "case" <opt> "<entry>_entry" (entry_point "name") (targets n) (constants n))
//!   (source "case" <opt> <len> <fnv64> same|differs)   the embedded SOURCE literal as the compiler reads it
//!   (ovr "case" <opt> <assignment> finite|nonfinite (fields (field "name" ty none|(some v)) ...) (map ("key" f64bits) ...))
//!        = `OverrideConstants { .. }.constants()`
//!   (ovres "case" <opt> <assignment> finite|nonfinite [ (keys-differ (expected..) (got..)) ] accepted [(value-differs ..)...] | (rejected "Variant" "text"))
//!        = the REAL naga::back::pipeline_constants::process_overrides on that map: accepted, and every supplied
//!          value is the literal the resolved module holds for that override
//!
//! How a module verdict is reached (per scratch crate = per job):
//!   phase A  `cargo check` of all modules; modules with parser-level errors are recorded as `syntax`,
//!            removed, and the check is repeated (at most 6 rounds).  Every error is attributed to the
//!            module whose file the primary span (or its macro call site) lies in.
//!   phase B  modules with errors other than the two permitted kinds are removed; in the permitted
//!            modules the failing `assert!(..)` is replaced by `()` and `derive(bytemuck::Pod)` by an
//!            `unsafe impl`; the crate is checked again.  rustc does not run its deny-by-default lints
//!            (and may skip other late passes) while the crate has errors, so only a clean run proves
//!            `ok`; a module that fails here is a `reject` as well.  Repeated until clean (cap 4).
use std::collections::{BTreeMap, BTreeSet};
use std::fmt::Write as _;
use std::path::{Path, PathBuf};
use std::process::Command;
use std::time::Instant;
use verif_harness::run::{self, Opts, Outcome};
use verif_harness::sexp::{self, atom, nat, string, tagged, Sexp};

// ---------------------------------------------------------------------------------------------
// minimal JSON (cargo --message-format=json); the harness has no serde_json dependency
// ---------------------------------------------------------------------------------------------

#[derive(Debug, Clone)]
enum J {
    Null,
    Bool(#[allow(dead_code)] bool),
    Num(f64),
    Str(String),
    Arr(Vec<J>),
    Obj(Vec<(String, J)>),
}

static JNULL: J = J::Null;

impl J {
    fn get(&self, k: &str) -> &J {
        match self {
            J::Obj(v) => v.iter().find(|(n, _)| n == k).map(|(_, x)| x).unwrap_or(&JNULL),
            _ => &JNULL,
        }
    }
    fn str(&self) -> Option<&str> {
        match self {
            J::Str(s) => Some(s),
            _ => None,
        }
    }
    fn num(&self) -> Option<usize> {
        match self {
            J::Num(n) => Some(*n as usize),
            _ => None,
        }
    }
    fn arr(&self) -> &[J] {
        match self {
            J::Arr(v) => v,
            _ => &[],
        }
    }
    fn is_null(&self) -> bool {
        matches!(self, J::Null)
    }
}

struct JP<'a> {
    s: &'a [u8],
    i: usize,
}

impl<'a> JP<'a> {
    fn ws(&mut self) {
        while self.i < self.s.len() && matches!(self.s[self.i], b' ' | b'\t' | b'\n' | b'\r') {
            self.i += 1;
        }
    }
    fn lit(&mut self, w: &str, v: J) -> Option<J> {
        if self.s[self.i..].starts_with(w.as_bytes()) {
            self.i += w.len();
            Some(v)
        } else {
            None
        }
    }
    fn hex4(&mut self) -> Option<u32> {
        let t = std::str::from_utf8(self.s.get(self.i..self.i + 4)?).ok()?;
        self.i += 4;
        u32::from_str_radix(t, 16).ok()
    }
    fn string(&mut self) -> Option<String> {
        self.i += 1; // opening quote
        let mut out: Vec<u8> = vec![];
        loop {
            let c = *self.s.get(self.i)?;
            self.i += 1;
            match c {
                b'"' => break,
                b'\\' => {
                    let e = *self.s.get(self.i)?;
                    self.i += 1;
                    let ch = match e {
                        b'n' => '\n',
                        b't' => '\t',
                        b'r' => '\r',
                        b'b' => '\u{8}',
                        b'f' => '\u{c}',
                        b'u' => {
                            let mut n = self.hex4()?;
                            if (0xd800..0xdc00).contains(&n) && self.s[self.i..].starts_with(b"\\u") {
                                self.i += 2;
                                let lo = self.hex4()?;
                                n = 0x10000 + ((n - 0xd800) << 10) + (lo.wrapping_sub(0xdc00) & 0x3ff);
                            }
                            char::from_u32(n).unwrap_or('\u{fffd}')
                        }
                        other => other as char,
                    };
                    let mut b = [0u8; 4];
                    out.extend_from_slice(ch.encode_utf8(&mut b).as_bytes());
                }
                _ => out.push(c),
            }
        }
        Some(String::from_utf8_lossy(&out).into_owned())
    }
    fn value(&mut self) -> Option<J> {
        self.ws();
        match *self.s.get(self.i)? {
            b'n' => self.lit("null", J::Null),
            b't' => self.lit("true", J::Bool(true)),
            b'f' => self.lit("false", J::Bool(false)),
            b'"' => self.string().map(J::Str),
            b'[' => {
                self.i += 1;
                let mut v = vec![];
                loop {
                    self.ws();
                    if *self.s.get(self.i)? == b']' {
                        self.i += 1;
                        break;
                    }
                    v.push(self.value()?);
                    self.ws();
                    if *self.s.get(self.i)? == b',' {
                        self.i += 1;
                    }
                }
                Some(J::Arr(v))
            }
            b'{' => {
                self.i += 1;
                let mut v = vec![];
                loop {
                    self.ws();
                    if *self.s.get(self.i)? == b'}' {
                        self.i += 1;
                        break;
                    }
                    let k = self.string()?;
                    self.ws();
                    if *self.s.get(self.i)? != b':' {
                        return None;
                    }
                    self.i += 1;
                    let x = self.value()?;
                    v.push((k, x));
                    self.ws();
                    if *self.s.get(self.i)? == b',' {
                        self.i += 1;
                    }
                }
                Some(J::Obj(v))
            }
            _ => {
                let st = self.i;
                while self.i < self.s.len() && matches!(self.s[self.i], b'-' | b'+' | b'.' | b'e' | b'E' | b'0'..=b'9') {
                    self.i += 1;
                }
                std::str::from_utf8(&self.s[st..self.i]).ok()?.parse().ok().map(J::Num)
            }
        }
    }
}

fn parse_json(s: &str) -> Option<J> {
    JP { s: s.as_bytes(), i: 0 }.value()
}

// ---------------------------------------------------------------------------------------------
// diagnostics
// ---------------------------------------------------------------------------------------------

#[derive(Debug, Clone)]
struct Diag {
    /// ('m' | 't', k) when the error lies in `src/m<k>.rs` / `src/t<k>.rs`
    file: Option<(char, usize)>,
    code: String,
    msg: String,
    line: String,
    /// line_start, column_start, line_end, column_end (1-based, chars, end exclusive) in that file
    span: Option<[usize; 4]>,
    /// the primary span itself is in the file (not reached through a macro expansion)
    direct: bool,
    macros: Vec<String>,
    all_text: String,
}

fn file_of(name: &str) -> Option<(char, usize)> {
    let base = name.rsplit('/').next()?;
    let parent_ok = name == format!("src/{base}") || name.ends_with(&format!("/src/{base}"));
    if !parent_ok {
        return None;
    }
    let stem = base.strip_suffix(".rs")?;
    let kind = stem.chars().next()?;
    if kind != 'm' && kind != 't' {
        return None;
    }
    stem[1..].parse().ok().map(|k| (kind, k))
}

/// Walk a span and its macro call sites outwards until one lies in a module file.
fn locate(span: &J, macros: &mut Vec<String>) -> Option<((char, usize), [usize; 4], String, bool)> {
    let mut cur = span;
    let mut direct = true;
    loop {
        if let Some(f) = cur.get("file_name").str().and_then(file_of) {
            let sp = [
                cur.get("line_start").num()?,
                cur.get("column_start").num()?,
                cur.get("line_end").num()?,
                cur.get("column_end").num()?,
            ];
            let text: Vec<&str> = cur.get("text").arr().iter().filter_map(|t| t.get("text").str()).map(|t| t.trim()).collect();
            let text: String = text.join(" ").chars().take(240).collect();
            // keep collecting macro names of the remaining chain
            let mut e = cur.get("expansion");
            while !e.is_null() {
                if let Some(n) = e.get("macro_decl_name").str() {
                    macros.push(n.to_string());
                }
                e = e.get("span").get("expansion");
            }
            return Some((f, sp, text, direct));
        }
        let e = cur.get("expansion");
        if e.is_null() {
            return None;
        }
        if let Some(n) = e.get("macro_decl_name").str() {
            macros.push(n.to_string());
        }
        direct = false;
        cur = e.get("span");
    }
}

fn collect_text(m: &J, out: &mut String) {
    if let Some(s) = m.get("message").str() {
        out.push_str(s);
        out.push('\n');
    }
    for s in m.get("spans").arr() {
        if let Some(l) = s.get("label").str() {
            out.push_str(l);
            out.push('\n');
        }
    }
    for c in m.get("children").arr() {
        collect_text(c, out);
    }
}

fn diag_of(m: &J) -> Option<Diag> {
    let level = m.get("level").str()?;
    if !level.starts_with("error") {
        return None;
    }
    let full = m.get("message").str().unwrap_or("");
    if full.starts_with("aborting due to") {
        return None;
    }
    let code = m.get("code").get("code").str().unwrap_or("none").to_string();
    let msg = full.lines().next().unwrap_or("").to_string();
    let mut all_text = String::new();
    collect_text(m, &mut all_text);
    let spans = m.get("spans").arr();
    let mut macros = vec![];
    let mut found = None;
    for s in spans.iter().filter(|s| matches!(s.get("is_primary"), J::Bool(true))) {
        macros.clear();
        found = locate(s, &mut macros);
        if found.is_some() {
            break;
        }
    }
    if found.is_none() {
        for s in spans.iter().chain(m.get("children").arr().iter().flat_map(|c| c.get("spans").arr().iter())) {
            let mut mm = vec![];
            if let Some(f) = locate(s, &mut mm) {
                found = Some((f.0, f.1, f.2, false));
                macros = mm;
                break;
            }
        }
    }
    let msg = strip_module_paths(&if level == "error" { msg } else { format!("{level}: {msg}") });
    Some(match found {
        Some((file, sp, text, direct)) => Diag { file: Some(file), code, msg, line: text, span: Some(sp), direct, macros, all_text },
        None => Diag { file: None, code, msg, line: String::new(), span: None, direct: false, macros, all_text },
    })
}

/// rustc qualifies a type name (`m484::BufWorld`) only when another module of the crate declares
/// the same name, which depends on how the modules were distributed over the scratch crates.
fn strip_module_paths(s: &str) -> String {
    let cs: Vec<char> = s.chars().collect();
    let mut out = String::new();
    let mut i = 0;
    while i < cs.len() {
        let boundary = i == 0 || !(cs[i - 1].is_alphanumeric() || cs[i - 1] == '_');
        if boundary && (cs[i] == 'm' || cs[i] == 't') {
            let mut j = i + 1;
            while j < cs.len() && cs[j].is_ascii_digit() {
                j += 1;
            }
            if j > i + 1 && cs.get(j) == Some(&':') && cs.get(j + 1) == Some(&':') {
                i = j + 2;
                continue;
            }
        }
        if boundary && cs[i..].starts_with(&['b', 'a', 't', 'c', 'h', '_', 's', 'c', 'r', 'a', 't', 'c', 'h', ':', ':']) {
            i += 15;
            continue;
        }
        out.push(cs[i]);
        i += 1;
    }
    out
}

fn permitted_kind(d: &Diag) -> Option<&'static str> {
    if d.code == "E0080"
        && d.all_text.contains("does not match WGSL")
        && d.macros.iter().any(|m| m.starts_with("assert"))
        && d.line.contains("assert!")
    {
        return Some("layout-assert");
    }
    if d.code == "E0080" && d.all_text.contains("derive(Pod) was applied to a type with padding") {
        return Some("pod-padding");
    }
    // older bytemuck_derive: transmute between the struct and a padding-free byte array
    if d.code == "E0512" && d.macros.iter().any(|m| m.contains("Pod")) {
        return Some("pod-padding");
    }
    None
}

fn is_parse_level(d: &Diag) -> bool {
    d.code == "none"
        && d.direct
        && !d.msg.starts_with("cannot find")
        && !d.msg.starts_with("cannot determine")
        && !d.msg.starts_with("error: internal")
}

// ---------------------------------------------------------------------------------------------
// scratch crate
// ---------------------------------------------------------------------------------------------

const MOD_ATTR: &str =
    "#[allow(dead_code, unused, non_snake_case, non_camel_case_types, non_upper_case_globals, clippy::all)]";

struct Unit {
    k: usize,
    case_id: String,
    #[allow(dead_code)]
    opt: usize,
    text: String,
}

#[derive(Debug, Clone)]
enum Verdict {
    Ok,
    /// passed the first pass, but the confirmation rounds ended before a clean compile of the remaining modules: errors of a
    /// later compiler phase (pattern / borrow checking) may still be hidden behind other modules' errors - not judged
    Unconfirmed,
    Permitted(Vec<String>),
    Reject(Vec<(String, String, String)>),
    Syntax(String),
}

struct Crate {
    dir: PathBuf,
    target: PathBuf,
}

struct CargoRun {
    diags: Vec<Diag>,
    success: bool,
    stderr_tail: String,
    seconds: f64,
}

impl Crate {
    fn create(dir: &Path, target: &Path, template: &Path) -> Crate {
        std::fs::create_dir_all(dir.join("src")).expect("create scratch crate");
        std::fs::create_dir_all(dir.join(".cargo")).unwrap();
        for f in ["Cargo.toml", "Cargo.lock", ".cargo/config.toml"] {
            std::fs::copy(template.join(f), dir.join(f)).unwrap_or_else(|e| panic!("copy template {f}: {e}"));
        }
        Crate { dir: dir.to_path_buf(), target: target.to_path_buf() }
    }

    fn write_src(&self, name: &str, text: &str) {
        std::fs::write(self.dir.join("src").join(name), text).expect("write module");
    }

    fn cargo(&self, args: &[&str]) -> CargoRun {
        let t0 = Instant::now();
        let out = Command::new("cargo")
            .args(args)
            .args(["--offline", "--message-format=json"])
            .current_dir(&self.dir)
            .env("CARGO_TARGET_DIR", &self.target)
            .env("CARGO_NET_OFFLINE", "true")
            .env_remove("RUSTFLAGS")
            .env_remove("CARGO_ENCODED_RUSTFLAGS")
            .env_remove("CARGO_BUILD_TARGET_DIR")
            .env_remove("RUSTC_WRAPPER")
            .output()
            .expect("run cargo");
        let mut diags = vec![];
        let mut success = out.status.success();
        for line in String::from_utf8_lossy(&out.stdout).lines() {
            if !line.starts_with('{') {
                continue;
            }
            let Some(j) = parse_json(line) else { continue };
            match j.get("reason").str() {
                Some("compiler-message") => {
                    // only our own crate; dependencies are not expected to emit errors
                    if let Some(d) = diag_of(j.get("message")) {
                        diags.push(d);
                    }
                }
                Some("build-finished") => {
                    if let J::Bool(b) = j.get("success") {
                        success = *b;
                    }
                }
                _ => {}
            }
        }
        let err = String::from_utf8_lossy(&out.stderr);
        let tail: Vec<&str> = err.lines().rev().take(12).collect();
        let stderr_tail = tail.into_iter().rev().collect::<Vec<_>>().join("\n");
        CargoRun { diags, success, stderr_tail, seconds: t0.elapsed().as_secs_f64() }
    }
}

/// Replace the failing pieces of a `permitted` module so that the rest of it can be checked.
fn neutralise(text: &str, diags: &[Diag]) -> Option<String> {
    let chars: Vec<char> = text.chars().collect();
    let mut line_start = vec![0usize];
    for (i, c) in chars.iter().enumerate() {
        if *c == '\n' {
            line_start.push(i + 1);
        }
    }
    let off = |l: usize, c: usize| -> Option<usize> { line_start.get(l.checked_sub(1)?).map(|s| s + c - 1) };
    // (start, end, replacement), plus appended impls
    let mut edits: BTreeMap<(usize, usize), String> = BTreeMap::new();
    let mut tail = String::new();
    for d in diags {
        let sp = d.span?;
        let (a, b) = (off(sp[0], sp[1])?, off(sp[2], sp[3])?);
        if a > b || b > chars.len() {
            return None;
        }
        let piece: String = chars[a..b].iter().collect();
        match permitted_kind(d)? {
            "layout-assert" => {
                if !piece.starts_with("assert!") {
                    return None;
                }
                edits.insert((a, b), "()".to_string());
            }
            _ => {
                if piece.trim() != "bytemuck::Pod" {
                    return None;
                }
                if edits.contains_key(&(a, b)) {
                    continue;
                }
                // drop the following comma as well
                let mut e = b;
                while e < chars.len() && chars[e].is_whitespace() {
                    e += 1;
                }
                if e < chars.len() && chars[e] == ',' {
                    e += 1;
                } else {
                    e = b;
                }
                // name of the struct the derive is attached to
                let rest: String = chars[b..].iter().collect();
                let p = rest.find("struct ")?;
                let name: String =
                    rest[p + 7..].chars().take_while(|c| !c.is_whitespace() && !matches!(*c, '{' | '<' | '(' | ';')).collect();
                if name.is_empty() {
                    return None;
                }
                edits.insert((a, e), String::new());
                let _ = writeln!(tail, "unsafe impl bytemuck::Pod for {name} {{}}");
            }
        }
    }
    let mut out: Vec<char> = chars;
    for ((a, b), rep) in edits.into_iter().rev() {
        out.splice(a..b, rep.chars());
    }
    let mut s: String = out.into_iter().collect();
    s.push('\n');
    s.push_str(&tail);
    Some(s)
}

fn classify(ds: &[Diag]) -> Verdict {
    let kinds: Vec<Option<&str>> = ds.iter().map(permitted_kind).collect();
    if !ds.is_empty() && kinds.iter().all(|k| k.is_some()) {
        let set: BTreeSet<String> = kinds.into_iter().map(|k| k.unwrap().to_string()).collect();
        Verdict::Permitted(set.into_iter().collect())
    } else {
        Verdict::Reject(errors_of(ds, ""))
    }
}

fn errors_of(ds: &[Diag], prefix: &str) -> Vec<(String, String, String)> {
    let mut seen = BTreeSet::new();
    let mut v = vec![];
    for d in ds {
        let e = (d.code.clone(), format!("{prefix}{}", d.msg), d.line.clone());
        if seen.insert(e.clone()) {
            v.push(e);
        }
    }
    v
}

struct JobStats {
    rounds: Vec<(String, usize, f64)>,
    unattributed: Vec<String>,
    unconfirmed: usize,
}

/// Phases A and B for one scratch crate. `extra_lib` is prepended to lib.rs.
fn verdicts_for(krate: &Crate, units: &[&Unit], cargo_args: &[&str], log: &str) -> (BTreeMap<usize, Verdict>, JobStats) {
    let mut stats = JobStats { rounds: vec![], unattributed: vec![], unconfirmed: 0 };
    let mut verdict: BTreeMap<usize, Verdict> = BTreeMap::new();
    let by_k: BTreeMap<usize, &Unit> = units.iter().map(|u| (u.k, *u)).collect();
    let mut active: BTreeSet<usize> = by_k.keys().copied().collect();
    for u in units {
        krate.write_src(&format!("m{}.rs", u.k), &u.text);
    }
    let write_lib = |active: &BTreeSet<usize>| {
        let mut lib = String::new();
        for k in active {
            let _ = writeln!(lib, "{MOD_ATTR} pub mod m{k};");
        }
        krate.write_src("lib.rs", &lib);
    };
    let group = |run: &CargoRun, stats: &mut JobStats| -> BTreeMap<usize, Vec<Diag>> {
        let mut per: BTreeMap<usize, Vec<Diag>> = BTreeMap::new();
        for d in &run.diags {
            match d.file {
                Some(('m', k)) => per.entry(k).or_default().push(d.clone()),
                _ => stats.unattributed.push(format!("{} {}", d.code, d.msg)),
            }
        }
        per
    };
    let infra_failure = |run: &CargoRun, per: &BTreeMap<usize, Vec<Diag>>| !run.success && per.is_empty();

    // ---- phase A
    let mut per: BTreeMap<usize, Vec<Diag>> = BTreeMap::new();
    for round in 0..6 {
        if active.is_empty() {
            per.clear();
            break;
        }
        write_lib(&active);
        let run = krate.cargo(cargo_args);
        stats.rounds.push((format!("A{round}"), active.len(), run.seconds));
        eprintln!("[{log}] round A{round}: {} modules, {:.1}s, {} errors", active.len(), run.seconds, run.diags.len());
        per = group(&run, &mut stats);
        if infra_failure(&run, &per) {
            eprintln!("[{log}] cargo failed without attributable errors:\n{}", run.stderr_tail);
            for k in &active {
                verdict.insert(*k, Verdict::Reject(vec![("cargo".into(), run.stderr_tail.replace('\n', " | "), String::new())]));
            }
            return (verdict, stats);
        }
        let syn_mods: Vec<usize> = per.iter().filter(|(_, ds)| ds.iter().any(is_parse_level)).map(|(k, _)| *k).collect();
        if syn_mods.is_empty() {
            break;
        }
        for k in syn_mods {
            let d = per[&k].iter().find(|d| is_parse_level(d)).unwrap();
            verdict.insert(k, Verdict::Syntax(format!("{} @ {}", d.msg, d.line)));
            active.remove(&k);
        }
        if round == 5 {
            per.retain(|k, _| active.contains(k));
        }
    }
    let clean_first_pass = per.is_empty();
    let mut permitted_diags: BTreeMap<usize, Vec<Diag>> = BTreeMap::new();
    for (k, ds) in &per {
        if !active.contains(k) {
            continue;
        }
        let v = classify(ds);
        match &v {
            Verdict::Permitted(_) => {
                permitted_diags.insert(*k, ds.clone());
            }
            _ => {
                active.remove(k);
            }
        }
        verdict.insert(*k, v);
    }

    // ---- phase B
    if !clean_first_pass || !verdict.is_empty() {
        let mut confirmed = false;
        for (k, ds) in &permitted_diags {
            match neutralise(&by_k[k].text, ds) {
                Some(t) => krate.write_src(&format!("m{k}.rs"), &t),
                None => {
                    // cannot be checked further: keep the verdict, leave it out of the confirmation
                    active.remove(k);
                    stats.unconfirmed += 1;
                }
            }
        }
        for round in 0..8 {
            if active.is_empty() {
                confirmed = true;
                break;
            }
            write_lib(&active);
            let run = krate.cargo(cargo_args);
            stats.rounds.push((format!("B{round}"), active.len(), run.seconds));
            eprintln!("[{log}] round B{round}: {} modules, {:.1}s, {} errors", active.len(), run.seconds, run.diags.len());
            let per = group(&run, &mut stats);
            if infra_failure(&run, &per) {
                eprintln!("[{log}] cargo failed without attributable errors:\n{}", run.stderr_tail);
                break;
            }
            if per.is_empty() && run.success {
                confirmed = true;
                break;
            }
            for (k, ds) in per {
                let prefix = if permitted_diags.contains_key(&k) {
                    "[after removing the permitted failures] "
                } else {
                    "[hidden in the first pass] "
                };
                verdict.insert(k, Verdict::Reject(errors_of(&ds, prefix)));
                active.remove(&k);
            }
        }
        if !confirmed {
            stats.unconfirmed += active.len();
            for k in &active {
                if matches!(verdict.get(k), Some(Verdict::Ok) | None) {
                    verdict.insert(*k, Verdict::Unconfirmed);
                }
            }
        }
        // restore the original text (for --keep)
        for k in permitted_diags.keys() {
            krate.write_src(&format!("m{k}.rs"), &by_k[k].text);
        }
    }
    for k in by_k.keys() {
        verdict.entry(*k).or_insert(Verdict::Ok);
    }
    (verdict, stats)
}

// ---------------------------------------------------------------------------------------------
// shared driver pieces
// ---------------------------------------------------------------------------------------------

struct Args {
    mode: String,
    cases: PathBuf,
    out: PathBuf,
    opts: Vec<usize>,
    jobs: usize,
    keep: bool,
    compare: bool,
    template: PathBuf,
    root: PathBuf,
}

fn parse_args() -> Args {
    let argv: Vec<String> = std::env::args().collect();
    if argv.len() < 2 {
        eprintln!("usage: batch check|encase|exec --cases F --out F [--opts i,j] [--jobs N] [--keep] [--compare]");
        std::process::exit(2);
    }
    let mut a = Args {
        mode: argv[1].clone(),
        cases: PathBuf::new(),
        out: PathBuf::new(),
        opts: vec![0],
        jobs: std::thread::available_parallelism().map(|n| n.get()).unwrap_or(4).min(16),
        keep: false,
        compare: false,
        template: PathBuf::from(concat!(env!("CARGO_MANIFEST_DIR"), "/batch_template")),
        root: PathBuf::from(std::env::var("VERIF_TARGET_DIR").map(|d| format!("{d}/batch")).unwrap_or_else(|_| "/verif/target/batch".into())),
    };
    let mut i = 2;
    while i < argv.len() {
        let val = |i: usize| argv.get(i + 1).unwrap_or_else(|| panic!("missing value for {}", argv[i])).clone();
        match argv[i].as_str() {
            "--cases" => {
                a.cases = val(i).into();
                i += 1;
            }
            "--out" => {
                a.out = val(i).into();
                i += 1;
            }
            "--opts" => {
                a.opts = val(i).split(',').map(|x| x.trim().parse().expect("option index")).collect();
                i += 1;
            }
            "--jobs" => {
                a.jobs = val(i).parse::<usize>().expect("jobs").max(1);
                i += 1;
            }
            "--template" => {
                a.template = val(i).into();
                i += 1;
            }
            "--root" => {
                a.root = val(i).into();
                i += 1;
            }
            "--keep" => a.keep = true,
            "--compare" => a.compare = true,
            other => panic!("unknown argument {other}"),
        }
        i += 1;
    }
    assert!(!a.cases.as_os_str().is_empty() && !a.out.as_os_str().is_empty(), "--cases and --out are required");
    a
}

fn read_cases(path: &Path) -> Vec<(String, String)> {
    let text = std::fs::read_to_string(path).unwrap_or_else(|e| panic!("read {}: {e}", path.display()));
    let mut v = vec![];
    for line in text.lines() {
        if line.trim().is_empty() {
            continue;
        }
        let parsed = sexp::parse(line).expect("bad case line");
        match parsed.first() {
            Some(Sexp::List(items)) => match (items.first(), items.get(1), items.get(2)) {
                (Some(Sexp::Atom(t)), Some(Sexp::Str(id)), Some(Sexp::Str(src))) if t == "src" => {
                    v.push((id.clone(), src.clone()))
                }
                _ => panic!("bad case line: {}", &line[..line.len().min(80)]),
            },
            _ => panic!("bad case line"),
        }
    }
    v
}

fn first_line(s: &str) -> String {
    let l = s.lines().next().unwrap_or("");
    l.chars().take(300).collect()
}

fn gen_failure(o: &Outcome) -> (String, String) {
    use wgsl_to_wgpu::CreateModuleError as E;
    match o {
        Outcome::Ok(_) => unreachable!(),
        Outcome::Err(e) => match e {
            E::NonConsecutiveBindGroups => ("nonConsecutive".into(), String::new()),
            E::DuplicateBinding { binding } => ("duplicateBinding".into(), binding.to_string()),
            E::ParseError { error } => ("parse".into(), first_line(error.message())),
            E::ValidationError { error } => ("validation".into(), first_line(&format!("{error}"))),
            #[allow(unreachable_patterns)]
            other => ("other".into(), first_line(&format!("{other}"))),
        },
        Outcome::Panic(m) => ("panic".into(), first_line(m)),
    }
}

/// Target directory of job j; job 0 uses the shared one, the others a copy of it (so the
/// dependency build is paid once).
fn target_dir(root: &Path, j: usize) -> PathBuf {
    if j == 0 {
        root.join("target")
    } else {
        root.join(format!("target_{j}"))
    }
}

/// Build the dependencies once in job 0's target dir and seed the other jobs' dirs from it.
fn warm_up(root: &Path, template: &Path, work: &Path, jobs: usize, cargo_args: &[&str]) -> f64 {
    let t0 = Instant::now();
    let k = Crate::create(&work.join("warm"), &target_dir(root, 0), template);
    krate_empty_lib(&k);
    let r = k.cargo(cargo_args);
    if !r.success {
        panic!("dependency build failed:\n{}", r.stderr_tail);
    }
    for j in 1..jobs {
        let t = target_dir(root, j);
        if !t.join("debug").exists() {
            copy_tree(&target_dir(root, 0), &t);
        }
    }
    let _ = std::fs::remove_dir_all(work.join("warm"));
    let s = t0.elapsed().as_secs_f64();
    eprintln!("[batch] dependencies ready in {s:.1}s");
    s
}

/// Copy a cargo target dir, keeping modification times (fingerprints) and leaving out the
/// artifacts of the scratch crate itself.  (rlibs cannot be left out: proc-macro crates and
/// build scripts of the check graph link against them.)
fn copy_tree(from: &Path, to: &Path) {
    std::fs::create_dir_all(to).expect("create target copy");
    let Ok(rd) = std::fs::read_dir(from) else { return };
    for e in rd.flatten() {
        let name = e.file_name().to_string_lossy().into_owned();
        let (src, dst) = (e.path(), to.join(&name));
        let Ok(meta) = e.metadata() else { continue };
        if meta.is_dir() {
            if name == "incremental" || name.starts_with("batch_scratch-") {
                continue;
            }
            copy_tree(&src, &dst);
        } else if meta.is_file() {
            let in_deps = from.file_name().map(|n| n == "deps").unwrap_or(false);
            if name.contains("batch_scratch") || name == ".cargo-lock" {
                continue;
            }
            let _ = in_deps;
            if std::fs::copy(&src, &dst).is_ok() {
                if let (Ok(m), Ok(f)) = (meta.modified(), std::fs::File::options().write(true).open(&dst)) {
                    let _ = f.set_modified(m);
                }
            }
        }
    }
}

fn krate_empty_lib(k: &Crate) {
    k.write_src("lib.rs", "");
}

/// Remove what earlier scratch packages left in the shared target dirs (fingerprints are keyed by
/// the scratch crate's path, which contains the pid, so they are never reused).
fn sweep_target(t: &Path) {
    for (sub, prefix) in [("debug/.fingerprint", "batch_scratch-"), ("debug/deps", "libbatch_scratch-"), ("debug/deps", "batch_scratch-")] {
        if let Ok(rd) = std::fs::read_dir(t.join(sub)) {
            for e in rd.flatten() {
                // only stale entries: another `batch` process may be using the same target dir
                let old = e
                    .metadata()
                    .and_then(|m| m.modified())
                    .ok()
                    .and_then(|t| t.elapsed().ok())
                    .map(|d| d.as_secs() > 900)
                    .unwrap_or(false);
                if old && e.file_name().to_string_lossy().starts_with(prefix) {
                    let p = e.path();
                    let _ = if p.is_dir() { std::fs::remove_dir_all(&p) } else { std::fs::remove_file(&p) };
                }
            }
        }
    }
}

fn verdict_sexp(v: &Verdict) -> Sexp {
    match v {
        Verdict::Ok => atom("ok"),
        Verdict::Unconfirmed => atom("unconfirmed"),
        Verdict::Permitted(k) => tagged("permitted", k.iter().map(|s| string(s.clone())).collect()),
        Verdict::Reject(es) => tagged(
            "reject",
            es.iter().map(|(c, m, l)| Sexp::List(vec![string(c.clone()), string(m.clone()), string(l.clone())])).collect(),
        ),
        Verdict::Syntax(m) => tagged("syntax", vec![string(m.clone())]),
    }
}

enum Slot {
    Gen(String, String),
    Unit(usize),
}

/// Run the generator for every (case, option) pair.
fn generate(cases: &[(String, String)], opts: &[usize]) -> (Vec<Unit>, Vec<(String, usize, Slot)>) {
    run::silence_panics();
    let mut units = vec![];
    let mut slots = vec![];
    for (id, src) in cases {
        for &oi in opts {
            let o = Opts::from_index(oi);
            if o.repr == 2 {
                slots.push((id.clone(), oi, Slot::Gen("nalgebra-unavailable".into(), String::new())));
                continue;
            }
            match run::run_real(src, None, o) {
                Outcome::Ok(text) => {
                    let k = units.len();
                    units.push(Unit { k, case_id: id.clone(), opt: oi, text });
                    slots.push((id.clone(), oi, Slot::Unit(k)));
                }
                other => {
                    let (c, d) = gen_failure(&other);
                    slots.push((id.clone(), oi, Slot::Gen(c, d)));
                }
            }
        }
    }
    let _ = std::panic::take_hook();
    (units, slots)
}

/// Distribute the units over `jobs` scratch crates and compute all verdicts.
fn check_units(a: &Args, work: &Path, units: &[Unit], cargo_args: &[&str]) -> (BTreeMap<usize, Verdict>, Vec<JobStats>) {
    let jobs = a.jobs.min(units.len().max(1));
    let mut parts: Vec<Vec<&Unit>> = (0..jobs).map(|_| vec![]).collect();
    for u in units {
        parts[u.k % jobs].push(u);
    }
    let mut all = BTreeMap::new();
    let mut stats = vec![];
    std::thread::scope(|s| {
        let handles: Vec<_> = parts
            .iter()
            .enumerate()
            .map(|(j, part)| {
                let dir = work.join(format!("j{j}"));
                let target = target_dir(&a.root, j);
                let template = a.template.clone();
                s.spawn(move || {
                    let k = Crate::create(&dir, &target, &template);
                    verdicts_for(&k, part, cargo_args, &format!("job {j}"))
                })
            })
            .collect();
        for h in handles {
            let (v, st) = h.join().expect("job thread");
            all.extend(v);
            stats.push(st);
        }
    });
    (all, stats)
}

fn render_line(out: &mut String, s: Sexp) {
    s.render_into(out);
    out.push('\n');
}

// ---------------------------------------------------------------------------------------------
// mode check
// ---------------------------------------------------------------------------------------------

fn mode_check(a: &Args) {
    let t0 = Instant::now();
    let cases = read_cases(&a.cases);
    let work = a.root.join(format!("check_{}", std::process::id()));
    std::fs::create_dir_all(&work).unwrap();
    let (units, slots) = generate(&cases, &a.opts);
    eprintln!("[batch] {} cases x {} option sets: {} modules generated in {:.1}s", cases.len(), a.opts.len(), units.len(), t0.elapsed().as_secs_f64());
    let args = ["check", "--lib"];
    let jobs = a.jobs.min(units.len().max(1));
    let warm = warm_up(&a.root, &a.template, &work, jobs, &args);
    let t1 = Instant::now();
    let (verdicts, stats) = check_units(a, &work, &units, &args);
    let check_secs = t1.elapsed().as_secs_f64();

    let mut out = String::new();
    let (mut ok, mut permitted, mut reject, mut syntax, mut gen) = (0u32, 0u32, 0u32, 0u32, 0u32);
    for (id, oi, slot) in &slots {
        let body = match slot {
            Slot::Gen(c, d) => {
                gen += 1;
                tagged("gen", vec![string(c.clone()), string(d.clone())])
            }
            Slot::Unit(k) => {
                let v = &verdicts[k];
                match v {
                    Verdict::Ok => ok += 1,
                    Verdict::Unconfirmed => {}
                    Verdict::Permitted(_) => permitted += 1,
                    Verdict::Reject(_) => reject += 1,
                    Verdict::Syntax(_) => syntax += 1,
                }
                verdict_sexp(v)
            }
        };
        render_line(&mut out, tagged("mod", vec![string(id.clone()), nat(*oi as u64), body]));
    }
    let unattributed: BTreeSet<String> = stats.iter().flat_map(|s| s.unattributed.iter().cloned()).collect();
    for u in &unattributed {
        render_line(&mut out, tagged("unattributed", vec![string(u.clone())]));
    }
    let unconfirmed: usize = stats.iter().map(|s| s.unconfirmed).sum();
    if unconfirmed > 0 {
        render_line(&mut out, tagged("unconfirmed", vec![nat(unconfirmed as u64)]));
    }
    let secs = t0.elapsed().as_secs_f64();
    render_line(
        &mut out,
        Sexp::List(vec![
            atom("summary"),
            atom("modules"),
            nat(units.len() as u64),
            atom("ok"),
            nat(ok),
            atom("permitted"),
            nat(permitted),
            atom("reject"),
            nat(reject),
            atom("syntax"),
            nat(syntax),
            atom("gen"),
            nat(gen),
            atom("seconds"),
            atom(format!("{secs:.1}")),
        ]),
    );
    std::fs::write(&a.out, out).expect("write result file");
    eprintln!(
        "[batch] modules {} ok {ok} permitted {permitted} reject {reject} syntax {syntax} gen {gen}; deps {warm:.1}s, checks {check_secs:.1}s ({} jobs), total {secs:.1}s",
        units.len(),
        jobs
    );
    finish(a, &work, jobs);
}

fn finish(a: &Args, work: &Path, jobs: usize) {
    for j in 0..jobs {
        sweep_target(&target_dir(&a.root, j));
    }
    if a.keep {
        eprintln!("[batch] scratch crates kept under {}", work.display());
    } else {
        let _ = std::fs::remove_dir_all(work);
    }
}

// ---------------------------------------------------------------------------------------------
// mode encase
// ---------------------------------------------------------------------------------------------

struct WgslStruct {
    name: String,
    size: u32,
    align: u32,
    fields: Vec<(String, u32)>,
    /// stride of a trailing runtime-sized array
    rt_stride: Option<u32>,
}

fn wgsl_layouts(src: &str) -> Result<Vec<WgslStruct>, String> {
    let module = naga::front::wgsl::parse_str(src).map_err(|e| e.message().to_string())?;
    let mut l = naga::proc::Layouter::default();
    l.update(module.to_ctx()).map_err(|e| format!("{e}"))?;
    let mut v = vec![];
    for (h, t) in module.types.iter() {
        if let (Some(name), naga::TypeInner::Struct { members, .. }) = (&t.name, &t.inner) {
            let rt_stride = members.last().and_then(|m| match module.types[m.ty].inner {
                naga::TypeInner::Array { size: naga::ArraySize::Dynamic, stride, .. } => Some(stride),
                _ => None,
            });
            v.push(WgslStruct {
                name: name.clone(),
                size: l[h].size,
                align: l[h].alignment.round_up(1),
                fields: members.iter().map(|m| (m.name.clone().unwrap_or_default(), m.offset)).collect(),
                rt_stride,
            });
        }
    }
    Ok(v)
}

struct RustStruct {
    name: String,
    fields: Vec<(String, syn::Type)>,
    shader_type: bool,
}

fn collect_structs(items: &[syn::Item], out: &mut Vec<RustStruct>) {
    use quote::ToTokens;
    for it in items {
        match it {
            syn::Item::Struct(s) => {
                let mut shader_type = false;
                for attr in &s.attrs {
                    if attr.path().is_ident("derive") {
                        let t = attr.meta.to_token_stream().to_string().replace(' ', "");
                        if t.contains("encase::ShaderType") {
                            shader_type = true;
                        }
                    }
                }
                if let syn::Fields::Named(n) = &s.fields {
                    out.push(RustStruct {
                        name: s.ident.to_string(),
                        fields: n.named.iter().map(|f| (f.ident.as_ref().unwrap().to_string(), f.ty.clone())).collect(),
                        shader_type,
                    });
                }
            }
            // generated structs live at the top level of the module; nested modules hold
            // bind groups, vertex/compute helpers etc.
            _ => {}
        }
    }
}

/// Rust expression constructing a value of `ty`, drawing sentinels from `c: &mut Ctr`
/// (`k` = length of runtime arrays).
fn value_expr(ty: &syn::Type, structs: &BTreeMap<String, Result<(), String>>) -> Result<String, String> {
    use quote::ToTokens;
    match ty {
        syn::Type::Array(a) => {
            let inner = value_expr(&a.elem, structs)?;
            let n = a.len.to_token_stream().to_string();
            Ok(format!("std::array::from_fn::<_, {n}, _>(|_| {inner})"))
        }
        syn::Type::Path(p) if p.qself.is_none() => {
            let segs: Vec<String> = p.path.segments.iter().map(|s| s.ident.to_string()).collect();
            let name = segs.join("::");
            let last = p.path.segments.last().unwrap();
            let vecn = |t: &str, s: &str, n: usize| format!("glam::{t}::new({})", vec![s; n].join(", "));
            let f = "c.f32()";
            let u = "c.u32()";
            let i = "c.i32()";
            Ok(match name.as_str() {
                "f32" => f.into(),
                "u32" => u.into(),
                "i32" => i.into(),
                "glam::Vec2" => vecn("Vec2", f, 2),
                "glam::Vec3" => vecn("Vec3", f, 3),
                "glam::Vec4" => vecn("Vec4", f, 4),
                "glam::UVec2" => vecn("UVec2", u, 2),
                "glam::UVec3" => vecn("UVec3", u, 3),
                "glam::UVec4" => vecn("UVec4", u, 4),
                "glam::IVec2" => vecn("IVec2", i, 2),
                "glam::IVec3" => vecn("IVec3", i, 3),
                "glam::IVec4" => vecn("IVec4", i, 4),
                "glam::Mat2" => format!("glam::Mat2::from_cols({})", vec![vecn("Vec2", f, 2); 2].join(", ")),
                "glam::Mat3" => format!("glam::Mat3::from_cols({})", vec![vecn("Vec3", f, 3); 3].join(", ")),
                "glam::Mat4" => format!("glam::Mat4::from_cols({})", vec![vecn("Vec4", f, 4); 4].join(", ")),
                "Vec" => {
                    let arg = match &last.arguments {
                        syn::PathArguments::AngleBracketed(ab) => ab.args.iter().find_map(|x| match x {
                            syn::GenericArgument::Type(t) => Some(t.clone()),
                            _ => None,
                        }),
                        _ => None,
                    }
                    .ok_or("Vec without element type")?;
                    let inner = value_expr(&arg, structs)?;
                    format!("(0..k).map(|_| {inner}).collect::<Vec<_>>()")
                }
                other => match structs.get(other) {
                    Some(Ok(())) => format!("make_{other}(c, 0)"),
                    Some(Err(e)) => return Err(format!("contains {other}: {e}")),
                    None => return Err(format!("unsupported type {other}")),
                },
            })
        }
        other => Err(format!("unsupported type {}", other.to_token_stream())),
    }
}

/// Names of generated structs mentioned in a field type.
fn leaf_names(ty: &syn::Type, names: &BTreeSet<String>, out: &mut Vec<String>) {
    match ty {
        syn::Type::Array(a) => leaf_names(&a.elem, names, out),
        syn::Type::Path(p) => {
            if let Some(last) = p.path.segments.last() {
                if p.path.segments.len() == 1 && names.contains(&last.ident.to_string()) {
                    out.push(last.ident.to_string());
                }
                if let syn::PathArguments::AngleBracketed(ab) = &last.arguments {
                    for x in &ab.args {
                        if let syn::GenericArgument::Type(t) = x {
                            leaf_names(t, names, out);
                        }
                    }
                }
            }
        }
        _ => {}
    }
}

fn has_runtime_array(s: &RustStruct) -> bool {
    s.fields.last().map(|(_, t)| matches!(t, syn::Type::Path(p) if p.path.segments.last().map(|s| s.ident == "Vec").unwrap_or(false))).unwrap_or(false)
}

struct TestPlan {
    /// source of `t<k>.rs`
    code: String,
    /// structs measured by it
    measured: Vec<String>,
    skipped: Vec<(String, String)>,
}

fn rust_str(s: &str) -> String {
    format!("{s:?}")
}

fn quoted(s: &str) -> String {
    let mut o = String::new();
    sexp::quote_into(&mut o, s);
    o
}

fn plan_tests(u: &Unit) -> Result<TestPlan, String> {
    let file = syn::parse_file(&u.text).map_err(|e| format!("syn: {e}"))?;
    let mut structs = vec![];
    collect_structs(&file.items, &mut structs);
    // constructibility, resolved in dependency order (no cycles in WGSL)
    let names: BTreeSet<String> = structs.iter().map(|s| s.name.clone()).collect();
    let mut status: BTreeMap<String, Result<(), String>> = BTreeMap::new();
    loop {
        let mut progress = false;
        for s in &structs {
            if status.contains_key(&s.name) {
                continue;
            }
            let mut deps = vec![];
            for (_, ty) in &s.fields {
                leaf_names(ty, &names, &mut deps);
            }
            if deps.iter().any(|d| !status.contains_key(d)) {
                continue;
            }
            let mut verdict: Result<(), String> = Ok(());
            for (fname, ty) in &s.fields {
                if let Err(e) = value_expr(ty, &status) {
                    verdict = Err(format!("field {fname}: {e}"));
                    break;
                }
            }
            status.insert(s.name.clone(), verdict);
            progress = true;
        }
        if !progress {
            break;
        }
    }
    for s in &structs {
        status.entry(s.name.clone()).or_insert(Err("unresolved nested struct".into()));
    }

    let mut code = String::new();
    let _ = writeln!(code, "use super::m{} as m;\nuse super::support::*;\n", u.k);
    let mut body = String::new();
    let mut measured = vec![];
    let mut skipped = vec![];
    for s in &structs {
        if status[&s.name].is_ok() {
            let _ = writeln!(code, "pub fn make_{}(c: &mut Ctr, k: usize) -> m::{} {{\n    c.depth += 1;\n    let v = m::{} {{", s.name, s.name, s.name);
            for (i, (fname, ty)) in s.fields.iter().enumerate() {
                let e = value_expr(ty, &status).unwrap();
                let _ = writeln!(code, "        {fname}: {{ c.field({i}); {e} }},");
            }
            let _ = writeln!(code, "    }};\n    c.depth -= 1;\n    v\n}}");
        }
        if !s.shader_type {
            continue;
        }
        match &status[&s.name] {
            Err(e) => skipped.push((s.name.clone(), e.clone())),
            Ok(()) => {
                let prefix = format!("(encase {} {}", quoted(&u.case_id), quoted(&s.name));
                let fields: Vec<String> = s.fields.iter().map(|(n, _)| rust_str(&quoted(n))).collect();
                let ks = if has_runtime_array(s) { "&[0, 1, 3]" } else { "&[0]" };
                let _ = writeln!(body, "    report::<m::{}>({}, &[{}], {ks}, |c, k| make_{}(c, k));", s.name, rust_str(&prefix), fields.join(", "), s.name);
                measured.push(s.name.clone());
            }
        }
    }
    let _ = writeln!(code, "pub fn run() {{\n{body}}}");
    Ok(TestPlan { code, measured, skipped })
}

fn mode_encase(a: &Args) {
    let t0 = Instant::now();
    let cases = read_cases(&a.cases);
    let work = a.root.join(format!("encase_{}", std::process::id()));
    std::fs::create_dir_all(&work).unwrap();
    const OPT: usize = 20;
    let (units, slots) = generate(&cases, &[OPT]);
    let mut out = String::new();

    // expected layouts from naga
    let mut wgsl: BTreeMap<(String, String), WgslStruct> = BTreeMap::new();
    for (id, src) in &cases {
        match wgsl_layouts(src) {
            Ok(v) => {
                for s in v {
                    let mut items = vec![string(id.clone()), string(s.name.clone()), tagged("size", vec![nat(s.size)])];
                    for (n, o) in &s.fields {
                        items.push(tagged("field", vec![string(n.clone()), nat(*o)]));
                    }
                    render_line(&mut out, tagged("wgsl", items));
                    wgsl.insert((id.clone(), s.name.clone()), s);
                }
            }
            Err(e) => render_line(&mut out, tagged("wgsl-error", vec![string(id.clone()), string(first_line(&e))])),
        }
    }

    // 1. which modules compile at all (same procedure as mode check)
    let check_args = ["check", "--lib"];
    let jobs = a.jobs.min(units.len().max(1));
    warm_up(&a.root, &a.template, &work, jobs, &check_args);
    let (verdicts, _) = check_units(a, &work, &units, &check_args);
    for (id, oi, slot) in &slots {
        let body = match slot {
            Slot::Gen(c, d) => tagged("gen", vec![string(c.clone()), string(d.clone())]),
            Slot::Unit(k) => match &verdicts[k] {
                Verdict::Ok => continue,
                v => verdict_sexp(v),
            },
        };
        render_line(&mut out, tagged("mod", vec![string(id.clone()), nat(*oi as u64), body]));
    }

    // 2. test programs for the modules that compile
    let mut plans: BTreeMap<usize, TestPlan> = BTreeMap::new();
    let mut skips: Vec<(String, String, String)> = vec![];
    for u in &units {
        if !matches!(verdicts[&u.k], Verdict::Ok) {
            continue;
        }
        match plan_tests(u) {
            Ok(p) => {
                for (s, why) in &p.skipped {
                    skips.push((u.case_id.clone(), s.clone(), why.clone()));
                }
                if !p.measured.is_empty() {
                    plans.insert(u.k, p);
                }
            }
            Err(e) => skips.push((u.case_id.clone(), "*".into(), e)),
        }
    }
    let by_k: BTreeMap<usize, &Unit> = units.iter().map(|u| (u.k, u)).collect();
    // separate target dir for `cargo build`, so that the check-only dir (which gets copied per job) stays small
    let krate = Crate::create(&work.join("run"), &a.root.join("target_build"), &a.template);
    for f in ["support.rs", "main.rs"] {
        std::fs::copy(a.template.join("encase_src").join(f), krate.dir.join("src").join(f)).expect("copy encase_src");
    }
    for (k, p) in &plans {
        krate.write_src(&format!("m{k}.rs"), &by_k[k].text);
        krate.write_src(&format!("t{k}.rs"), &p.code);
    }
    let mut active: BTreeSet<usize> = plans.keys().copied().collect();
    let mut built = false;
    for round in 0..5 {
        let mut lib = String::from("pub mod support;\n");
        for k in &active {
            let _ = writeln!(lib, "{MOD_ATTR} pub mod m{k};\n{MOD_ATTR} pub mod t{k};");
        }
        lib.push_str("pub fn run_all(start: usize) {\n");
        for k in &active {
            let _ = writeln!(
                lib,
                "    if {k} >= start {{ println!(\"(begin {k})\"); let _ = std::panic::catch_unwind(|| t{k}::run()); }}"
            );
        }
        lib.push_str("}\n");
        krate.write_src("lib.rs", &lib);
        let run = krate.cargo(&["build"]);
        eprintln!("[encase] build round {round}: {} modules, {:.1}s, {} errors", active.len(), run.seconds, run.diags.len());
        if run.success {
            built = true;
            break;
        }
        let mut bad: BTreeMap<usize, String> = BTreeMap::new();
        for d in &run.diags {
            if let Some((_, k)) = d.file {
                bad.entry(k).or_insert_with(|| format!("test program does not compile: {} {} @ {}", d.code, d.msg, d.line));
            }
        }
        if bad.is_empty() {
            eprintln!("[encase] build failed without attributable errors:\n{}", run.stderr_tail);
            break;
        }
        for (k, why) in bad {
            active.remove(&k);
            skips.push((by_k[&k].case_id.clone(), "*".into(), why));
        }
    }

    // 3. run it; a crash (stack overflow, abort) loses only the module it happened in
    let mut measured_lines: Vec<String> = vec![];
    if built && !active.is_empty() {
        let exe = krate.target.join("debug").join("batch_scratch");
        let mut start = 0usize;
        for _ in 0..active.len() + 1 {
            let o = Command::new(&exe).arg(start.to_string()).output().expect("run test program");
            let mut last_begin = None;
            for line in String::from_utf8_lossy(&o.stdout).lines() {
                if let Some(rest) = line.strip_prefix("(begin ") {
                    last_begin = rest.trim_end_matches(')').parse::<usize>().ok();
                } else if line.starts_with("(encase ") {
                    measured_lines.push(line.to_string());
                }
            }
            if o.status.success() {
                break;
            }
            match last_begin {
                Some(k) => {
                    skips.push((by_k[&k].case_id.clone(), "*".into(), format!("test program crashed: {}", o.status)));
                    start = k + 1;
                }
                None => break,
            }
        }
    }
    let measured_count = measured_lines.len();
    for l in &measured_lines {
        out.push_str(l);
        out.push('\n');
    }
    for (c, s, why) in &skips {
        render_line(&mut out, tagged("skip", vec![string(c.clone()), string(s.clone()), string(why.clone())]));
    }

    // 4. optional comparison (for reports; the authoritative comparison is done by the caller)
    let (mut matches, mut mismatches) = (0u32, 0u32);
    if a.compare {
        for l in &measured_lines {
            let Some(p) = sexp::parse(l) else { continue };
            let Some(Sexp::List(items)) = p.first() else { continue };
            let (Some(Sexp::Str(case)), Some(Sexp::Str(name))) = (items.get(1), items.get(2)) else { continue };
            let Some(w) = wgsl.get(&(case.clone(), name.clone())) else { continue };
            let mut diffs: Vec<Sexp> = vec![];
            for it in &items[3..] {
                let Sexp::List(v) = it else { continue };
                match (v.first(), v.get(1), v.get(2)) {
                    (Some(Sexp::Atom(t)), Some(Sexp::Atom(k)), Some(got)) if t == "len" => {
                        let k: u32 = k.parse().unwrap_or(0);
                        let expect = match w.rt_stride {
                            None => w.size,
                            Some(stride) => {
                                let last = w.fields.last().map(|f| f.1).unwrap_or(0);
                                let raw = last + stride * k.max(1);
                                raw.div_ceil(w.align) * w.align
                            }
                        };
                        if got != &nat(expect) {
                            diffs.push(Sexp::List(vec![atom("len"), nat(k), atom("wgsl"), nat(expect), atom("encase"), got.clone()]));
                        }
                    }
                    (Some(Sexp::Atom(t)), Some(Sexp::Str(f)), Some(got)) if t == "field" => {
                        let expect = w.fields.iter().find(|x| &x.0 == f).map(|x| x.1);
                        let same = match expect {
                            Some(e) => got == &nat(e),
                            None => false,
                        };
                        if !same {
                            diffs.push(Sexp::List(vec![
                                atom("field"),
                                string(f.clone()),
                                atom("wgsl"),
                                expect.map(nat).unwrap_or(atom("none")),
                                atom("encase"),
                                got.clone(),
                            ]));
                        }
                    }
                    _ => {}
                }
            }
            let verdict = if diffs.is_empty() {
                matches += 1;
                atom("match")
            } else {
                mismatches += 1;
                tagged("mismatch", diffs)
            };
            render_line(&mut out, tagged("cmp", vec![string(case.clone()), string(name.clone()), verdict]));
        }
    }

    let secs = t0.elapsed().as_secs_f64();
    let structs_total = measured_count + skips.len();
    let mut summary = vec![
        atom("summary"),
        atom("cases"),
        nat(cases.len() as u64),
        atom("modules"),
        nat(units.len() as u64),
        atom("structs"),
        nat(structs_total as u64),
        atom("measured"),
        nat(measured_count as u64),
        atom("skipped"),
        nat(skips.len() as u64),
    ];
    if a.compare {
        summary.extend([atom("match"), nat(matches), atom("mismatch"), nat(mismatches)]);
    }
    summary.extend([atom("seconds"), atom(format!("{secs:.1}"))]);
    render_line(&mut out, Sexp::List(summary));
    std::fs::write(&a.out, out).expect("write result file");
    eprintln!("[encase] cases {} modules {} measured {measured_count} skipped {} match {matches} mismatch {mismatches} in {secs:.1}s", cases.len(), units.len(), skips.len());
    sweep_target(&a.root.join("target_build"));
    finish(a, &work, jobs);
}

// ---------------------------------------------------------------------------------------------
// mode exec: run the REAL generated code (C07 vertex buffer layouts, C12 override maps, C14 entry helpers)
// ---------------------------------------------------------------------------------------------

#[allow(dead_code)]
struct ExecPlan {
    code: String,
    vbufs: usize,
    ventries: usize,
    fentries: usize,
    ovr_assignments: usize,
}

fn type_text(t: &syn::Type) -> String {
    quote::ToTokens::to_token_stream(t).to_string().replace(' ', "")
}

/// values tried for an override field of the given Rust type; `(expression, is_finite)`
fn override_values(ty: &str) -> Option<Vec<(&'static str, bool)>> {
    Some(match ty {
        "bool" => vec![("true", true), ("false", true)],
        "i32" => vec![("0i32", true), ("1i32", true), ("-1i32", true), ("i32::MIN", true), ("i32::MAX", true), ("123456789i32", true), ("-16777217i32", true)],
        "u32" => vec![("0u32", true), ("1u32", true), ("u32::MAX", true), ("4000000000u32", true), ("16777217u32", true)],
        "f32" => vec![
            ("0.0f32", true),
            ("-0.0f32", true),
            ("1.5f32", true),
            ("f32::MAX", true),
            ("f32::MIN_POSITIVE", true),
            ("-f32::MAX", true),
            ("1e-40f32", true),
            ("16777216.0f32", true),
            ("0.1f32", true),
            ("f32::INFINITY", false),
            ("f32::NAN", false),
            ("f32::NEG_INFINITY", false),
        ],
        "f64" => vec![("0.0f64", true), ("-2.5f64", true), ("f64::MAX", true), ("1e-310f64", true), ("f64::INFINITY", false)],
        _ => return None,
    })
}

fn plan_exec(u: &Unit) -> Result<ExecPlan, String> {
    let file = syn::parse_file(&u.text).map_err(|e| format!("syn: {e}"))?;
    let mut body = String::new();
    let (mut vbufs, mut ventries, mut fentries, mut ovr_assignments) = (0, 0, 0, 0);

    // OverrideConstants: field names and types
    let mut ovr_fields: Option<Vec<(String, String, bool)>> = None; // (name, scalar type, optional)
    for it in &file.items {
        if let syn::Item::Struct(s) = it {
            if s.ident == "OverrideConstants" {
                let mut v = vec![];
                for f in s.fields.iter() {
                    let name = f.ident.as_ref().map(|i| i.to_string()).unwrap_or_default();
                    let t = type_text(&f.ty);
                    let (inner, optional) = match t.strip_prefix("Option<").and_then(|r| r.strip_suffix('>')) {
                        Some(i) => (i.to_string(), true),
                        None => (t.clone(), false),
                    };
                    if override_values(&inner).is_none() {
                        return Err(format!("override field {name}: unsupported type {t}"));
                    }
                    v.push((name, inner, optional));
                }
                ovr_fields = Some(v);
            }
        }
    }
    // an OverrideConstants value for assignment `a`; `nonfinite`: float fields take infinities / NaN
    let make_ovr = |a: usize, nonfinite: bool| -> (String, String) {
        let fields = ovr_fields.as_ref().unwrap();
        let mut init = String::new();
        let mut rep = String::new();
        for (i, (name, ty, optional)) in fields.iter().enumerate() {
            let all = override_values(ty).unwrap();
            let vals: Vec<&str> = if nonfinite && all.iter().any(|v| !v.1) {
                all.iter().filter(|v| !v.1).map(|v| v.0).collect()
            } else {
                all.iter().filter(|v| v.1).map(|v| v.0).collect()
            };
            let e = vals[(a + i) % vals.len()];
            let is_none = *optional && (a + i) % 3 == 0;
            let fname = name.clone();
            let plain = name.trim_start_matches("r#");
            if *optional {
                if is_none {
                    let _ = write!(init, "{fname}: None, ");
                    let _ = write!(rep, "f{ty}({}, None), ", rust_str(plain));
                } else {
                    let _ = write!(init, "{fname}: Some({e}), ");
                    let _ = write!(rep, "f{ty}({}, Some({e})), ", rust_str(plain));
                }
            } else {
                let _ = write!(init, "{fname}: {e}, ");
                let _ = write!(rep, "f{ty}({}, Some({e})), ", rust_str(plain));
            }
        }
        (format!("m::OverrideConstants {{ {init}}}"), format!("&[{rep}]"))
    };

    for it in &file.items {
        match it {
            // impl S { pub const VERTEX_ATTRIBUTES ..; pub const fn vertex_buffer_layout(..) }
            syn::Item::Impl(im) if im.trait_.is_none() => {
                let has = im.items.iter().any(|x| matches!(x, syn::ImplItem::Fn(f) if f.sig.ident == "vertex_buffer_layout"));
                if !has {
                    continue;
                }
                let name = type_text(&im.self_ty);
                let prefix = format!("(vbuf {} {} {}", quoted(&u.case_id), u.opt, quoted(&name));
                let _ = writeln!(body, "    vbuf({}, &m::{name}::vertex_buffer_layout(mode(true)));", rust_str(&prefix));
                let _ = writeln!(body, "    vbuf({}, &m::{name}::vertex_buffer_layout(mode(false)));", rust_str(&prefix));
                vbufs += 1;
            }
            syn::Item::Fn(f) => {
                let fname = f.sig.ident.to_string();
                let ret = match &f.sig.output {
                    syn::ReturnType::Type(_, t) => type_text(t),
                    _ => String::new(),
                };
                let params: Vec<(String, String)> = f
                    .sig
                    .inputs
                    .iter()
                    .filter_map(|a| match a {
                        syn::FnArg::Typed(p) => Some((quote::ToTokens::to_token_stream(&p.pat).to_string(), type_text(&p.ty))),
                        _ => None,
                    })
                    .collect();
                if ret.starts_with("VertexEntry<") {
                    let steps = params.iter().filter(|p| p.1.contains("VertexStepMode")).count();
                    let prefix = format!("(ventry {} {} {}", quoted(&u.case_id), u.opt, quoted(&fname));
                    // call j gives `Instance` to step parameter j only; call `steps` gives `Vertex` to all
                    for j in 0..=steps {
                        let mut args = vec![];
                        let mut si = 0;
                        for (_, t) in &params {
                            if t.contains("VertexStepMode") {
                                args.push(format!("mode({})", si == j));
                                si += 1;
                            } else if t.contains("OverrideConstants") {
                                if ovr_fields.is_none() {
                                    return Err("entry takes overrides but there is no OverrideConstants struct".into());
                                }
                                args.push(format!("&{}", make_ovr(j, false).0));
                            } else {
                                return Err(format!("{fname}: unexpected parameter type {t}"));
                            }
                        }
                        let _ = writeln!(body, "    {{ let e = m::{fname}({}); ventry({}, {j}, e.entry_point, &e.buffers, &e.constants); }}", args.join(", "), rust_str(&prefix));
                    }
                    ventries += 1;
                } else if ret.starts_with("FragmentEntry<") {
                    let _n: usize = ret.trim_start_matches("FragmentEntry<").trim_end_matches('>').parse().map_err(|_| format!("{fname}: {ret}"))?;
                    let prefix = format!("(fentry {} {} {}", quoted(&u.case_id), u.opt, quoted(&fname));
                    let mut args = vec![];
                    for (_, t) in &params {
                        if t.contains("ColorTargetState") {
                            args.push("std::array::from_fn(|_| None)".to_string());
                        } else if t.contains("OverrideConstants") {
                            if ovr_fields.is_none() {
                                return Err("entry takes overrides but there is no OverrideConstants struct".into());
                            }
                            args.push(format!("&{}", make_ovr(1, false).0));
                        } else {
                            return Err(format!("{fname}: unexpected parameter type {t}"));
                        }
                    }
                    let _ = writeln!(body, "    {{ let e = m::{fname}({}); fentry({}, e.entry_point, e.targets.len(), &e.constants); }}", args.join(", "), rust_str(&prefix));
                    fentries += 1;
                }
            }
            _ => {}
        }
    }
    let has_source = file.items.iter().any(|it| matches!(it, syn::Item::Const(c) if c.ident == "SOURCE"));
    if has_source {
        let prefix = format!("(source {} {}", quoted(&u.case_id), u.opt);
        let _ = writeln!(body, "    source({}, m::SOURCE);", rust_str(&prefix));
    }
    if let Some(fields) = &ovr_fields {
        let has_f = fields.iter().any(|f| f.1 == "f32" || f.1 == "f64");
        let n_finite = 9;
        for a in 0..n_finite + if has_f { 3 } else { 0 } {
            let nonfinite = a >= n_finite;
            let (ctor, rep) = make_ovr(a, nonfinite);
            let prefix = format!("(ovr {} {} {a} {}", quoted(&u.case_id), u.opt, if nonfinite { "nonfinite" } else { "finite" });
            let _ = writeln!(body, "    {{ let o = {ctor}; ovr({}, {rep}, &o.constants()); }}", rust_str(&prefix));
            ovr_assignments += 1;
        }
    }
    let code = format!("use super::m{} as m;\nuse super::support::*;\n\npub fn run() {{\n{body}}}\n", u.k);
    Ok(ExecPlan { code, vbufs, ventries, fentries, ovr_assignments })
}

/// the REAL naga `process_overrides` on the map the generated code produced
fn resolve_overrides(src: &str, line: &str) -> Sexp {
    use naga::valid::{Capabilities, ValidationFlags, Validator};
    let Some(parsed) = sexp::parse(line) else { return tagged("ovres", vec![atom("bad-line")]) };
    let Some(Sexp::List(items)) = parsed.first() else { return tagged("ovres", vec![atom("bad-line")]) };
    let head: Vec<Sexp> = items[1..5].to_vec();
    let mut fields: Vec<(String, String, Option<u64>, bool)> = vec![]; // name, ty, value (bits / number), negative flag for i32
    let mut map = naga::back::PipelineConstants::default();
    let mut raw_i32: BTreeMap<String, i64> = BTreeMap::new();
    for it in &items[5..] {
        let Sexp::List(v) = it else { continue };
        match v.first() {
            Some(Sexp::Atom(t)) if t == "fields" => {
                for f in &v[1..] {
                    let Sexp::List(fv) = f else { continue };
                    let (Some(Sexp::Str(name)), Some(Sexp::Atom(ty))) = (fv.get(1), fv.get(2)) else { continue };
                    match fv.get(3) {
                        Some(Sexp::List(sv)) => {
                            let Some(Sexp::Atom(n)) = sv.get(1) else { continue };
                            if ty == "i32" {
                                let x: i64 = n.parse().unwrap_or(0);
                                raw_i32.insert(name.clone(), x);
                                fields.push((name.clone(), ty.clone(), Some(x as u64), x < 0));
                            } else {
                                fields.push((name.clone(), ty.clone(), Some(n.parse::<u64>().unwrap_or(0)), false));
                            }
                        }
                        _ => fields.push((name.clone(), ty.clone(), None, false)),
                    }
                }
            }
            Some(Sexp::Atom(t)) if t == "map" => {
                for e in &v[1..] {
                    let Sexp::List(ev) = e else { continue };
                    let (Some(Sexp::Str(k)), Some(Sexp::Atom(bits))) = (ev.first(), ev.get(1)) else { continue };
                    map.insert(k.clone(), f64::from_bits(bits.parse::<u64>().unwrap_or(0)));
                }
            }
            _ => {}
        }
    }
    let module = match naga::front::wgsl::parse_str(src) {
        Ok(m) => m,
        Err(_) => return tagged("ovres", [head, vec![atom("parse-error")]].concat()),
    };
    let info = match Validator::new(ValidationFlags::all(), Capabilities::all()).validate(&module) {
        Ok(i) => i,
        Err(_) => return tagged("ovres", [head, vec![atom("invalid")]].concat()),
    };
    // expected keys: decimal @id when given, the name otherwise; and which overrides are required
    let mut expect_keys: BTreeSet<String> = BTreeSet::new();
    for (_, o) in module.overrides.iter() {
        let name = o.name.clone().unwrap_or_default();
        let key = match o.id {
            Some(id) => id.to_string(),
            None => name.clone(),
        };
        let supplied = fields.iter().any(|f| f.0 == name && f.2.is_some());
        if supplied {
            expect_keys.insert(key);
        }
    }
    let got_keys: BTreeSet<String> = map.keys().cloned().collect();
    let mut out = head;
    if got_keys != expect_keys {
        out.push(tagged(
            "keys-differ",
            vec![
                Sexp::List(expect_keys.iter().map(|k| string(k.clone())).collect()),
                Sexp::List(got_keys.iter().map(|k| string(k.clone())).collect()),
            ],
        ));
    }
    // naga 24's process_overrides has assertion failures of its own on some modules (UniqueArena::replace); that is
    // the oracle failing, not the map: reported as such
    let resolved = std::panic::catch_unwind(std::panic::AssertUnwindSafe(|| {
        naga::back::pipeline_constants::process_overrides(&module, &info, &map).map(|(m, _)| m.into_owned())
    }));
    let resolved = match resolved {
        Ok(r) => r,
        Err(p) => {
            out.push(tagged("oracle-panic", vec![string(run::panic_message(p))]));
            return tagged("ovres", out);
        }
    };
    match resolved {
        Err(e) => out.push(tagged("rejected", vec![string(format!("{e:?}")), string(format!("{e}"))])),
        Ok(m2) => {
            out.push(atom("accepted"));
            for (name, ty, val, _) in &fields {
                let Some(v) = val else { continue };
                let c = m2.constants.iter().find(|(_, c)| c.name.as_deref() == Some(name.as_str()));
                let seen = c.map(|(_, c)| &m2.global_expressions[c.init]);
                let ok = match (ty.as_str(), seen) {
                    ("bool", Some(naga::Expression::Literal(naga::Literal::Bool(b)))) => (*b as u64) == *v,
                    ("i32", Some(naga::Expression::Literal(naga::Literal::I32(x)))) => (*x as i64) == raw_i32[name],
                    ("u32", Some(naga::Expression::Literal(naga::Literal::U32(x)))) => (*x as u64) == *v,
                    ("f32", Some(naga::Expression::Literal(naga::Literal::F32(x)))) => (x.to_bits() as u64) == *v,
                    ("f64", Some(naga::Expression::Literal(naga::Literal::F64(x)))) => x.to_bits() == *v,
                    _ => false,
                };
                if !ok {
                    out.push(tagged("value-differs", vec![string(name.clone()), atom(ty.clone()), nat(*v), string(format!("{seen:?}"))]));
                }
            }
        }
    }
    tagged("ovres", out)
}

fn fnv64(bytes: &[u8]) -> u64 {
    let mut h: u64 = 0xcbf29ce484222325;
    for b in bytes {
        h ^= *b as u64;
        h = h.wrapping_mul(0x100000001b3);
    }
    h
}

fn mode_exec(a: &Args) {
    let t0 = Instant::now();
    let cases = read_cases(&a.cases);
    let src_of: BTreeMap<String, String> = cases.iter().cloned().collect();
    let work = a.root.join(format!("exec_{}", std::process::id()));
    std::fs::create_dir_all(&work).unwrap();
    let (units, slots) = generate(&cases, &a.opts);
    let mut out = String::new();

    // 1. which modules compile at all (same procedure as mode check)
    let check_args = ["check", "--lib"];
    let jobs = a.jobs.min(units.len().max(1));
    warm_up(&a.root, &a.template, &work, jobs, &check_args);
    let (verdicts, _) = check_units(a, &work, &units, &check_args);
    for (id, oi, slot) in &slots {
        let body = match slot {
            Slot::Gen(c, d) => tagged("gen", vec![string(c.clone()), string(d.clone())]),
            Slot::Unit(k) => match &verdicts[k] {
                Verdict::Ok => continue,
                v => verdict_sexp(v),
            },
        };
        render_line(&mut out, tagged("mod", vec![string(id.clone()), nat(*oi as u64), body]));
    }

    // 2. test programs
    let mut plans: BTreeMap<usize, ExecPlan> = BTreeMap::new();
    let mut skips: Vec<(String, usize, String)> = vec![];
    for u in &units {
        if !matches!(verdicts[&u.k], Verdict::Ok) {
            continue;
        }
        match plan_exec(u) {
            Ok(p) => {
                plans.insert(u.k, p);
            }
            Err(e) => skips.push((u.case_id.clone(), u.opt, e)),
        }
    }
    let by_k: BTreeMap<usize, &Unit> = units.iter().map(|u| (u.k, u)).collect();
    let krate = Crate::create(&work.join("run"), &a.root.join("target_build"), &a.template);
    for f in ["support.rs", "main.rs"] {
        std::fs::copy(a.template.join("exec_src").join(f), krate.dir.join("src").join(f)).expect("copy exec_src");
    }
    for (k, p) in &plans {
        krate.write_src(&format!("m{k}.rs"), &by_k[k].text);
        krate.write_src(&format!("t{k}.rs"), &p.code);
    }
    let mut active: BTreeSet<usize> = plans.keys().copied().collect();
    let mut built = false;
    for round in 0..5 {
        let mut lib = String::from("pub mod support;\n");
        for k in &active {
            let _ = writeln!(lib, "{MOD_ATTR} pub mod m{k};\n{MOD_ATTR} pub mod t{k};");
        }
        lib.push_str("pub fn run_all(start: usize) {\n");
        for k in &active {
            let _ = writeln!(lib, "    if {k} >= start {{ println!(\"(begin {k})\"); let _ = std::panic::catch_unwind(|| t{k}::run()); }}");
        }
        lib.push_str("}\n");
        krate.write_src("lib.rs", &lib);
        let run = krate.cargo(&["build"]);
        eprintln!("[exec] build round {round}: {} modules, {:.1}s, {} errors", active.len(), run.seconds, run.diags.len());
        if run.success {
            built = true;
            break;
        }
        let mut bad: BTreeMap<usize, String> = BTreeMap::new();
        for d in &run.diags {
            if let Some((_, k)) = d.file {
                bad.entry(k).or_insert_with(|| format!("test program does not compile: {} {} @ {}", d.code, d.msg, d.line));
            }
        }
        if bad.is_empty() {
            eprintln!("[exec] build failed without attributable errors:\n{}", run.stderr_tail);
            break;
        }
        for (k, why) in bad {
            active.remove(&k);
            skips.push((by_k[&k].case_id.clone(), by_k[&k].opt, why));
        }
    }

    // 3. run it
    let (mut n_vbuf, mut n_ventry, mut n_fentry, mut n_ovr, mut n_source) = (0u64, 0u64, 0u64, 0u64, 0u64);
    if built && !active.is_empty() {
        let exe = krate.target.join("debug").join("batch_scratch");
        let mut start = 0usize;
        for _ in 0..active.len() + 1 {
            let o = Command::new(&exe).arg(start.to_string()).output().expect("run test program");
            let mut last_begin = None;
            for line in String::from_utf8_lossy(&o.stdout).lines() {
                if let Some(rest) = line.strip_prefix("(begin ") {
                    last_begin = rest.trim_end_matches(')').parse::<usize>().ok();
                } else if line.starts_with("(vbuf ") {
                    n_vbuf += 1;
                    out.push_str(line);
                    out.push('\n');
                } else if line.starts_with("(ventry ") {
                    n_ventry += 1;
                    out.push_str(line);
                    out.push('\n');
                } else if line.starts_with("(fentry ") {
                    n_fentry += 1;
                    out.push_str(line);
                    out.push('\n');
                } else if line.starts_with("(source ") {
                    n_source += 1;
                    let verdict = (|| {
                        let p = sexp::parse(line)?;
                        let Sexp::List(items) = p.first()? else { return None };
                        let (Sexp::Atom(len), Sexp::Atom(h)) = (items.get(3)?, items.get(4)?) else { return None };
                        let src = src_of.get(&by_k[&last_begin?].case_id)?;
                        Some(len.parse::<usize>().ok()? == src.len() && h.parse::<u64>().ok()? == fnv64(src.as_bytes()))
                    })();
                    out.push_str(line.trim_end_matches(')'));
                    out.push_str(match verdict {
                        Some(true) => " same)\n",
                        Some(false) => " differs)\n",
                        None => " unreadable)\n",
                    });
                } else if line.starts_with("(ovr ") {
                    n_ovr += 1;
                    out.push_str(line);
                    out.push('\n');
                    // 4. the REAL naga override resolution on that map
                    if let Some(k) = last_begin {
                        if let Some(src) = src_of.get(&by_k[&k].case_id) {
                            render_line(&mut out, resolve_overrides(src, line));
                        }
                    }
                }
            }
            if o.status.success() {
                break;
            }
            match last_begin {
                Some(k) => {
                    skips.push((by_k[&k].case_id.clone(), by_k[&k].opt, format!("test program crashed: {}", o.status)));
                    start = k + 1;
                }
                None => break,
            }
        }
    }
    for (c, o, why) in &skips {
        render_line(&mut out, tagged("skip", vec![string(c.clone()), nat(*o as u64), string(why.clone())]));
    }
    let secs = t0.elapsed().as_secs_f64();
    render_line(
        &mut out,
        Sexp::List(vec![
            atom("summary"),
            atom("cases"),
            nat(cases.len() as u64),
            atom("modules"),
            nat(units.len() as u64),
            atom("executed"),
            nat(active.len() as u64),
            atom("built"),
            atom(if built { "true" } else { "false" }),
            atom("vbuf"),
            nat(n_vbuf),
            atom("ventry"),
            nat(n_ventry),
            atom("fentry"),
            nat(n_fentry),
            atom("ovr"),
            nat(n_ovr),
            atom("source"),
            nat(n_source),
            atom("skipped"),
            nat(skips.len() as u64),
            atom("seconds"),
            atom(format!("{secs:.1}")),
        ]),
    );
    std::fs::write(&a.out, out).expect("write result file");
    eprintln!("[exec] cases {} modules {} executed {} vbuf {n_vbuf} ventry {n_ventry} fentry {n_fentry} ovr {n_ovr} skipped {} in {secs:.1}s", cases.len(), units.len(), active.len(), skips.len());
    sweep_target(&a.root.join("target_build"));
    finish(a, &work, jobs);
}

fn main() {
    let a = parse_args();
    std::fs::create_dir_all(&a.root).expect("create work root");
    match a.mode.as_str() {
        "check" => mode_check(&a),
        "encase" => mode_encase(&a),
        "exec" => mode_exec(&a),
        other => {
            eprintln!("unknown mode {other}");
            std::process::exit(2);
        }
    }
}
