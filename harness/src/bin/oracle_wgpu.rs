//! oracle_wgpu: ask the real wgpu-core 24.0.5 shader-interface validation (no device, no GPU)
//! whether the bind group layouts / vertex attributes that wgsl_to_wgpu generated are acceptable.
//!
//!   stdin:  (src "id" "wgsl" [(path "p")])        one per line (same wire format as bin/cases.rs)
//!   args:   --features all|none   feature set used by the re-implemented create_bind_group_layout
//!                                 entry rules (default all)
//!           --opts <i>            option-set index (run::Opts::from_index), default 0
//!   stdout: one line per case
//!     (oracle "id" <status>
//!        (provided (ep "name" <stage> <verdict>...) ...)
//!        (derived  (diff <group> <binding> "<kind>" "<detail>") ...)
//!        (bgl      (entry <group> <binding> ok|(err "Variant")) ...)
//!        (notes    "<free text>" ...))
//!   <status>  ::= ok | invalid | no-output | facts-error | too-many-groups | (panic "msg")
//!   <stage>   ::= vertex | fragment | compute
//!   <verdict> ::= ok
//!               | (err "Binding" <group> <binding> "<BindingError variant>" "<Debug text>")
//!               | (err "Filtering" (texture <g> <b>) (sampler <g> <b>) "<FilteringError variant>" "<Debug text>")
//!               | (err "Input" <location> "<InputError variant>" "<var Display> / <Debug text>")
//!               | (err "ShaderLocationClash" <location>)          -- resource.rs:3012-3021
//!               | (err "<other StageError variant>" "<Debug text>")
//!               | ignored-fragment-input                          -- only when the synthetic previous stage could not be built
//!   check_stage stops at its first error; to list every error of an entry point the oracle repairs the
//!   offending provided entry (replaces it by what wgpu itself derives) and re-runs, so an `ep` can carry
//!   several `(err ..)` verdicts.
//!   derived <kind> ::= missing-entry | unused | missing-visibility | extra-visibility | binding-kind
//!                    | buffer-type | sample-type | view-dimension | multisampled | storage-access
//!                    | storage-format | sampler-type | inconsistent-derived | derive-error
use std::collections::BTreeMap;
use std::io::{BufRead, Write};
use std::panic::{catch_unwind, AssertUnwindSafe};
use verif_harness::{facts, run, sexp::*};
use wgpu_core::binding_model::BindGroupLayoutEntryError;
use wgpu_core::validation::{BindingLayoutSource, Interface, InterfaceVar, StageError, StageIo};
use wgpu_types as wgt;

// ---------------------------------------------------------------------------------------------
// S-expression access helpers
// ---------------------------------------------------------------------------------------------

fn items(s: &Sexp) -> &[Sexp] {
    match s {
        Sexp::List(v) => v,
        _ => &[],
    }
}
fn head(s: &Sexp) -> Option<&str> {
    match items(s).first() {
        Some(Sexp::Atom(a)) => Some(a),
        _ => None,
    }
}
fn child<'a>(s: &'a Sexp, name: &str) -> Option<&'a Sexp> {
    items(s).iter().find(|c| head(c) == Some(name))
}
fn children<'a>(s: &'a Sexp, name: &'a str) -> impl Iterator<Item = &'a Sexp> + 'a {
    items(s).iter().filter(move |c| head(c) == Some(name))
}
fn as_str(s: &Sexp) -> Option<&str> {
    match s {
        Sexp::Str(x) => Some(x),
        _ => None,
    }
}
fn as_atom(s: &Sexp) -> Option<&str> {
    match s {
        Sexp::Atom(x) => Some(x),
        _ => None,
    }
}
fn as_u32(s: &Sexp) -> Option<u32> {
    as_atom(s)?.parse().ok()
}
fn as_bool(s: &Sexp) -> Option<bool> {
    match as_atom(s)? {
        "true" => Some(true),
        "false" => Some(false),
        _ => None,
    }
}
fn oneline(s: impl AsRef<str>) -> String {
    s.as_ref().split_whitespace().collect::<Vec<_>>().join(" ")
}
/// leading identifier of a Debug rendering = the enum variant name
fn variant_of(dbg: &str) -> String {
    dbg.chars().take_while(|c| c.is_alphanumeric() || *c == '_').collect()
}

// ---------------------------------------------------------------------------------------------
// name -> wgpu-types value tables (built from the Debug names of a fixed list of variants)
// ---------------------------------------------------------------------------------------------

fn texture_format(name: &str) -> Option<wgt::TextureFormat> {
    use wgt::TextureFormat::*;
    // every plain (non-ASTC) variant of wgpu-types 24.0.0 TextureFormat; includes every format that
    // naga::StorageFormat can name (wgpu-core validation.rs:281-391)
    const ALL: &[wgt::TextureFormat] = &[
        R8Unorm, R8Snorm, R8Uint, R8Sint, R16Uint, R16Sint, R16Unorm, R16Snorm, R16Float, Rg8Unorm, Rg8Snorm,
        Rg8Uint, Rg8Sint, R32Uint, R32Sint, R32Float, Rg16Uint, Rg16Sint, Rg16Unorm, Rg16Snorm, Rg16Float,
        Rgba8Unorm, Rgba8UnormSrgb, Rgba8Snorm, Rgba8Uint, Rgba8Sint, Bgra8Unorm, Bgra8UnormSrgb, Rgb9e5Ufloat,
        Rgb10a2Uint, Rgb10a2Unorm, Rg11b10Ufloat, R64Uint, Rg32Uint, Rg32Sint, Rg32Float, Rgba16Uint,
        Rgba16Sint, Rgba16Unorm, Rgba16Snorm, Rgba16Float, Rgba32Uint, Rgba32Sint, Rgba32Float, Stencil8,
        Depth16Unorm, Depth24Plus, Depth24PlusStencil8, Depth32Float, Depth32FloatStencil8, NV12,
        Bc1RgbaUnorm, Bc1RgbaUnormSrgb, Bc2RgbaUnorm, Bc2RgbaUnormSrgb, Bc3RgbaUnorm, Bc3RgbaUnormSrgb,
        Bc4RUnorm, Bc4RSnorm, Bc5RgUnorm, Bc5RgSnorm, Bc6hRgbUfloat, Bc6hRgbFloat, Bc7RgbaUnorm,
        Bc7RgbaUnormSrgb, Etc2Rgb8Unorm, Etc2Rgb8UnormSrgb, Etc2Rgb8A1Unorm, Etc2Rgb8A1UnormSrgb,
        Etc2Rgba8Unorm, Etc2Rgba8UnormSrgb, EacR11Unorm, EacR11Snorm, EacRg11Unorm, EacRg11Snorm,
    ];
    ALL.iter().copied().find(|f| format!("{f:?}") == name)
}

fn vertex_format(name: &str) -> Option<wgt::VertexFormat> {
    use wgt::VertexFormat::*;
    const ALL: &[wgt::VertexFormat] = &[
        Uint8, Uint8x2, Uint8x4, Sint8, Sint8x2, Sint8x4, Unorm8, Unorm8x2, Unorm8x4, Snorm8, Snorm8x2, Snorm8x4,
        Uint16, Uint16x2, Uint16x4, Sint16, Sint16x2, Sint16x4, Unorm16, Unorm16x2, Unorm16x4, Snorm16,
        Snorm16x2, Snorm16x4, Float16, Float16x2, Float16x4, Float32, Float32x2, Float32x3, Float32x4, Uint32,
        Uint32x2, Uint32x3, Uint32x4, Sint32, Sint32x2, Sint32x3, Sint32x4, Float64, Float64x2, Float64x3,
        Float64x4, Unorm10_10_10_2, Unorm8x4Bgra,
    ];
    ALL.iter().copied().find(|f| format!("{f:?}") == name)
}

fn view_dimension(name: &str) -> Option<wgt::TextureViewDimension> {
    use wgt::TextureViewDimension::*;
    [D1, D2, D2Array, Cube, CubeArray, D3].into_iter().find(|d| format!("{d:?}") == name)
}

// ---------------------------------------------------------------------------------------------
// facts -> real wgpu-types values
// ---------------------------------------------------------------------------------------------

fn binding_type(s: &Sexp) -> Result<wgt::BindingType, String> {
    let v = items(s);
    let bad = || format!("bad-binding-type {}", s.render());
    match head(s) {
        Some("buffer") if v.len() == 3 => {
            let ty = match &v[1] {
                Sexp::Atom(a) if a == "uniform" => wgt::BufferBindingType::Uniform,
                l if head(l) == Some("storage") => wgt::BufferBindingType::Storage {
                    read_only: items(l).get(1).and_then(as_bool).ok_or_else(bad)?,
                },
                _ => return Err(bad()),
            };
            Ok(wgt::BindingType::Buffer {
                ty,
                has_dynamic_offset: as_bool(&v[2]).ok_or_else(bad)?,
                min_binding_size: None, // facts.rs only accepts `min_binding_size: None`
            })
        }
        Some("texture") if v.len() == 4 => {
            let sample_type = match &v[1] {
                Sexp::Atom(a) if a == "sint" => wgt::TextureSampleType::Sint,
                Sexp::Atom(a) if a == "uint" => wgt::TextureSampleType::Uint,
                Sexp::Atom(a) if a == "depth" => wgt::TextureSampleType::Depth,
                l if head(l) == Some("float") => wgt::TextureSampleType::Float {
                    filterable: items(l).get(1).and_then(as_bool).ok_or_else(bad)?,
                },
                _ => return Err(bad()),
            };
            Ok(wgt::BindingType::Texture {
                sample_type,
                view_dimension: as_atom(&v[2]).and_then(view_dimension).ok_or_else(bad)?,
                multisampled: as_bool(&v[3]).ok_or_else(bad)?,
            })
        }
        Some("storageTexture") if v.len() == 4 => {
            let access = match as_atom(&v[1]).ok_or_else(bad)? {
                "ReadOnly" => wgt::StorageTextureAccess::ReadOnly,
                "WriteOnly" => wgt::StorageTextureAccess::WriteOnly,
                "ReadWrite" => wgt::StorageTextureAccess::ReadWrite,
                "Atomic" => wgt::StorageTextureAccess::Atomic,
                _ => return Err(bad()),
            };
            let fname = as_str(&v[2]).ok_or_else(bad)?;
            let format = texture_format(fname).ok_or_else(|| format!("bad-format {fname}"))?;
            Ok(wgt::BindingType::StorageTexture {
                access,
                format,
                view_dimension: as_atom(&v[3]).and_then(view_dimension).ok_or_else(bad)?,
            })
        }
        Some("sampler") if v.len() == 2 => Ok(wgt::BindingType::Sampler(match as_atom(&v[1]).ok_or_else(bad)? {
            "Filtering" => wgt::SamplerBindingType::Filtering,
            "NonFiltering" => wgt::SamplerBindingType::NonFiltering,
            "Comparison" => wgt::SamplerBindingType::Comparison,
            _ => return Err(bad()),
        })),
        _ => Err(bad()),
    }
}

struct GenEntry {
    group: u32,
    entry: wgt::BindGroupLayoutEntry,
}

/// (generated entries, highest group number + 1)
fn generated_entries(fx: &Sexp, notes: &mut Vec<String>) -> (Vec<GenEntry>, usize) {
    let mut out = vec![];
    let mut ngroups = 0usize;
    let Some(groups) = child(fx, "groups") else {
        notes.push("facts: no groups section".into());
        return (out, 0);
    };
    for g in children(groups, "group") {
        let gv = items(g);
        let Some(no) = gv.get(1).and_then(as_u32) else {
            notes.push(format!("bad-group-number {}", gv.get(1).map(|x| x.render()).unwrap_or_default()));
            continue;
        };
        ngroups = ngroups.max(no as usize + 1);
        let Some(desc) = child(g, "descriptor") else {
            notes.push(format!("group {no}: descriptor missing"));
            continue;
        };
        let Some(entries) = items(desc).get(2) else {
            notes.push(format!("group {no}: descriptor missing"));
            continue;
        };
        for e in items(entries) {
            let ev = items(e);
            if head(e) != Some("entry") || ev.len() != 4 {
                notes.push(format!("group {no}: bad-entry {}", oneline(e.render())));
                continue;
            }
            let Some(binding) = as_u32(&ev[1]) else {
                notes.push(format!("group {no}: bad-binding-number {}", ev[1].render()));
                continue;
            };
            let st = items(&ev[2]);
            let mut vis = wgt::ShaderStages::NONE;
            for (i, bit) in [wgt::ShaderStages::VERTEX, wgt::ShaderStages::FRAGMENT, wgt::ShaderStages::COMPUTE]
                .into_iter()
                .enumerate()
            {
                if st.get(i + 1).and_then(as_bool) == Some(true) {
                    vis |= bit;
                }
            }
            match binding_type(&ev[3]) {
                Ok(ty) => out.push(GenEntry {
                    group: no,
                    entry: wgt::BindGroupLayoutEntry { binding, visibility: vis, ty, count: None },
                }),
                Err(m) => notes.push(format!("group {no} binding {binding}: {m}")),
            }
        }
    }
    (out, ngroups)
}

/// The vertex buffers `wgsl_to_wgpu` offers for the vertex entry `ep_name`:
/// location -> InterfaceVar, exactly as Device::create_render_pipeline builds `io` (resource.rs:3012-3021).
fn vertex_inputs(fx: &Sexp, ep_name: &str, verdicts: &mut Vec<Sexp>, notes: &mut Vec<String>) -> StageIo {
    let mut io = StageIo::default();
    let consts: Vec<(&str, &str)> = child(fx, "entryConsts")
        .map(|c| {
            children(c, "ec")
                .filter_map(|e| Some((as_str(items(e).get(1)?)?, as_str(items(e).get(2)?)?)))
                .collect()
        })
        .unwrap_or_default();
    let ve = child(fx, "vertexEntries").and_then(|ves| {
        children(ves, "ve").find(|ve| {
            let k = items(ve).get(4).and_then(as_str);
            consts.iter().any(|(c, n)| Some(*c) == k && *n == ep_name)
        })
    });
    let Some(ve) = ve else {
        notes.push(format!("vertex entry {ep_name}: no generated VertexEntry function"));
        return io;
    };
    let Some(bufs) = child(ve, "buffers") else { return io };
    for b in items(bufs).iter().skip(1) {
        let Some(sname) = items(b).first().and_then(as_str) else { continue };
        let vs = child(fx, "vertex")
            .and_then(|v| children(v, "vs").find(|vs| items(vs).get(1).and_then(as_str) == Some(sname)));
        let Some(vs) = vs else {
            notes.push(format!("vertex entry {ep_name}: buffer struct {sname} has no VERTEX_ATTRIBUTES impl"));
            continue;
        };
        let Some(attrs) = child(vs, "attrs") else { continue };
        for a in children(attrs, "a") {
            let av = items(a);
            let (Some(fmt), Some(loc)) = (av.get(1).and_then(as_str), av.get(4).and_then(as_u32)) else {
                notes.push(format!("bad-attribute {}", a.render()));
                continue;
            };
            let Some(vf) = vertex_format(fmt) else {
                notes.push(format!("bad-vertex-format {fmt}"));
                continue;
            };
            if io.insert(loc, InterfaceVar::vertex_attribute(vf)).is_some() {
                verdicts.push(tagged("err", vec![string("ShaderLocationClash"), nat(loc)]));
            }
        }
    }
    io
}

// ---------------------------------------------------------------------------------------------
// wgpu-core drivers
// ---------------------------------------------------------------------------------------------

fn limits() -> wgt::Limits {
    wgt::Limits {
        // hal::MAX_BIND_GROUPS; new_derived() creates this many maps
        max_bind_groups: wgpu_core::MAX_BIND_GROUPS as u32,
        // device limits unrelated to what wgsl_to_wgpu generates: make them vacuous
        max_compute_workgroup_size_x: u32::MAX,
        max_compute_workgroup_size_y: u32::MAX,
        max_compute_workgroup_size_z: u32::MAX,
        max_compute_invocations_per_workgroup: u32::MAX,
        max_inter_stage_shader_components: u32::MAX,
        ..wgt::Limits::default()
    }
}

fn stage_bit(s: naga::ShaderStage) -> (wgt::ShaderStages, &'static str) {
    match s {
        naga::ShaderStage::Vertex => (wgt::ShaderStages::VERTEX, "vertex"),
        naga::ShaderStage::Fragment => (wgt::ShaderStages::FRAGMENT, "fragment"),
        naga::ShaderStage::Compute => (wgt::ShaderStages::COMPUTE, "compute"),
    }
}

fn wgsl_numeric(inner: &naga::TypeInner) -> Option<String> {
    fn sc(s: naga::Scalar) -> Option<&'static str> {
        match (s.kind, s.width) {
            (naga::ScalarKind::Float, 4) => Some("f32"),
            (naga::ScalarKind::Sint, 4) => Some("i32"),
            (naga::ScalarKind::Uint, 4) => Some("u32"),
            _ => None,
        }
    }
    match *inner {
        naga::TypeInner::Scalar(s) => sc(s).map(|x| x.to_string()),
        naga::TypeInner::Vector { size, scalar } => Some(format!("vec{}<{}>", size as u8, sc(scalar)?)),
        _ => None,
    }
}

/// `InterfaceVar`'s interpolation/sampling fields are private, so the previous-stage outputs a fragment
/// entry expects cannot be constructed directly.  Instead synthesise a vertex shader whose outputs mirror
/// the fragment entry's located inputs and let `check_stage` itself return them (validation.rs:1284-1292).
fn fragment_inputs(module: &naga::Module, ep: &naga::EntryPoint) -> Option<StageIo> {
    let mut located: Vec<(u32, Option<naga::Interpolation>, Option<naga::Sampling>, String)> = vec![];
    let mut visit = |b: Option<&naga::Binding>, ty: naga::Handle<naga::Type>| -> Option<()> {
        if let Some(&naga::Binding::Location { location, interpolation, sampling, .. }) = b {
            located.push((location, interpolation, sampling, wgsl_numeric(&module.types[ty].inner)?));
        }
        Some(())
    };
    for arg in &ep.function.arguments {
        match module.types[arg.ty].inner {
            naga::TypeInner::Struct { ref members, .. } => {
                for m in members {
                    visit(m.binding.as_ref(), m.ty)?;
                }
            }
            _ => visit(arg.binding.as_ref(), arg.ty)?,
        }
    }
    if located.is_empty() {
        return Some(StageIo::default());
    }
    let mut w = String::from("struct O {\n  @builtin(position) p: vec4<f32>,\n");
    for (loc, interp, samp, ty) in &located {
        let i = match interp {
            None => String::new(),
            Some(i) => {
                let i = match i {
                    naga::Interpolation::Perspective => "perspective",
                    naga::Interpolation::Linear => "linear",
                    naga::Interpolation::Flat => "flat",
                };
                match samp {
                    None => format!("@interpolate({i}) "),
                    Some(s) => format!(
                        "@interpolate({i}, {}) ",
                        match s {
                            naga::Sampling::Center => "center",
                            naga::Sampling::Centroid => "centroid",
                            naga::Sampling::Sample => "sample",
                            naga::Sampling::First => "first",
                            naga::Sampling::Either => "either",
                        }
                    ),
                }
            }
        };
        w.push_str(&format!("  @location({loc}) {i}v{loc}: {ty},\n"));
    }
    w.push_str("}\n@vertex fn v() -> O { var o: O; return o; }\n");
    let m = naga::front::wgsl::parse_str(&w).ok()?;
    let info = naga::valid::Validator::new(naga::valid::ValidationFlags::all(), naga::valid::Capabilities::all())
        .validate(&m)
        .ok()?;
    let lim = limits();
    let iface = Interface::new(&m, &info, lim.clone());
    let mut src = BindingLayoutSource::new_derived(&lim);
    iface
        .check_stage(&mut src, &mut Default::default(), "v", wgt::ShaderStages::VERTEX, StageIo::default(), None)
        .ok()
}

fn stage_error_sexp(e: &StageError) -> Sexp {
    match e {
        StageError::Binding(rb, be) => {
            let d = format!("{be:?}");
            tagged(
                "err",
                vec![string("Binding"), nat(rb.group), nat(rb.binding), string(variant_of(&d)), string(oneline(d))],
            )
        }
        StageError::Filtering { texture, sampler, error } => {
            let d = format!("{error:?}");
            tagged(
                "err",
                vec![
                    string("Filtering"),
                    tagged("texture", vec![nat(texture.group), nat(texture.binding)]),
                    tagged("sampler", vec![nat(sampler.group), nat(sampler.binding)]),
                    string(variant_of(&d)),
                    string(oneline(d)),
                ],
            )
        }
        StageError::Input { location, var, error } => {
            let d = format!("{error:?}");
            tagged(
                "err",
                vec![string("Input"), nat(*location), string(variant_of(&d)), string(oneline(format!("{var} / {d}")))],
            )
        }
        other => {
            let d = format!("{other:?}");
            tagged("err", vec![string(variant_of(&d)), string(oneline(d))])
        }
    }
}

type Derived = BTreeMap<(u32, u32), wgt::BindGroupLayoutEntry>;

/// Derived mode for one entry point (fresh source): what wgpu itself would put in the layout.
fn derive_ep(
    iface: &Interface,
    name: &str,
    bit: wgt::ShaderStages,
    inputs: StageIo,
    lim: &wgt::Limits,
) -> (Derived, Option<StageError>) {
    let mut src = BindingLayoutSource::new_derived(lim);
    let r = iface.check_stage(&mut src, &mut Default::default(), name, bit, inputs, None);
    let mut out = Derived::new();
    if let BindingLayoutSource::Derived(maps) = &src {
        for (g, m) in maps.iter().enumerate() {
            for e in m.values() {
                out.insert((g as u32, e.binding), *e);
            }
        }
    }
    // errors raised after the resource loop (inputs, workgroup size, ...) do not affect the derived layout
    let err = match r {
        Err(e @ StageError::Binding(..)) => Some(e),
        _ => None,
    };
    (out, err)
}

/// Provided mode for one entry point, collecting every error by repair-and-retry.
#[allow(clippy::too_many_arguments)]
fn provided_ep(
    iface: &Interface,
    gen: &[GenEntry],
    ngroups: usize,
    name: &str,
    bit: wgt::ShaderStages,
    mut inputs: StageIo,
    derived: &Derived,
    lim: &wgt::Limits,
    ignore_fragment_input: bool,
    verdicts: &mut Vec<Sexp>,
) {
    // `device::bgl` is pub(crate): the only way to get empty EntryMaps from outside is new_derived()
    let BindingLayoutSource::Derived(mut maps) = BindingLayoutSource::new_derived(lim) else { unreachable!() };
    for g in gen {
        maps[g.group as usize].entry(g.entry.binding).or_insert(g.entry);
    }
    let mut n = ngroups;
    let mut last = String::new();
    for _ in 0..256 {
        let r = {
            let mut src = BindingLayoutSource::Provided(maps.iter().take(n).collect());
            iface.check_stage(&mut src, &mut Default::default(), name, bit, inputs.clone(), None)
        };
        let e = match r {
            Ok(_) => break,
            Err(e) => e,
        };
        if ignore_fragment_input && matches!(e, StageError::Input { .. }) {
            verdicts.push(atom("ignored-fragment-input"));
            break;
        }
        let sx = stage_error_sexp(&e);
        let key = sx.render();
        if key == last {
            break; // repair had no effect
        }
        last = key;
        verdicts.push(sx);
        // repair and continue
        match &e {
            StageError::Binding(rb, _) => {
                let Some(d) = derived.get(&(rb.group, rb.binding)) else { break };
                if rb.group as usize >= maps.len() {
                    break;
                }
                let mut fixed = *d;
                if let Some(old) = maps[rb.group as usize].get(rb.binding) {
                    fixed.visibility |= old.visibility;
                }
                fixed.visibility |= bit;
                maps[rb.group as usize].entry(rb.binding).and_modify(|x| *x = fixed).or_insert(fixed);
                n = n.max(rb.group as usize + 1);
            }
            StageError::Filtering { texture, sampler, error } => {
                let is_float = format!("{error:?}") == "Float";
                if is_float {
                    // make the texture filterable
                    let Some(mut t) = maps[texture.group as usize].get(texture.binding).copied() else { break };
                    if let wgt::BindingType::Texture { sample_type, .. } = &mut t.ty {
                        *sample_type = wgt::TextureSampleType::Float { filterable: true };
                    }
                    maps[texture.group as usize].entry(texture.binding).and_modify(|x| *x = t);
                } else {
                    // integer texture: make the sampler non-filtering
                    let Some(mut s) = maps[sampler.group as usize].get(sampler.binding).copied() else { break };
                    s.ty = wgt::BindingType::Sampler(wgt::SamplerBindingType::NonFiltering);
                    maps[sampler.group as usize].entry(sampler.binding).and_modify(|x| *x = s);
                }
            }
            StageError::Input { location, var, .. } if bit == wgt::ShaderStages::VERTEX => {
                // NumericType's Display ("Float32x4", "Uint32", ...) coincides with VertexFormat names
                let Some(vf) = vertex_format(&format!("{}", var.ty)) else { break };
                inputs.insert(*location, InterfaceVar::vertex_attribute(vf));
            }
            _ => break,
        }
    }
    if verdicts.is_empty() {
        verdicts.push(atom("ok"));
    }
}

// ---------------------------------------------------------------------------------------------
// device-independent per-entry rules of Device::create_bind_group_layout
// ---------------------------------------------------------------------------------------------

/// Re-implementation of the per-entry loop of `Device::create_bind_group_layout`
/// (wgpu-core 24.0.5 src/device/resource.rs:1711-1887) with the device replaced by
/// (`features`, `downlevel`).  Error strings are the Debug names of the real
/// `binding_model::BindGroupLayoutEntryError` / `CreateBindGroupLayoutError` variants.
fn bgl_entry_check(
    entry: &wgt::BindGroupLayoutEntry,
    features: wgt::Features,
    downlevel: wgt::DownlevelFlags,
) -> Result<(), String> {
    use wgt::BindingType as Bt;
    let ee = |e: BindGroupLayoutEntryError| format!("{e:?}");
    #[derive(PartialEq)]
    enum WritableStorage {
        Yes,
        No,
    }
    let mut required_features = wgt::Features::empty(); // :1714
    let mut required_downlevel_flags = wgt::DownlevelFlags::empty(); // :1715
    let (array_feature, writable_storage) = match entry.ty {
        // :1717-1732
        Bt::Buffer { ty: wgt::BufferBindingType::Uniform, .. } => {
            (Some(wgt::Features::BUFFER_BINDING_ARRAY), WritableStorage::No)
        }
        // :1733-1745
        Bt::Buffer { ty: wgt::BufferBindingType::Storage { read_only }, .. } => (
            Some(wgt::Features::BUFFER_BINDING_ARRAY | wgt::Features::STORAGE_RESOURCE_BINDING_ARRAY),
            if read_only { WritableStorage::No } else { WritableStorage::Yes },
        ),
        // :1746-1749
        Bt::Sampler { .. } => (Some(wgt::Features::TEXTURE_BINDING_ARRAY), WritableStorage::No),
        // :1750-1760
        Bt::Texture { multisampled: true, sample_type: wgt::TextureSampleType::Float { filterable: true }, .. } => {
            return Err(ee(BindGroupLayoutEntryError::SampleTypeFloatFilterableBindingMultisampled));
        }
        // :1761-1777
        Bt::Texture { multisampled, view_dimension, .. } => {
            if multisampled && view_dimension != wgt::TextureViewDimension::D2 {
                return Err(ee(BindGroupLayoutEntryError::Non2DMultisampled(view_dimension)));
            }
            (Some(wgt::Features::TEXTURE_BINDING_ARRAY), WritableStorage::No)
        }
        // :1778-1837
        Bt::StorageTexture { access, view_dimension, format: _ } => {
            // :1783-1791
            if matches!(view_dimension, wgt::TextureViewDimension::Cube | wgt::TextureViewDimension::CubeArray) {
                return Err(ee(BindGroupLayoutEntryError::StorageTextureCube));
            }
            // :1792-1813
            match access {
                wgt::StorageTextureAccess::Atomic if !features.contains(wgt::Features::TEXTURE_ATOMIC) => {
                    return Err(ee(BindGroupLayoutEntryError::StorageTextureAtomic));
                }
                wgt::StorageTextureAccess::ReadOnly | wgt::StorageTextureAccess::ReadWrite
                    if !features.contains(wgt::Features::TEXTURE_ADAPTER_SPECIFIC_FORMAT_FEATURES) =>
                {
                    return Err(ee(BindGroupLayoutEntryError::StorageTextureReadWrite));
                }
                _ => (),
            }
            // :1814-1836
            (
                Some(wgt::Features::TEXTURE_BINDING_ARRAY | wgt::Features::STORAGE_RESOURCE_BINDING_ARRAY),
                match access {
                    wgt::StorageTextureAccess::WriteOnly => WritableStorage::Yes,
                    wgt::StorageTextureAccess::ReadOnly => {
                        required_features |= wgt::Features::TEXTURE_ADAPTER_SPECIFIC_FORMAT_FEATURES;
                        WritableStorage::No
                    }
                    wgt::StorageTextureAccess::ReadWrite => {
                        required_features |= wgt::Features::TEXTURE_ADAPTER_SPECIFIC_FORMAT_FEATURES;
                        WritableStorage::Yes
                    }
                    wgt::StorageTextureAccess::Atomic => {
                        required_features |= wgt::Features::TEXTURE_ATOMIC;
                        WritableStorage::Yes
                    }
                },
            )
        }
        // :1838
        Bt::AccelerationStructure => (None, WritableStorage::No),
    };
    // :1841-1849  count
    if entry.count.is_some() {
        required_features |= array_feature.ok_or_else(|| ee(BindGroupLayoutEntryError::ArrayUnsupported))?;
    }
    // :1851-1855
    if entry.visibility | wgt::ShaderStages::all() != wgt::ShaderStages::all() {
        return Err(format!("InvalidVisibility({:?})", entry.visibility));
    }
    // :1857-1868
    if entry.visibility.contains(wgt::ShaderStages::VERTEX) {
        if writable_storage == WritableStorage::Yes {
            required_features |= wgt::Features::VERTEX_WRITABLE_STORAGE;
        }
        if let Bt::Buffer { ty: wgt::BufferBindingType::Storage { .. }, .. } = entry.ty {
            required_downlevel_flags |= wgt::DownlevelFlags::VERTEX_STORAGE;
        }
    }
    // :1869-1873
    if writable_storage == WritableStorage::Yes && entry.visibility.contains(wgt::ShaderStages::FRAGMENT) {
        required_downlevel_flags |= wgt::DownlevelFlags::FRAGMENT_WRITABLE_STORAGE;
    }
    // :1875-1880 (require_features, resource.rs:171-177)
    if !features.contains(required_features) {
        return Err(format!("MissingFeatures({:?})", required_features));
    }
    // :1881-1886 (require_downlevel_flags, resource.rs:179-188)
    if !downlevel.contains(required_downlevel_flags) {
        return Err(format!("MissingDownlevelFlags({:?})", required_downlevel_flags));
    }
    Ok(())
}

// ---------------------------------------------------------------------------------------------
// derived vs generated comparison
// ---------------------------------------------------------------------------------------------

fn vis_names(v: wgt::ShaderStages) -> String {
    let mut s = vec![];
    if v.contains(wgt::ShaderStages::VERTEX) {
        s.push("VERTEX");
    }
    if v.contains(wgt::ShaderStages::FRAGMENT) {
        s.push("FRAGMENT");
    }
    if v.contains(wgt::ShaderStages::COMPUTE) {
        s.push("COMPUTE");
    }
    if s.is_empty() {
        "NONE".into()
    } else {
        s.join("|")
    }
}

/// differences other than min_binding_size, Float{filterable}, has_dynamic_offset, Filtering vs NonFiltering
fn type_diffs(gen: &wgt::BindingType, der: &wgt::BindingType) -> Vec<(&'static str, String)> {
    use wgt::BindingType as Bt;
    let mut out = vec![];
    let mut d = |k: &'static str, a: String, b: String| out.push((k, format!("generated={a} derived={b}")));
    match (gen, der) {
        (Bt::Buffer { ty: a, .. }, Bt::Buffer { ty: b, .. }) => {
            if a != b {
                d("buffer-type", format!("{a:?}"), format!("{b:?}"));
            }
        }
        (
            Bt::Texture { sample_type: sa, view_dimension: va, multisampled: ma },
            Bt::Texture { sample_type: sb, view_dimension: vb, multisampled: mb },
        ) => {
            let same_sample = match (sa, sb) {
                (wgt::TextureSampleType::Float { .. }, wgt::TextureSampleType::Float { .. }) => true,
                _ => sa == sb,
            };
            if !same_sample {
                d("sample-type", format!("{sa:?}"), format!("{sb:?}"));
            }
            if va != vb {
                d("view-dimension", format!("{va:?}"), format!("{vb:?}"));
            }
            if ma != mb {
                d("multisampled", format!("{ma:?}"), format!("{mb:?}"));
            }
        }
        (
            Bt::StorageTexture { access: aa, format: fa, view_dimension: va },
            Bt::StorageTexture { access: ab, format: fb, view_dimension: vb },
        ) => {
            if aa != ab {
                d("storage-access", format!("{aa:?}"), format!("{ab:?}"));
            }
            if fa != fb {
                d("storage-format", format!("{fa:?}"), format!("{fb:?}"));
            }
            if va != vb {
                d("view-dimension", format!("{va:?}"), format!("{vb:?}"));
            }
        }
        (Bt::Sampler(a), Bt::Sampler(b)) => {
            let cmp = |x: &wgt::SamplerBindingType| *x == wgt::SamplerBindingType::Comparison;
            if cmp(a) != cmp(b) {
                d("sampler-type", format!("{a:?}"), format!("{b:?}"));
            }
        }
        (a, b) => d("binding-kind", oneline(format!("{a:?}")), oneline(format!("{b:?}"))),
    }
    out
}

// ---------------------------------------------------------------------------------------------
// one case
// ---------------------------------------------------------------------------------------------

struct Report {
    status: Sexp,
    provided: Vec<Sexp>,
    derived: Vec<Sexp>,
    bgl: Vec<Sexp>,
    notes: Vec<String>,
}

fn run_case(src: &str, path: Option<&str>, opts: usize, features: wgt::Features) -> Report {
    let mut rep = Report { status: atom("ok"), provided: vec![], derived: vec![], bgl: vec![], notes: vec![] };
    // 1. naga
    let module = match naga::front::wgsl::parse_str(src) {
        Ok(m) => m,
        Err(e) => {
            rep.status = atom("invalid");
            rep.notes.push(format!("parse: {}", oneline(e.message())));
            return rep;
        }
    };
    let info = match naga::valid::Validator::new(naga::valid::ValidationFlags::all(), naga::valid::Capabilities::all())
        .validate(&module)
    {
        Ok(i) => i,
        Err(e) => {
            rep.status = atom("invalid");
            rep.notes.push(format!("validate: {}", oneline(format!("{:?}", e.as_inner()))));
            return rep;
        }
    };
    // real generator
    let text = match run::run_real(src, path, run::Opts::from_index(opts)) {
        run::Outcome::Ok(t) => t,
        other => {
            rep.status = atom("no-output");
            rep.notes.push(oneline(run::outcome_sexp(&other).render()));
            return rep;
        }
    };
    let fx = match facts::extract(&text) {
        Ok(f) => f,
        Err(e) => {
            rep.status = atom("facts-error");
            rep.notes.push(oneline(e));
            return rep;
        }
    };
    let (gen, ngroups) = generated_entries(&fx, &mut rep.notes);
    // "the generated bind group layouts taken in pipeline-layout order": position i of create_pipeline_layout's
    // bind_group_layouts is what the pipeline sees as group i.  Entries of a group the list leaves out are not there for the
    // pipeline; a group listed at another position is seen at that position.
    let (gen, ngroups) = match child(&fx, "pipelineLayout").and_then(|p| items(p).get(1)).and_then(|o| items(o).get(1)).and_then(|pl| child(pl, "groups")) {
        Some(gl) => {
            let order: Vec<u32> = items(gl).iter().skip(1).filter_map(as_u32).collect();
            let mut remapped = vec![];
            for (pos, k) in order.iter().enumerate() {
                for e in gen.iter().filter(|e| e.group == *k) {
                    remapped.push(GenEntry { group: pos as u32, entry: e.entry.clone() });
                }
            }
            let identity = order.iter().enumerate().all(|(i, k)| i as u32 == *k) && order.len() == ngroups;
            if !identity {
                rep.notes.push(format!("pipeline layout lists groups {order:?}; module has {ngroups} group(s)"));
            }
            (remapped, order.len())
        }
        None => {
            if ngroups > 0 {
                rep.notes.push("facts: create_pipeline_layout not readable; groups taken by their own number".into());
            }
            (gen, ngroups)
        }
    };

    let lim = limits();
    let iface = Interface::new(&module, &info, lim.clone());

    // per entry point: stage inputs
    struct Ep {
        name: String,
        bit: wgt::ShaderStages,
        stage: &'static str,
        inputs: StageIo,
        ignore_fragment_input: bool,
        verdicts: Vec<Sexp>,
        derived: Derived,
    }
    let mut eps = vec![];
    for ep in &module.entry_points {
        let (bit, stage) = stage_bit(ep.stage);
        let mut verdicts = vec![];
        let mut ignore = false;
        let inputs = match ep.stage {
            naga::ShaderStage::Vertex => {
                // two entry points whose names differ only in case share one ENTRY_<NAME> constant: the generated module does not
                // compile (C01's recorded name-clash class) and which helper belongs to which entry point is undefined - the
                // vertex inputs of such an entry point are not judged
                let consts: Vec<(String, String)> = child(&fx, "entryConsts")
                    .map(|c| children(c, "ec").filter_map(|e| Some((as_str(items(e).get(1)?)?.to_string(), as_str(items(e).get(2)?)?.to_string()))).collect())
                    .unwrap_or_default();
                let mine: Vec<&String> = consts.iter().filter(|(_, n)| *n == ep.name).map(|(c, _)| c).collect();
                if mine.iter().any(|c| consts.iter().filter(|(c2, _)| c2 == *c).count() > 1) {
                    rep.notes.push(format!("vertex entry {}: its ENTRY_ constant is defined more than once (names differing only in case); inputs not judged", ep.name));
                    ignore = true;
                }
                vertex_inputs(&fx, &ep.name, &mut verdicts, &mut rep.notes)
            }
            naga::ShaderStage::Fragment => match fragment_inputs(&module, ep) {
                Some(io) => io,
                None => {
                    ignore = true;
                    StageIo::default()
                }
            },
            naga::ShaderStage::Compute => StageIo::default(),
        };
        eps.push(Ep {
            name: ep.name.clone(),
            bit,
            stage,
            inputs,
            ignore_fragment_input: ignore,
            verdicts,
            derived: Derived::new(),
        });
    }

    // 3. derived mode (fresh source per entry point, merged below: sharing one source between entry points
    //    makes wgpu stop at InconsistentlyDerivedType when one entry samples a float texture and another
    //    only loads it, which would hide the remaining resources of that entry point)
    let mut merged = Derived::new();
    for ep in &mut eps {
        let (d, err) = derive_ep(&iface, &ep.name, ep.bit, ep.inputs.clone(), &lim);
        if let Some(StageError::Binding(rb, be)) = &err {
            rep.derived.push(tagged(
                "diff",
                vec![
                    nat(rb.group),
                    nat(rb.binding),
                    string("derive-error"),
                    string(oneline(format!("entry {}: {be:?}", ep.name))),
                ],
            ));
        }
        for (k, e) in &d {
            match merged.get_mut(k) {
                None => {
                    merged.insert(*k, *e);
                }
                Some(m) => {
                    m.visibility |= e.visibility;
                    if m.ty != e.ty {
                        match (&mut m.ty, &e.ty) {
                            (
                                wgt::BindingType::Texture {
                                    sample_type: wgt::TextureSampleType::Float { filterable: fa },
                                    view_dimension: va,
                                    multisampled: ma,
                                },
                                wgt::BindingType::Texture {
                                    sample_type: wgt::TextureSampleType::Float { filterable: fb },
                                    view_dimension: vb,
                                    multisampled: mb,
                                },
                            ) if va == vb && ma == mb => *fa |= *fb,
                            (a, b) => rep.derived.push(tagged(
                                "diff",
                                vec![
                                    nat(k.0),
                                    nat(k.1),
                                    string("inconsistent-derived"),
                                    string(oneline(format!("{a:?} vs {b:?}"))),
                                ],
                            )),
                        }
                    }
                }
            }
        }
        ep.derived = d;
    }
    let mut gen_keys = BTreeMap::new();
    for g in &gen {
        gen_keys.entry((g.group, g.entry.binding)).or_insert(&g.entry);
    }
    for (k, d) in &merged {
        match gen_keys.get(k) {
            None => rep.derived.push(tagged(
                "diff",
                vec![nat(k.0), nat(k.1), string("missing-entry"), string(oneline(format!("derived={:?}", d.ty)))],
            )),
            Some(g) => {
                for (kind, detail) in type_diffs(&g.ty, &d.ty) {
                    rep.derived.push(tagged("diff", vec![nat(k.0), nat(k.1), string(kind), string(detail)]));
                }
                let missing = d.visibility - g.visibility;
                let extra = g.visibility - d.visibility;
                if !missing.is_empty() {
                    rep.derived.push(tagged(
                        "diff",
                        vec![
                            nat(k.0),
                            nat(k.1),
                            string("missing-visibility"),
                            string(format!(
                                "missing={} generated={} derived={}",
                                vis_names(missing),
                                vis_names(g.visibility),
                                vis_names(d.visibility)
                            )),
                        ],
                    ));
                }
                if !extra.is_empty() {
                    rep.derived.push(tagged(
                        "diff",
                        vec![
                            nat(k.0),
                            nat(k.1),
                            string("extra-visibility"),
                            string(format!(
                                "extra={} generated={} derived={}",
                                vis_names(extra),
                                vis_names(g.visibility),
                                vis_names(d.visibility)
                            )),
                        ],
                    ));
                }
            }
        }
    }
    for (k, g) in &gen_keys {
        if !merged.contains_key(k) {
            rep.derived.push(tagged(
                "diff",
                vec![
                    nat(k.0),
                    nat(k.1),
                    string("unused"),
                    string(format!("generated visibility={}", vis_names(g.visibility))),
                ],
            ));
        }
    }

    // 4. per-entry create_bind_group_layout rules
    let mut seen = std::collections::BTreeSet::new();
    for g in &gen {
        let v = if !seen.insert((g.group, g.entry.binding)) {
            // bgl.rs:79-83 EntryMap::from_entries
            tagged("err", vec![string("ConflictBinding")])
        } else {
            match bgl_entry_check(&g.entry, features, wgt::DownlevelFlags::all()) {
                Ok(()) => atom("ok"),
                Err(m) => tagged("err", vec![string(m)]),
            }
        };
        rep.bgl.push(tagged("entry", vec![nat(g.group), nat(g.entry.binding), v]));
    }

    // 2. provided mode
    if ngroups > wgpu_core::MAX_BIND_GROUPS {
        rep.status = atom("too-many-groups");
        rep.notes.push(format!("{ngroups} groups > MAX_BIND_GROUPS {}", wgpu_core::MAX_BIND_GROUPS));
        return rep;
    }
    for mut ep in eps {
        let mut verdicts = std::mem::take(&mut ep.verdicts);
        provided_ep(
            &iface,
            &gen,
            ngroups,
            &ep.name,
            ep.bit,
            ep.inputs,
            &ep.derived,
            &lim,
            ep.ignore_fragment_input,
            &mut verdicts,
        );
        let mut v = vec![string(ep.name), atom(ep.stage)];
        // "ok" only if nothing else was recorded (ShaderLocationClash may precede it)
        if verdicts.len() > 1 {
            verdicts.retain(|x| as_atom(x) != Some("ok"));
        }
        v.extend(verdicts);
        rep.provided.push(tagged("ep", v));
    }
    rep
}

fn main() {
    run::silence_panics();
    let args: Vec<String> = std::env::args().collect();
    let mut features = wgt::Features::all();
    let mut opts = 0usize;
    let mut i = 1;
    while i < args.len() {
        match args[i].as_str() {
            "--features" => {
                features = match args[i + 1].as_str() {
                    "all" => wgt::Features::all(),
                    "none" => wgt::Features::empty(),
                    other => panic!("--features all|none, got {other}"),
                };
                i += 1;
            }
            "--opts" => {
                opts = args[i + 1].parse().expect("--opts <index>");
                i += 1;
            }
            other => panic!("unknown arg {other}"),
        }
        i += 1;
    }
    let stdin = std::io::stdin();
    let stdout = std::io::stdout();
    let mut out = std::io::BufWriter::new(stdout.lock());
    for line in stdin.lock().lines() {
        let line = line.expect("read stdin");
        if line.trim().is_empty() {
            continue;
        }
        let parsed = parse(&line).expect("bad case line");
        let v = items(&parsed[0]);
        let id = v.get(1).and_then(as_str).expect("case id").to_string();
        let src = v.get(2).and_then(as_str).expect("case src").to_string();
        let path = v.get(3).and_then(|p| items(p).get(1)).and_then(as_str).map(|s| s.to_string());
        let rep = match catch_unwind(AssertUnwindSafe(|| run_case(&src, path.as_deref(), opts, features))) {
            Ok(r) => r,
            Err(p) => Report {
                status: tagged("panic", vec![string(oneline(run::panic_message(p)))]),
                provided: vec![],
                derived: vec![],
                bgl: vec![],
                notes: vec![],
            },
        };
        let sx = tagged(
            "oracle",
            vec![
                string(id),
                rep.status,
                tagged("provided", rep.provided),
                tagged("derived", rep.derived),
                tagged("bgl", rep.bgl),
                tagged("notes", rep.notes.into_iter().map(string).collect()),
            ],
        );
        writeln!(out, "{}", sx.render()).expect("write stdout");
    }
    out.flush().expect("flush stdout");
}
