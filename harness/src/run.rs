//! Running the real generator on one (source, path, options) triple and describing the outcome.
use crate::sexp::*;
use std::panic::{catch_unwind, AssertUnwindSafe};
use wgsl_to_wgpu::{CreateModuleError, MatrixVectorTypes, ValidationOptions, WriteOptions};

#[derive(Clone, Copy, Debug, PartialEq, Eq)]
pub struct Opts {
    pub bm_vertex: bool,
    pub bm_host: bool,
    pub encase: bool,
    pub serde: bool,
    pub repr: u8, // 0 rust 1 glam 2 nalgebra
    pub rustfmt: bool,
    pub validate: bool,
}

impl Opts {
    pub fn to_write_options(self) -> WriteOptions {
        WriteOptions {
            derive_bytemuck_vertex: self.bm_vertex,
            derive_bytemuck_host_shareable: self.bm_host,
            derive_encase_host_shareable: self.encase,
            derive_serde: self.serde,
            matrix_vector_types: match self.repr {
                0 => MatrixVectorTypes::Rust,
                1 => MatrixVectorTypes::Glam,
                _ => MatrixVectorTypes::Nalgebra,
            },
            rustfmt: self.rustfmt,
            validate: if self.validate {
                Some(ValidationOptions::default())
            } else {
                None
            },
        }
    }
    pub fn sexp(self) -> Sexp {
        tagged(
            "options",
            vec![
                boolean(self.bm_vertex),
                boolean(self.bm_host),
                boolean(self.encase),
                boolean(self.serde),
                atom(["rust", "glam", "nalgebra"][self.repr as usize]),
                boolean(self.rustfmt),
                boolean(self.validate),
            ],
        )
    }
    /// index 0..96: derive switches (16) x repr (3) x validate (2) with rustfmt off; 96..192: the same with rustfmt on
    pub fn from_index(i: usize) -> Opts {
        let (i, rustfmt) = if i >= 96 { (i - 96, true) } else { (i, false) };
        Opts {
            bm_vertex: i & 1 != 0,
            bm_host: i & 2 != 0,
            encase: i & 4 != 0,
            serde: i & 8 != 0,
            repr: ((i >> 4) % 3) as u8,
            rustfmt,
            validate: (i >> 4) / 3 % 2 == 1,
        }
    }
    pub const COUNT: usize = 96;
}

pub enum Outcome {
    Ok(String),
    Err(CreateModuleError),
    Panic(String),
}

pub fn silence_panics() {
    if std::env::var_os("VERIF_SHOW_PANICS").is_some() {
        return;
    }
    std::panic::set_hook(Box::new(|_| {}));
}

pub fn panic_message(p: Box<dyn std::any::Any + Send>) -> String {
    if let Some(s) = p.downcast_ref::<&str>() {
        s.to_string()
    } else if let Some(s) = p.downcast_ref::<String>() {
        s.clone()
    } else {
        "<non-string panic>".to_string()
    }
}

pub fn run_real(src: &str, path: Option<&str>, o: Opts) -> Outcome {
    let wo = o.to_write_options();
    let r = catch_unwind(AssertUnwindSafe(|| match path {
        Some(p) => wgsl_to_wgpu::create_shader_module(src, p, wo),
        None => wgsl_to_wgpu::create_shader_module_embedded(src, wo),
    }));
    match r {
        Ok(Ok(t)) => Outcome::Ok(t),
        Ok(Err(e)) => Outcome::Err(e),
        Err(p) => Outcome::Panic(panic_message(p)),
    }
}

pub fn outcome_sexp(o: &Outcome) -> Sexp {
    match o {
        // a panic of the reader itself is a reader defect; it must not take the whole run down
        Outcome::Ok(text) => match std::panic::catch_unwind(|| crate::facts::extract(text)) {
            Ok(Ok(f)) => tagged("ok", vec![f]),
            Ok(Err(e)) => tagged("okUnparsable", vec![string(e)]),
            Err(p) => tagged("okUnparsable", vec![string(format!("fact reader panicked: {}", panic_message(p)))]),
        },
        Outcome::Err(e) => match e {
            CreateModuleError::NonConsecutiveBindGroups => tagged("err", vec![atom("nonConsecutive")]),
            CreateModuleError::DuplicateBinding { binding } => {
                tagged("err", vec![atom("duplicateBinding"), nat(*binding)])
            }
            CreateModuleError::ParseError { error } => {
                tagged("err", vec![atom("parse"), string(error.message().to_string())])
            }
            CreateModuleError::ValidationError { error } => {
                tagged("err", vec![atom("validation"), string(format!("{error}"))])
            }
            other => tagged("err", vec![atom("other"), string(format!("{other}"))]),
        },
        Outcome::Panic(m) => tagged("panic", vec![string(m.clone())]),
    }
}
