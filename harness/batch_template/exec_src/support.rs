//! Runtime support for the generated exec test programs (mode `exec` of `batch`): prints what the
//! REAL generated code evaluates to – `vertex_buffer_layout`, `<entry>_entry(..)`, `OverrideConstants::constants()`.
//! Copied to `src/support.rs` of the scratch crate.

pub fn quote(s: &str) -> String {
    let mut out = String::from("\"");
    for c in s.chars() {
        let n = c as u32;
        if (0x20..=0x7e).contains(&n) && c != '"' && c != '\\' {
            out.push(c);
        } else {
            out.push_str(&format!("\\u{{{:x}}}", n));
        }
    }
    out.push('"');
    out
}

pub fn mode(instance: bool) -> wgpu::VertexStepMode {
    if instance {
        wgpu::VertexStepMode::Instance
    } else {
        wgpu::VertexStepMode::Vertex
    }
}

fn layout_text(l: &wgpu::VertexBufferLayout<'_>) -> String {
    let mut s = format!("(stride {}) (step {:?})", l.array_stride, l.step_mode);
    for a in l.attributes {
        s.push_str(&format!(" (attr {:?} {} {})", a.format, a.offset, a.shader_location));
    }
    s
}

/// `prefix` = `(vbuf "case" opt "Struct"`
pub fn vbuf(prefix: &str, l: &wgpu::VertexBufferLayout<'_>) {
    println!("{prefix} {})", layout_text(l));
}

/// `prefix` = `(ventry "case" opt "fn name"`; `j` = index of the step-mode parameter that was given `Instance`
pub fn ventry(prefix: &str, j: usize, entry_point: &str, buffers: &[wgpu::VertexBufferLayout<'_>], constants: &std::collections::HashMap<String, f64>) {
    let mut s = format!("{prefix} (call {j}) (entry_point {}) (constants {})", quote(entry_point), constants.len());
    for b in buffers {
        s.push_str(&format!(" (buf {})", layout_text(b)));
    }
    println!("{s})");
}

/// `prefix` = `(fentry "case" opt "fn name"`
pub fn fentry(prefix: &str, entry_point: &str, targets: usize, constants: &std::collections::HashMap<String, f64>) {
    println!("{prefix} (entry_point {}) (targets {targets}) (constants {}))", quote(entry_point), constants.len());
}

/// `prefix` = `(ovr "case" opt assignment`; `fields` = rendered `(field "name" ty value)` items
pub fn ovr(prefix: &str, fields: &[String], map: &std::collections::HashMap<String, f64>) {
    let mut keys: Vec<&String> = map.keys().collect();
    keys.sort();
    let mut s = format!("{prefix} (fields {})", fields.join(" "));
    s.push_str(" (map");
    for k in keys {
        s.push_str(&format!(" ({} {})", quote(k), map[k].to_bits()));
    }
    println!("{s}))");
}

pub fn fbool(name: &str, v: Option<bool>) -> String {
    match v {
        Some(v) => format!("(field {} bool (some {}))", quote(name), v as u32),
        None => format!("(field {} bool none)", quote(name)),
    }
}
pub fn fi32(name: &str, v: Option<i32>) -> String {
    match v {
        Some(v) => format!("(field {} i32 (some {}))", quote(name), v),
        None => format!("(field {} i32 none)", quote(name)),
    }
}
pub fn fu32(name: &str, v: Option<u32>) -> String {
    match v {
        Some(v) => format!("(field {} u32 (some {}))", quote(name), v),
        None => format!("(field {} u32 none)", quote(name)),
    }
}
pub fn ff32(name: &str, v: Option<f32>) -> String {
    match v {
        Some(v) => format!("(field {} f32 (some {}))", quote(name), v.to_bits()),
        None => format!("(field {} f32 none)", quote(name)),
    }
}
pub fn ff64(name: &str, v: Option<f64>) -> String {
    match v {
        Some(v) => format!("(field {} f64 (some {}))", quote(name), v.to_bits()),
        None => format!("(field {} f64 none)", quote(name)),
    }
}

pub fn fnv64(bytes: &[u8]) -> u64 {
    let mut h: u64 = 0xcbf29ce484222325;
    for b in bytes {
        h ^= *b as u64;
        h = h.wrapping_mul(0x100000001b3);
    }
    h
}

/// `prefix` = `(source "case" opt`: what the compiler makes of the embedded `SOURCE` literal
pub fn source(prefix: &str, s: &str) {
    println!("{prefix} {} {})", s.len(), fnv64(s.as_bytes()));
}
