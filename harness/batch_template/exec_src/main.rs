//! Entry point of the exec test program (C07 / C12 / C14); `run_all` is generated into lib.rs by `batch exec`.
fn main() {
    let start: usize = std::env::args().nth(1).and_then(|s| s.parse().ok()).unwrap_or(0);
    std::panic::set_hook(Box::new(|_| {}));
    let t = std::thread::Builder::new()
        .stack_size(1 << 30)
        .spawn(move || batch_scratch::run_all(start))
        .unwrap();
    if t.join().is_err() {
        std::process::exit(3);
    }
}
