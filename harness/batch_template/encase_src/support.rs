//! Runtime support for the generated C10 test programs (mode `encase` of `batch`).
//! Copied to `src/support.rs` of the scratch crate.
use std::panic::{catch_unwind, AssertUnwindSafe};

/// Sentinel source: every scalar component gets a distinct 4-byte little-endian pattern.
///   f32: n + 0.25         (bit patterns 0x3e80_0000 ..)
///   i32/u32: 0x0100_0000 + n
pub struct Ctr {
    pub n: u32,
    pub depth: u32,
    pub pending: Option<usize>,
    pub marks: Vec<Option<[u8; 4]>>,
}

impl Ctr {
    pub fn new(fields: usize) -> Ctr {
        Ctr { n: 0, depth: 0, pending: None, marks: vec![None; fields] }
    }
    fn issue(&mut self, b: [u8; 4]) {
        if let Some(i) = self.pending.take() {
            if self.marks[i].is_none() {
                self.marks[i] = Some(b);
            }
        }
    }
    /// Called before the initialiser of field `i`; only top-level fields (depth 1) are recorded.
    pub fn field(&mut self, i: usize) {
        if self.depth == 1 {
            self.pending = Some(i);
        }
    }
    pub fn f32(&mut self) -> f32 {
        self.n += 1;
        let v = self.n as f32 + 0.25;
        self.issue(v.to_le_bytes());
        v
    }
    pub fn u32(&mut self) -> u32 {
        self.n += 1;
        let v = 0x0100_0000u32 + self.n;
        self.issue(v.to_le_bytes());
        v
    }
    pub fn i32(&mut self) -> i32 {
        self.n += 1;
        let v = 0x0100_0000i32 + self.n as i32;
        self.issue(v.to_le_bytes());
        v
    }
}

fn find(bytes: &[u8], pat: [u8; 4]) -> Option<usize> {
    let mut off = 0;
    while off + 4 <= bytes.len() {
        if bytes[off..off + 4] == pat {
            return Some(off);
        }
        off += 4;
    }
    None
}

fn panic_text(p: Box<dyn std::any::Any + Send>) -> String {
    if let Some(s) = p.downcast_ref::<&str>() {
        s.to_string()
    } else if let Some(s) = p.downcast_ref::<String>() {
        s.clone()
    } else {
        "<non-string panic>".to_string()
    }
}

fn quote(s: &str) -> String {
    let mut out = String::from("\"");
    for c in s.chars() {
        let n = c as u32;
        if (0x20..=0x7e).contains(&n) && c != '"' && c != '\\' {
            out.push(c);
        } else {
            out.push_str(&format!("\\u{{{:x}}}", n));
        }
    }
    out.push('"');
    out
}

/// `prefix` is the already rendered `(encase "case id" "Struct"`; `fields` are rendered (quoted)
/// field names; `ks` the runtime-array lengths to try (`[0]` for fixed-size structs).
pub fn report<T>(prefix: &str, fields: &[&str], ks: &[usize], make: impl Fn(&mut Ctr, usize) -> T)
where
    T: encase::ShaderType + encase::internal::WriteInto,
{
    let mut line = String::from(prefix);
    let mut offsets: Vec<Option<usize>> = vec![None; fields.len()];
    for &k in ks {
        let r = catch_unwind(AssertUnwindSafe(|| {
            let mut c = Ctr::new(fields.len());
            let v = make(&mut c, k);
            let mut buf = encase::StorageBuffer::new(Vec::<u8>::new());
            buf.write(&v).map_err(|e| format!("{e}"))?;
            let bytes = buf.into_inner();
            let offs: Vec<Option<usize>> = c.marks.iter().map(|m| m.and_then(|p| find(&bytes, p))).collect();
            Ok::<_, String>((bytes.len(), offs))
        }));
        match r {
            Ok(Ok((len, offs))) => {
                line.push_str(&format!(" (len {k} {len})"));
                offsets = offs;
            }
            Ok(Err(e)) => line.push_str(&format!(" (len {k} (error {}))", quote(&e))),
            Err(p) => line.push_str(&format!(" (len {k} (panic {}))", quote(&panic_text(p)))),
        }
    }
    for (f, o) in fields.iter().zip(offsets) {
        match o {
            Some(o) => line.push_str(&format!(" (field {f} {o})")),
            None => line.push_str(&format!(" (field {f} none)")),
        }
    }
    line.push(')');
    println!("{line}");
}
