// filled by batch
