const A = 1.5lf;
const B: f64 = 2.0lf;
const C = -3;
const D = -0.0;
const E: u32 = 5u + 3u;
const F = vec2<f32>(1.0, 2.0);
const G = C * 2;
const H = 3.4028234e38;
const I = 1e-45;
const J: i32 = -2147483647 - 1;
struct S { in: f32, dyn: u32, box: vec3<f32> }
@group(0) @binding(0) var<uniform> s: S;
@fragment fn main() {}
