struct S0 { a: f32 }
struct S1 { a: S0, b: S0 }
struct S2 { a: S1, b: S1 }
struct S3 { a: S2, b: S2 }
struct S4 { a: S3, b: S3 }
struct S5 { a: S4, b: S4 }
struct S6 { a: S5, b: S5 }
struct S7 { a: S6, b: S6 }
struct S8 { a: S7, b: S7 }
struct S9 { a: S8, b: S8 }
struct S10 { a: S9, b: S9 }
struct S11 { a: S10, b: S10 }
struct S12 { a: S11, b: S11 }
struct S13 { a: S12, b: S12 }
struct S14 { a: S13, b: S13 }
struct S15 { a: S14, b: S14 }
struct S16 { a: S15, b: S15 }
struct S17 { a: S16, b: S16 }
struct S18 { a: S17, b: S17 }
struct S19 { a: S18, b: S18 }
struct S20 { a: S19, b: S19 }
@group(0) @binding(0) var<storage> u: S20;
@fragment fn main() {}
