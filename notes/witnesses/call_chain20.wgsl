@group(0) @binding(0) var<uniform> u: f32;
fn g0() -> f32 { return u; }
fn g1() -> f32 { return g0(); }
fn g2() -> f32 { return g1(); }
fn g3() -> f32 { return g2(); }
fn g4() -> f32 { return g3(); }
fn g5() -> f32 { return g4(); }
fn g6() -> f32 { return g5(); }
fn g7() -> f32 { return g6(); }
fn g8() -> f32 { return g7(); }
fn g9() -> f32 { return g8(); }
fn g10() -> f32 { return g9(); }
fn g11() -> f32 { return g10(); }
fn g12() -> f32 { return g11(); }
fn g13() -> f32 { return g12(); }
fn g14() -> f32 { return g13(); }
fn g15() -> f32 { return g14(); }
fn g16() -> f32 { return g15(); }
fn g17() -> f32 { return g16(); }
fn g18() -> f32 { return g17(); }
fn g19() -> f32 { return g18(); }
fn g20() -> f32 { return g19(); }
@fragment fn main() -> @location(0) vec4<f32> { return vec4(g20()); }
