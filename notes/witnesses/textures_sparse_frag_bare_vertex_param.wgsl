@group(0) @binding(0) var ms: texture_multisampled_2d<f32>;
@group(0) @binding(1) var at: texture_storage_2d<r32uint, atomic>;
@group(0) @binding(7) var t1: texture_1d<f32>;
@group(0) @binding(3) var smp: sampler;
@group(0) @binding(4) var ti: texture_2d<i32>;
@group(0) @binding(5) var dms: texture_depth_multisampled_2d;
struct FOut { @location(2) c: vec4<f32>, @builtin(frag_depth) d: f32 }
@fragment fn fs() -> FOut {
  var o: FOut;
  let a = textureLoad(ms, vec2<i32>(0,0), 0);
  textureAtomicAdd(at, vec2<i32>(0,0), 1u);
  let g = textureGather(0, ti, smp, vec2<f32>(0.0));
  o.c = a + vec4<f32>(g) + textureLoad(t1, 0, 0);
  o.d = textureLoad(dms, vec2<i32>(0,0), 0);
  return o;
}
struct VIn { @location(0) p: vec3<f32>, @builtin(vertex_index) i: u32, @location(5) q: vec2<u32> }
@vertex fn vs(v: VIn, @location(1) extra: f32) -> @builtin(position) vec4<f32> { return vec4(v.p, extra); }
