#!/usr/bin/env python3
"""run_own_checks.py [out.log]: apply every seeded change (seeded/<id>/patch.diff and the staged seeded_pending/*/<n>/) to /repo in turn,
run the quick check of the property the change was written for, undo the change. One block per change, format of run_all_mutants.sh."""
import glob, os, re, subprocess, sys
out = sys.argv[1] if len(sys.argv) > 1 else "/verif/seeded_pending/detect_own.log"
dirs = sorted(glob.glob("/verif/seeded/C*/")) + sorted(glob.glob("/verif/seeded_pending/C*r[2345]/[0-9]/"))
with open(out, "w") as f:
    for d in dirs:
        d = d.rstrip("/")
        own = re.search(r"/(C\d\d)", d[len("/verif/"):]).group(1)
        patch = os.path.join(d, "patch.ported.diff")
        if not os.path.exists(patch):
            patch = os.path.join(d, "patch.diff")
        f.write(f"=== {os.path.relpath(d, '/verif')} own={own}\n"); f.flush()
        r = subprocess.run(["python3", "/verif/checklib/run_mutant.py", patch, own], stdout=subprocess.PIPE, stderr=subprocess.STDOUT, text=True)
        f.write(r.stdout); f.flush()
    f.write("DONE\n")
