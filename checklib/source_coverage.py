#!/usr/bin/env python3
"""source_coverage.py [quick|thorough] : which lines / regions of /repo/wgsl_to_wgpu/src do the case streams of the registered
checks actually execute?  (A development aid, not a check: it bounds what the correspondence can SEE.)

Builds `cases` + `dump` with -C instrument-coverage (nightly toolchain, whose llvm-tools match), runs every property's
streams x option sets through the instrumented `dump`, merges the profiles and prints the uncovered lines of the generator.
Writes /verif/notes/source_coverage.txt.
"""
import os, subprocess, sys, glob, shutil
V = "/verif"
sys.path.insert(0, os.path.join(V, "checklib"))
from props import PROPS  # noqa
tier = sys.argv[1] if len(sys.argv) > 1 else "quick"
seed = int(os.environ.get("VERIF_SEED", "1"))
T = os.path.join(V, "target", "cov")
TOOLS = os.path.expanduser("~/.rustup/toolchains/nightly-x86_64-unknown-linux-gnu/lib/rustlib/x86_64-unknown-linux-gnu/bin")
env = dict(os.environ, CARGO_NET_OFFLINE="true", CARGO_TARGET_DIR=T, RUSTFLAGS="-C instrument-coverage --cfg wgsl_to_wgpu_verif",
           LLVM_PROFILE_FILE=os.path.join(T, "build-%p.profraw"))   # build scripts / proc macros are instrumented too: keep their profiles out of /repo
r = subprocess.run(["cargo", "+nightly", "build", "--release", "--offline", "--bin", "cases", "--bin", "dump"], cwd=os.path.join(V, "harness"), env=env,
                   stdout=subprocess.PIPE, stderr=subprocess.STDOUT, text=True)
if r.returncode != 0:
    print(r.stdout[-3000:]); sys.exit(2)
prof = os.path.join(T, "prof")
shutil.rmtree(prof, ignore_errors=True); os.makedirs(prof)
BIN = os.path.join(T, "release")
n = 0
for pid, spec in sorted(PROPS.items()):
    opts = spec["opts"](tier)
    for st in spec["streams"](tier, seed):
        n += 1
        e = dict(env, LLVM_PROFILE_FILE=os.path.join(prof, f"{pid}-{n}-%p.profraw"))
        c = subprocess.run([os.path.join(BIN, "cases")] + [str(x) for x in st], stdout=subprocess.PIPE, stderr=subprocess.DEVNULL, env=dict(env, LLVM_PROFILE_FILE="/dev/null"))
        d = subprocess.run([os.path.join(BIN, "dump"), "--opts", ",".join(str(o) for o in opts)] + (spec.get("dump_args") or []), input=c.stdout,
                           stdout=subprocess.DEVNULL, stderr=subprocess.DEVNULL, env=e)
        print(pid, st, "cases", c.stdout.count(b"\n"), "dump rc", d.returncode, flush=True)
merged = os.path.join(T, "merged.profdata")
subprocess.run([os.path.join(TOOLS, "llvm-profdata"), "merge", "-sparse", "-o", merged] + glob.glob(os.path.join(prof, "*.profraw")), check=True)
srcs = sorted(glob.glob("/repo/wgsl_to_wgpu/src/*.rs"))
rep = subprocess.run([os.path.join(TOOLS, "llvm-cov"), "report", os.path.join(BIN, "dump"), f"-instr-profile={merged}"] + srcs, stdout=subprocess.PIPE, text=True).stdout
show = subprocess.run([os.path.join(TOOLS, "llvm-cov"), "show", os.path.join(BIN, "dump"), f"-instr-profile={merged}", "-show-line-counts-or-regions"] + srcs,
                      stdout=subprocess.PIPE, text=True).stdout
out = [rep, "", "UNCOVERED LINES (count 0) outside #[cfg(test)] modules:"]
cur, intest = None, False
for line in show.split("\n"):
    if line.startswith("/repo/"):
        cur = line.rstrip(":"); intest = False; continue
    parts = line.split("|", 2)
    if len(parts) < 3:
        continue
    ln, cnt, text = parts[0].strip(), parts[1].strip(), parts[2]
    if "mod test" in text or "mod tests" in text:
        intest = True
    if intest:
        continue
    if cnt == "0":
        out.append(f"{cur}:{ln}: {text.rstrip()}")
txt = "\n".join(out)
os.makedirs(os.path.join(V, "notes"), exist_ok=True)
open(os.path.join(V, "notes", "source_coverage.txt"), "w").write(txt + "\n")
print(txt)
