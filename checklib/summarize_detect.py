#!/usr/bin/env python3
"""summarize_detect.py <detect.log> : one row per seeded change: did the check of the property it was written for
report a violation (with a failing input / no-failing-input-found), and which other checks fired."""
import re, sys, json, os
log = sys.argv[1] if len(sys.argv) > 1 else "/verif/seeded/detect.log"
blocks, cur = [], None
for l in open(log):
    l = l.rstrip("\n")
    m = re.match(r"=== (\S+) own=(C\d\d)", l)
    if m:
        cur = dict(dir=m.group(1), own=m.group(2), rows={}, note="")
        blocks.append(cur)
        continue
    if cur is None:
        continue
    m = re.match(r"\[(C\d\d)\] rc=(\d+) ?(.*)", l)
    if m:
        cur["rows"][m.group(1)] = (int(m.group(2)), m.group(3))
    elif l.startswith("APPLY FAILED"):
        cur["note"] = "patch no longer applies"
rows = []
for b in blocks:
    own = b["rows"].get(b["own"])
    ident = "/".join(b["dir"].split("/")[-2:])
    if b["note"]:
        rows.append((ident, b["own"], b["note"], ""))
        continue
    if own is None:
        rows.append((ident, b["own"], "not run", ""))
        continue
    rc, text = own
    vs = [v for v in text.split(" || ") if v.startswith("VIOLATION")]
    if rc == 1:
        kind = "caught, failing input" if any("no-failing-input-found" not in v for v in vs) or not vs else "caught, no-failing-input-found"
        if not vs:
            kind = "caught"
    elif rc == 0:
        kind = "MISSED"
    else:
        kind = f"infrastructure rc={rc}"
    others = sorted(p for p, (r, _) in b["rows"].items() if p != b["own"] and r == 1)
    rows.append((ident, b["own"], kind, " ".join(others)))
print("| change | written for | result of that property's quick check | other checks that fired |")
print("|---|---|---|---|")
for r in rows:
    print("| " + " | ".join(r) + " |")
n = len(rows); c = sum(1 for r in rows if r[2].startswith("caught")); miss = [r[0] for r in rows if r[2] == "MISSED"]
print(f"\n{c} of {n} caught by the check of the property they were written for; missed: {miss or 'none'}")
