#!/bin/bash
# import_round.sh <id> : copy a sub-agent's deliverables /tmp/mut/<id>/_out/<n>/ to /verif/seeded_pending/<id>/<n>/ and remove its worktree
id=$1
for n in 1 2 3; do
  src=/tmp/mut/$id/_out/$n
  [ -f $src/patch.diff ] || continue
  mkdir -p /verif/seeded_pending/$id/$n
  cp $src/patch.diff $src/demo.rs $src/meta.json /verif/seeded_pending/$id/$n/
done
git -C /repo worktree remove --force /tmp/mut/$id
ls /verif/seeded_pending/$id
