#!/usr/bin/env python3
"""Regenerates /verif/MANIFEST.json from the registry (checklib/props.py + checklib/manifest_meta.py)."""
import json, os, sys
sys.path.insert(0, os.path.dirname(os.path.abspath(__file__)))
from props import PROPS
from manifest_meta import META, NOT_APPLICABLE, HOOK_COMMITS

ALL = [f"C{i:02d}" for i in range(1, 21)]
checks = []
for pid in ALL:
    if pid not in PROPS or pid not in META:
        continue
    m = META[pid]
    checks.append({
        "property_id": pid,
        "quick_cmd": f"./check {pid} --tier quick",
        "thorough_cmd": f"./check {pid} --tier thorough",
        "evidence_file": f"/verif/evidence/{pid}.json",
        "replay_cmd_template": f"./check {pid} --replay {{path}}",
        "engine": "lean-model+correspondence",
        "level_claimed": {"category": "proof", "text": m["text"], "design_ref": m["design_ref"]},
        "level_note": m["note"],
        "technique": m["technique"],
    })
na = [{"property_id": p, "reason": NOT_APPLICABLE.get(p, "check not built yet in this round (planned: see DESIGN.md section 5)")}
      for p in ALL if p not in PROPS or p not in META]
manifest = {
    "version": 1,
    "setup_cmd": "./check setup",
    "hooks": {
        "guard": "wgsl_to_wgpu_verif",
        "enable": "RUSTFLAGS='--cfg wgsl_to_wgpu_verif' (set by ./check for every cargo build of the harness, which path-depends on /repo/wgsl_to_wgpu)",
        "baseline_off_cmd": "cd /repo && cargo test --workspace --no-fail-fast --offline",
        "source_commits": HOOK_COMMITS,
        "add_only": True,
    },
    "engines": [{
        "name": "lean-model+correspondence", "path": "/verif/lean + /verif/harness + /verif/check",
        "serves_properties": [c["property_id"] for c in checks],
        "kind_free_text": "Lean 4 model of the generator with kernel-checked property theorems; Rust harness runs the real generator "
                          "(rebuilt from /repo) on generated shaders, extracts facts from the real output with syn, and the Lean driver "
                          "compares them with the model and evaluates each property's executable spec on the real facts",
    }],
    "checks": checks,
    "not_applicable": na,
    "notes": "See DESIGN.md (section 13 = what was built; 13.20 trusted base; 13.21 final sweep). Exit 2 from a check means infrastructure failure (no verdict). "
             "Open and fixed findings: known_findings.json (KNOWN-FINDING lines; never written at run time). Seeded changes and which check reports them: seeded/DETECTION.md; "
             "property-preserving rewrites: seeded/HARMLESS.md. VERIF_SEED and VERIF_TIER are honoured; VERIF_HARNESS_DIR / VERIF_TARGET_DIR / VERIF_OUT_DIR exist only for "
             "checklib/psweep.py (parallel examination of seeded changes on scratch worktrees) and are never set by the registered commands.",
}
json.dump(manifest, open(os.path.join(os.path.dirname(os.path.abspath(__file__)), "..", "MANIFEST.json"), "w"), indent=1)
print("checks:", [c["property_id"] for c in checks], "not_applicable:", [n["property_id"] for n in na])
