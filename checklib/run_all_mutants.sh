#!/bin/bash
# run every pending/kept seeded change against every registered check; one line per (mutant, property)
cd /verif
out=${1:-/verif/seeded_pending/detect.log}
: > $out
props=$(python3 -c "import json; print(' '.join(c['property_id'] for c in json.load(open('/verif/MANIFEST.json'))['checks']))")
for d in $(ls -d seeded_pending/C*/[0-9] seeded/C*/[0-9] 2>/dev/null); do
  patch=$d/patch.diff; [ -f $d/patch.ported.diff ] && patch=$d/patch.ported.diff
  echo "=== $d" >> $out
  python3 checklib/run_mutant.py $patch $props >> $out 2>&1
done
echo DONE >> $out
