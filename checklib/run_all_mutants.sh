#!/bin/bash
# Apply every staged seeded change to /repo, run the quick checks, undo it. One block per change in the log.
# Fast checks run for every change; the slow (process-level) checks run for the property the change was written for.
cd /verif
out=${1:-/verif/seeded_pending/detect.log}
: > $out
FAST="C02 C03 C04 C05 C06 C07 C08 C09 C11 C12 C13 C14 C15 C20"
for d in $(ls -d ${MUT_GLOB:-seeded_pending/C*/[0-9]} 2>/dev/null); do
  patch=$d/patch.diff; [ -f $d/patch.ported.diff ] && patch=$d/patch.ported.diff
  own=$(echo $d | sed 's#.*/\(C[0-9][0-9]\)[a-z0-9]*/[0-9]*$#\1#')
  props="$FAST"
  case "$own" in C01|C10|C16|C17|C18|C19) props="$own $FAST";; esac
  echo "=== $d own=$own" >> $out
  python3 checklib/run_mutant.py $patch $props >> $out 2>&1
done
echo DONE >> $out
