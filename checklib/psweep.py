#!/usr/bin/env python3
"""psweep.py <out.log> <workers> <dir> [<dir>...]   (dir = a seeded change: <dir>/patch.diff, own property from the directory name)
   psweep.py <out.log> <workers> --props C01,C02,.. <dir> [...]   (run these checks instead of the own one; `all-fast` = every check but C10, C17)

Examines several seeded changes at once.  Each worker owns a scratch git worktree of /repo's HEAD under /tmp (removed at the end,
with its build output), a copy of the harness whose path dependency points at that worktree, its own build / work / output directories
(under /verif/target/sw<k>, removed at the end); /repo itself is never touched.  The checks are the registered ones (/verif/check), told
through VERIF_HARNESS_DIR / VERIF_TARGET_DIR / VERIF_OUT_DIR where to build and write.  Log format = run_all_mutants.sh / run_own_checks.py."""
import glob, os, re, shutil, subprocess, sys, threading, queue
out_path, workers = sys.argv[1], int(sys.argv[2])
rest = sys.argv[3:]
props_override = None
if rest and rest[0] == "--props":
    props_override = rest[1]
    rest = rest[2:]
dirs = [d.rstrip("/") for d in rest]
ALL_FAST = "C01 C02 C03 C04 C05 C06 C07 C08 C09 C11 C12 C13 C14 C15 C16 C18 C19 C20".split()


def sh(cmd, **kw):
    return subprocess.run(cmd, stdout=subprocess.PIPE, stderr=subprocess.STDOUT, text=True, **kw)


def setup(k):
    W = f"/tmp/sw{k}"
    base = f"/verif/target/sw{k}"
    sh(["git", "-C", "/repo", "worktree", "remove", "--force", W])
    shutil.rmtree(W, ignore_errors=True)
    shutil.rmtree(base, ignore_errors=True)
    r = sh(["git", "-C", "/repo", "worktree", "add", "--detach", W, "HEAD"])
    assert r.returncode == 0, r.stdout
    os.makedirs(base)
    shutil.copytree("/verif/harness", base + "/harness", ignore=shutil.ignore_patterns("target", "*.profraw"))
    ct = open(base + "/harness/Cargo.toml").read().replace('path = "/repo/wgsl_to_wgpu"', f'path = "{W}/wgsl_to_wgpu"')
    open(base + "/harness/Cargo.toml", "w").write(ct)
    return W, base


def teardown(k):
    sh(["git", "-C", "/repo", "worktree", "remove", "--force", f"/tmp/sw{k}"])
    shutil.rmtree(f"/tmp/sw{k}", ignore_errors=True)
    shutil.rmtree(f"/verif/target/sw{k}", ignore_errors=True)


results = {}
q = queue.Queue()
for i, d in enumerate(dirs):
    q.put((i, d))


def worker(k):
    W, base = setup(k)
    env = dict(os.environ, VERIF_HARNESS_DIR=base + "/harness", VERIF_TARGET_DIR=base + "/t", VERIF_OUT_DIR=base + "/out")
    while True:
        try:
            i, d = q.get_nowait()
        except queue.Empty:
            break
        mo = re.search(r"/(C\d\d)", d[len("/verif/"):] if d.startswith("/verif/") else "/" + d)
        own = mo.group(1) if mo else "C00"      # property-preserving rewrites (seeded_pending/harmless/H*) have no own property
        patch = os.path.join(d, "patch.ported.diff")
        if not os.path.exists(patch):
            patch = os.path.join(d, "patch.diff")
        head = f"=== {os.path.relpath(d, '/verif')} own={own}\n"
        body = ""
        a = sh(["git", "-C", W, "apply", os.path.abspath(patch)])
        if a.returncode != 0:
            body = "APPLY FAILED: " + a.stdout[:200] + "\n"
        else:
            props = [own] if props_override is None else (ALL_FAST if props_override == "all-fast" else props_override.split(","))
            for p in props:
                r = sh(["/verif/check", p, "--tier", "quick"], cwd="/verif", env=env)
                lines = [l for l in r.stdout.split("\n") if l.startswith(("VIOLATION", "KNOWN-FINDING", "OK", "INFRA"))]
                lines.sort(key=lambda l: 0 if l.startswith("VIOLATION") else 1)
                lines = [l if l.startswith("VIOLATION") else l[:90] for l in lines]
                body += f"[{p}] rc={r.returncode} " + " || ".join(lines)[:900] + "\n"
        sh(["git", "-C", W, "reset", "-q", "--hard", "HEAD"])
        sh(["git", "-C", W, "clean", "-fdq"])
        results[i] = head + body
        with open(out_path + ".partial", "a") as f:
            f.write(head + body)
    teardown(k)


open(out_path + ".partial", "w").close()
base_k = int(os.environ.get("PSWEEP_BASE", "0"))   # a second sweep at the same time uses other worker numbers
ts = [threading.Thread(target=worker, args=(base_k + k,)) for k in range(workers)]
for t in ts:
    t.start()
for t in ts:
    t.join()
with open(out_path, "w") as f:
    for i in range(len(dirs)):
        f.write(results.get(i, f"=== {dirs[i]} own=?\nNOT RUN\n"))
    f.write("DONE\n")
os.remove(out_path + ".partial")
