#!/usr/bin/env python3
"""try_case.py <file.wgsl> [opts] [driver props...] : run one WGSL file through dump | driver and print verdict lines (development aid)."""
import sys, subprocess
src = open(sys.argv[1]).read()
opts = sys.argv[2] if len(sys.argv) > 2 else "0"
props = sys.argv[3:] or ["ALL"]
enc = "".join(c if (32 <= ord(c) < 127 and c not in '"\\') else "\\u{%x}" % ord(c) for c in src)
line = f'(src "adhoc" "{enc}")\n'
d = subprocess.run(["/verif/target/release/dump", "--opts", opts], input=line, stdout=subprocess.PIPE, text=True)
if "--raw" in props:
    print(d.stdout); sys.exit(0)
r = subprocess.run(["/verif/lean/.lake/build/bin/driver"] + props, input=d.stdout, stdout=subprocess.PIPE, text=True)
print(r.stdout)
