#!/usr/bin/env python3
"""finalize_seeded2.py: (re)build /verif/seeded/ from all three rounds and write seeded/DETECTION.md.

* rounds 2 and 3 are taken from the staging area seeded_pending/<prop>r<k>/<n>/ when my confirmation run accepted them (confirm.log);
* for every kept change `detection.own_property_check` comes from the LAST sweep of own-property checks against the final machinery
  (seeded_pending/detect_own.log, written by checklib/run_own_checks.py), `other_checks_that_fired` and `own_property_check_when_first_run` from the sweep made when the
  round arrived (detect.log / detect_r2.log / detect_r3.log: all fast checks + the own slow one; detect_own_r4.log / detect_own_r5.log:
  the own check only), with the machinery of that time.
"""
import json, os, re, shutil, subprocess, glob
V = "/verif"
pend = os.path.join(V, "seeded_pending")
out = os.path.join(V, "seeded")
head = subprocess.run(["git", "-C", "/repo", "rev-parse", "--short", "HEAD"], stdout=subprocess.PIPE, text=True).stdout.strip()


def parse_log(path):
    res, cur = {}, None
    if not os.path.exists(path):
        return res
    for l in open(path):
        m = re.match(r"=== (\S+) own=(C\d\d)", l)
        if m:
            cur = m.group(1).rstrip("/")
            res[cur] = {"own": m.group(2), "rows": {}, "note": ""}
            continue
        if cur is None:
            continue
        m = re.match(r"\[(C\d\d)\] rc=(\d+) ?(.*)", l)
        if m:
            res[cur]["rows"][m.group(1)] = (int(m.group(2)), m.group(3))
        elif l.startswith(("APPLY FAILED", "REPO NOT CLEAN")):
            res[cur]["note"] = l.strip()[:80]
    return res


confirm = {}
for l in open(os.path.join(pend, "confirm.log")):
    f = l.split()
    if f:
        confirm[f[0]] = l.strip()
own_log = parse_log(os.path.join(pend, "detect_own.log"))
# the last sweeps against the committed machinery (checklib/psweep.py): rounds 1-5, then round 6 (+ the one change the first missed)
for fn in ("detect_own_final.log", "detect_own_r6_final.log", "detect_own_r6_final2.log", "detect_own_r7_final.log", "detect_own_r7_final2.log", "detect_own_all_final.log"):
    own_log.update(parse_log(os.path.join(pend, fn)))
full = {}
for fn in ("detect.log", "detect_r2.log", "detect_r3.log", "detect_own_r4.log", "detect_own_r5.log", "detect_own_r6.log", "detect_own_r7.log"):
    full.update(parse_log(os.path.join(pend, fn)))


def own_verdict(entry):
    if entry is None:
        return "not run"
    if entry["note"]:
        return entry["note"]
    row = entry["rows"].get(entry["own"])
    if row is None:
        return "not run"
    rc, text = row
    vs = [v for v in text.split(" || ") if v.startswith("VIOLATION")]
    if rc == 1:
        return "violation reported with a failing input" if (not vs or any("no-failing-input-found" not in v for v in vs)) else "violation reported (no-failing-input-found)"
    if rc == 0:
        return "MISSED"
    return f"infrastructure rc={rc}"


kept = []
# rounds 2 and 3 from the staging area
for d in sorted(glob.glob(os.path.join(pend, "C*r[234567]", "[0-9]"))):
    prop, n = d.split("/")[-2], d.split("/")[-1]
    key = f"{prop}_{n}"
    c = confirm.get(key, "")
    ok = "pre_rc=0" in c and "other_tests_failed=0" in c and "demo_failed=1" in c and "build_errors=0" in c
    if not ok:
        print("dropped", key, c or "not confirmed")
        continue
    sid = f"{prop}-{n}"
    sd = os.path.join(out, sid)
    os.makedirs(sd, exist_ok=True)
    shutil.copy(os.path.join(d, "patch.diff"), os.path.join(sd, "patch.diff"))
    shutil.copy(os.path.join(d, "demo.rs"), os.path.join(sd, "demo.rs"))
    meta = json.load(open(os.path.join(d, "meta.json")))
    own = re.match(r"C\d\d", prop).group(0)
    meta["property"] = own
    meta["id"] = sid
    meta["round"] = int(prop[-1])
    meta["author_ran"] = meta.pop("ran", meta.get("author_ran", []))
    meta["confirmed_by_me"] = {
        "repo_head": head,
        "how": "checklib/confirm_mutants.sh in a scratch worktree of /repo HEAD (removed afterwards): demo copied to wgsl_to_wgpu/tests/, "
               "`cargo test -p wgsl_to_wgpu --test <demo> --offline` on the pristine tree (must pass); `git apply patch.diff`; "
               "`cargo test --workspace --offline --no-fail-fast` (must build, every existing test target must pass, the demo must fail)",
        "result": c,
    }
    json.dump(meta, open(os.path.join(sd, "meta.json"), "w"), indent=1, ensure_ascii=False)

rows = []
for sd in sorted(glob.glob(os.path.join(out, "C*"))):
    sid = os.path.basename(sd)
    mp = os.path.join(sd, "meta.json")
    if not os.path.exists(mp):
        continue
    meta = json.load(open(mp))
    own = meta["property"]
    # keys of this change in the logs
    m = re.match(r"(C\d\d[a-z0-9]*)-(\d+)$", sid)
    prop, n = m.group(1), m.group(2)
    own_entry = own_log.get(f"seeded/{sid}") or own_log.get(f"seeded_pending/{prop}/{n}")
    full_entry = full.get(f"seeded_pending/{prop}/{n}")
    first = None
    if full_entry:
        first = own_verdict(full_entry)
    final = own_verdict(own_entry)
    others = sorted(p for p, (rc, _) in (full_entry["rows"].items() if full_entry else []) if p != own and rc == 1)
    meta["detection"] = {
        "how": "checklib/run_mutant.py (git -C /repo apply patch.diff; ./check <Cxx> --tier quick; git -C /repo reset --hard) for the first runs of rounds 1-5; checklib/psweep.py (the same check on a scratch worktree with the patch applied, /repo untouched) for round 6 and the final sweeps",
        "own_property_check": final,
        "own_property_check_when_first_run": first,
        "other_checks_that_fired": others,
    }
    json.dump(meta, open(mp, "w"), indent=1, ensure_ascii=False)
    kept.append(sid)
    rows.append((sid, own, first or "-", final, " ".join(others), (meta.get("summary", "") or "").replace("\n", " ")[:110]))

with open(os.path.join(out, "DETECTION.md"), "w") as f:
    f.write("# Seeded changes and the checks that report them\n\n"
            "`first run` = the quick check of the property the change was written for, with the machinery as it was when the change arrived; "
            "`final` = the same check with the machinery as committed (checklib/run_own_checks.py); `others` = fast checks of other properties that "
            "also fired in the full sweep of that round. Strengthenings between the two columns are listed in DESIGN.md 13.6 / 13.9 / 13.12 / 13.16 / 13.17 / 13.19.\n\n")
    f.write("| change | property | first run | final | others | what |\n|---|---|---|---|---|---|\n")
    for r in rows:
        f.write("| " + " | ".join(r) + " |\n")
    n = len(rows)
    caught = sum(1 for r in rows if r[3].startswith("violation"))
    missed = [r[0] for r in rows if not r[3].startswith("violation")]
    f.write(f"\n{caught} of {n} reported by the check of the property they were written for (final machinery); not reported: {missed or 'none'}\n")
print("kept", len(kept))
