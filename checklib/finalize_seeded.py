#!/usr/bin/env python3
"""finalize_seeded.py: build /verif/seeded/<id>/ (patch.diff, demo.rs, meta.json) from the staging area
/verif/seeded_pending/<prop>/<n>/ for every change that my own confirmation run accepted (confirm.log:
demo passes on pristine HEAD, with the patch the workspace builds, the existing suite passes, the demo fails),
and record in meta.json what I ran and which quick checks reported it (detect.log)."""
import json, os, re, shutil, subprocess, sys
V = "/verif"
pend = os.path.join(V, "seeded_pending")
out = os.path.join(V, "seeded")
head = subprocess.run(["git", "-C", "/repo", "rev-parse", "--short", "HEAD"], stdout=subprocess.PIPE, text=True).stdout.strip()
confirm = {}
for l in open(os.path.join(pend, "confirm.log")):
    f = l.split()
    if f:
        confirm[f[0]] = l.strip()
detect = {}
cur = None
dl = os.path.join(pend, "detect.log")
if os.path.exists(dl):
    for l in open(dl):
        m = re.match(r"=== seeded_pending/(\S+)/(\d+) own=(C\d\d)", l)
        if m:
            cur = f"{m.group(1)}_{m.group(2)}"
            detect[cur] = {}
            continue
        m = re.match(r"\[(C\d\d)\] rc=(\d+) ?(.*)", l)
        if m and cur:
            detect[cur][m.group(1)] = (int(m.group(2)), m.group(3))
os.makedirs(out, exist_ok=True)
kept, dropped = [], []
for prop in sorted(os.listdir(pend)):
    pd = os.path.join(pend, prop)
    if not os.path.isdir(pd):
        continue
    for n in sorted(os.listdir(pd)):
        d = os.path.join(pd, n)
        key = f"{prop}_{n}"
        c = confirm.get(key, "")
        ok = "pre_rc=0" in c and "other_tests_failed=0" in c and "demo_failed=1" in c and "build_errors=0" in c
        if not ok:
            dropped.append((key, c or "not confirmed"))
            continue
        sid = f"{prop}-{n}"
        sd = os.path.join(out, sid)
        os.makedirs(sd, exist_ok=True)
        ported = os.path.join(d, "patch.ported.diff")
        if os.path.exists(ported):
            shutil.copy(ported, os.path.join(sd, "patch.diff"))
            shutil.copy(os.path.join(d, "patch.diff"), os.path.join(sd, "patch.as-written.diff"))
        else:
            shutil.copy(os.path.join(d, "patch.diff"), os.path.join(sd, "patch.diff"))
        shutil.copy(os.path.join(d, "demo.rs"), os.path.join(sd, "demo.rs"))
        meta = json.load(open(os.path.join(d, "meta.json")))
        own = re.match(r"C\d\d", prop).group(0)
        meta["property"] = own
        meta["id"] = sid
        meta["author_ran"] = meta.pop("ran", [])
        meta["confirmed_by_me"] = {
            "repo_head": head,
            "how": "checklib/confirm_mutants.sh in a scratch worktree of /repo HEAD (removed afterwards): demo copied to wgsl_to_wgpu/tests/, "
                   "`cargo test -p wgsl_to_wgpu --test <demo> --offline` on the pristine tree (must pass); `git apply patch.diff`; "
                   "`cargo test --workspace --offline --no-fail-fast` (must build, every existing test target must pass, the demo must fail)",
            "result": c,
        }
        det = detect.get(key, {})
        if det:
            own_rc, own_text = det.get(own, (None, ""))
            vs = [v for v in own_text.split(" || ") if v.startswith("VIOLATION")]
            meta["detection"] = {
                "how": "checklib/run_mutant.py: git -C /repo apply patch.diff; ./check <Cxx> (quick tier) for the listed properties; git -C /repo reset --hard",
                "own_property_check": ("not run" if own_rc is None else "MISSED" if own_rc == 0 else
                                       "violation reported" + (" with a failing input" if any("no-failing-input-found" not in v for v in vs) else " (no-failing-input-found)" if vs else "")),
                "other_checks_that_fired": sorted(p for p, (rc, _) in det.items() if p != own and rc == 1),
            }
        json.dump(meta, open(os.path.join(sd, "meta.json"), "w"), indent=1, ensure_ascii=False)
        kept.append(sid)
print("kept", len(kept), "dropped", dropped)
