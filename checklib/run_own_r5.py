#!/usr/bin/env python3
import glob, os, re, subprocess, sys
out = "/verif/seeded_pending/detect_own_r5.log"
dirs = sorted(glob.glob("/verif/seeded_pending/C*r5/[0-9]/"))
with open(out, "w") as f:
    for d in dirs:
        d = d.rstrip("/")
        own = re.search(r"/(C\d\d)", d[len("/verif/"):]).group(1)
        f.write(f"=== {os.path.relpath(d, '/verif')} own={own}\n"); f.flush()
        r = subprocess.run(["python3", "/verif/checklib/run_mutant.py", os.path.join(d, "patch.diff"), own], stdout=subprocess.PIPE, stderr=subprocess.STDOUT, text=True)
        f.write(r.stdout); f.flush()
    f.write("DONE\n")
