#!/usr/bin/env python3
"""run_harmless.py: apply every property-preserving rewrite (seeded_pending/harmless/<id>/patch.diff) to /repo, run quick checks, undo."""
import glob, os, subprocess
out = "/verif/seeded_pending/detect_harmless.log"
props = "C01 C02 C03 C04 C05 C06 C07 C08 C09 C11 C12 C13 C14 C15 C16 C18 C19 C20".split()
with open(out, "w") as f:
    for d in sorted(glob.glob("/verif/seeded_pending/harmless/H*-*/")):
        f.write(f"=== {os.path.relpath(d.rstrip('/'), '/verif')} own=C00\n"); f.flush()
        r = subprocess.run(["python3", "/verif/checklib/run_mutant.py", os.path.join(d, "patch.diff")] + props, stdout=subprocess.PIPE, stderr=subprocess.STDOUT, text=True)
        f.write(r.stdout); f.flush()
    f.write("DONE\n")
