"""Two-sided validation of Ext.RustStatic (Lean) against rustc, per generated module.

predictions: (case id, option index) -> list of (kind, class, what) from the driver's `C01S` tags
             kind 'rsD' = definite issue (rustc must reject), 'rsU' = outside the transcription's domain, 'rsOk'
rustc:       (case id, option index) -> ('ok' | 'permitted' | 'rejected', set of finding signatures, first messages)

Rules:
  * rustc accepts (ok / permitted) but RustStatic has a definite issue      -> spec-validation failure (transcription too strict)
  * rustc rejects and RustStatic has no issue at all                        -> the rejection is unexplained: violation (or a finding)
  * rustc rejects with signature s and no issue of a class mapped to s      -> unexplained as well
  * exception: when the module has a `const-may-be-captured` issue (outside the transcription's domain), rustc's message class is not
    held against the predicted classes: a captured constant produces arbitrary follow-up errors
Everything else agrees.  Definite issues rustc does not mention are fine (rustc stops at the first failing phase).
"""

# which issue classes explain which rustc finding signature
EXPLAINS = {
    "rustc#bool-member-with-pod-or-shadertype": {"derive-unsat"},
    "rustc#f64-with-encase": {"derive-unsat"},
    "rustc#serde-array-longer-than-32": {"derive-unsat"},
    "rustc#name-clash-with-generated-item": {"dup-type-item", "dup-value-item", "dup-param", "dup-field", "prelude-shadowed", "dup-impl", "dup-group-item"},
    "rustc#struct-named-like-a-crate": {"crate-shadowed"},
    "rustc#lowercase-const-shadows-derive-local": {"const-may-be-captured"},
    "rustc#vertex-input-struct-not-emitted": {"unresolved-vertex-struct", "unresolved-type"},
    "rustc#syntax-error": {"keyword-ident"},
}


def compare(pred, rustc):
    """returns (counts, problems) ; problems: list of (signature, detail, case id, option, is_spec_failure)"""
    counts = {"agree-accept": 0, "agree-reject": 0, "accept-with-unknown-issue": 0, "no-prediction": 0}
    problems = []
    for key, (verdict, sigs, msgs) in rustc.items():
        cid, opt = key
        p = pred.get(key)
        if p is None:
            counts["no-prediction"] += 1
            continue
        definite = [(c, w) for k, c, w in p if k == "rsD"]
        anyissue = [(c, w) for k, c, w in p if k in ("rsD", "rsU")]
        if verdict in ("ok", "permitted"):
            if definite:
                problems.append(("static#rustc-accepts-what-RustStatic-rejects",
                                 f"option set {opt}: Ext.RustStatic reports {definite[0][0]} ({definite[0][1]}) but rustc accepts the module", cid, opt, False))
            elif anyissue:
                counts["accept-with-unknown-issue"] += 1
            else:
                counts["agree-accept"] += 1
            continue
        classes = {c for c, _ in anyissue}
        if not anyissue:
            problems.append(("static#rustc-rejects-what-RustStatic-accepts",
                             f"option set {opt}: rustc rejects a module Ext.RustStatic finds nothing wrong with: {msgs[:200]}", cid, opt, True))
            continue
        unexplained = [s for s in sigs if not (EXPLAINS.get(s, set()) & classes)]
        if unexplained and "const-may-be-captured" in classes:
            # a constant captured by an unhygienic binding of a derive expansion produces arbitrary follow-up errors (a `bool` constant
            # named like a local of encase's derive yields "`bool: CreateFrom` is not satisfied"): the message class says nothing here
            counts["agree-reject-capture-domain"] = counts.get("agree-reject-capture-domain", 0) + 1
        elif unexplained:
            problems.append(("static#rejection-not-explained",
                             f"option set {opt}: rustc's rejection ({unexplained[0]}: {msgs[:160]}) is not explained by the predicted issues {sorted(classes)}", cid, opt, True))
        else:
            counts["agree-reject"] += 1
    return counts, problems
