"""Per-property registry used by /verif/check."""

COMMON_TRUSTED = [
    "Lean 4.33.0 kernel; axioms per theorem as audited (allow-list propext, Classical.choice, Quot.sound)",
    "harness/src/irdump.rs (naga::Module -> IR) and harness/src/facts.rs (real Rust text -> facts): a wrong reader can hide a difference",
    "correspondence is differential testing: it only sees the inputs generated in this run",
    "naga 24.0.0 front end / validator (produce the modules the theorems quantify over)",
]


def q_opts(quick, thorough):
    return lambda tier: quick if tier == "quick" else thorough


PROPS = {}

PROPS["C11"] = dict(
    lean_modules=["WgslVerif.Props.C11"],
    theorems=["WgslVerif.C11_dup", "WgslVerif.C11_gap", "WgslVerif.C11_ok", "WgslVerif.C11_ok_content",
              "WgslVerif.C11_total", "WgslVerif.C11_exec", "WgslVerif.firstClash_none", "WgslVerif.firstClash_some",
              "WgslVerif.denseB_iff"],
    streams=lambda tier, seed: (
        [("fixtures",), ("c11", 3, 2, 3), ("c11rand", seed, 400), ("gen", "bindings", seed, 200)] if tier == "quick" else
        [("fixtures",), ("c11", 3, 3, 4), ("c11", 4, 4, 3), ("c11rand", seed, 5000), ("gen", "bindings", seed, 3000)]),
    # validation off / on (option index bit layout: see harness/src/run.rs Opts::from_index)
    opts=q_opts([0, 48], [0, 48, 21, 90]),
    rule="cases: repo fixtures + every sequence (ordered, with repetition) of (@group,@binding) pairs over a small grid "
         "(bounded-exhaustive) + random multisets incl. u32 extremes + structured generator profile 'bindings'; "
         "non-trivial = module parsed and the run was comparable (not pre-empted by the validator / a later panic); "
         "distinct = distinct WGSL source text",
    trusted_base=COMMON_TRUSTED + ["u32 group/binding indices modelled as Nat; `as usize` exact on 64-bit targets"],
    assumptions=["bound variables are processed in arena (= declaration) order (checked by correspondence)",
                 "with validation on, a validator error may pre-empt the dedicated errors (allowed by the property; counted as skipped)"],
)

# ---------------------------------------------------------------------------------------------
import os, subprocess, json, re, time, concurrent.futures

VERIF = os.path.dirname(os.path.dirname(os.path.abspath(__file__)))
BIN = os.path.join(VERIF, "target", "release")
DRIVER = os.path.join(VERIF, "lean", ".lake", "build", "bin", "driver")


def run_one_case_timed(case_line, opt, prop, timeout_s):
    """one case in its own dump|driver pipeline under a hard timeout; returns (status, V-line fields or None, seconds)"""
    t0 = time.time()
    try:
        d = subprocess.run([os.path.join(BIN, "dump"), "--opts", str(opt)], input=case_line + "\n", stdout=subprocess.PIPE,
                           stderr=subprocess.PIPE, text=True, timeout=timeout_s)
    except subprocess.TimeoutExpired:
        return "timeout", None, time.time() - t0
    dt = time.time() - t0
    if d.returncode != 0:
        return "dump-failed", d.stderr[-500:], dt
    v = subprocess.run([DRIVER, prop], input=d.stdout, stdout=subprocess.PIPE, stderr=subprocess.PIPE, text=True)
    for l in v.stdout.split("\n"):
        if l.startswith("V|" + prop + "|"):
            return "ok", l.split("|", 6), dt
    return "no-verdict", v.stdout[-500:], dt


def family_cases(specs):
    lines = []
    for fam, n in specs:
        r = subprocess.run([os.path.join(BIN, "cases"), "family", fam, str(n)], stdout=subprocess.PIPE, text=True)
        lines.append((fam, n, r.stdout.strip()))
    return lines


def extra_c20(pid, tier, seed, workdir, known, write_replay):
    depths = [4, 8, 12, 16, 20, 24, 32, 48, 64] if tier == "quick" else [2, 4, 6, 8, 10, 12, 14, 16, 18, 20, 22, 24, 28, 32, 40, 48, 56, 64]
    specs = [(f, n) for f in ("chain", "chainv", "diamond", "nested") for n in depths] + [("fanout", n) for n in (8, 64, 200)]
    cases = family_cases(specs)
    timeout_s = 20
    results = []
    with concurrent.futures.ThreadPoolExecutor(max_workers=8) as ex:
        futs = {ex.submit(run_one_case_timed, line, 4, pid, timeout_s): (fam, n, line) for fam, n, line in cases}
        for fu in concurrent.futures.as_completed(futs):
            fam, n, line = futs[fu]
            results.append((fam, n, line) + fu.result())
    results.sort(key=lambda r: (r[0], r[1]))
    viol, kn, notes, table = [], [], [], []
    seen = set()
    for fam, n, line, status, v, dt in results:
        table.append({"family": fam, "depth": n, "status": status, "seconds": round(dt, 3),
                      "verdict": (v[4] + " / " + v[5]) if status == "ok" else None})
        detail = None
        if status == "timeout":
            detail = f"fail:wall-clock#timeout-{fam}: generation of family {fam} depth {n} did not finish in {timeout_s} s"
        elif status != "ok":
            detail = f"fail:harness#{status}: {v}"
        elif v[5].startswith("fail:") or v[4].startswith("fail:"):
            detail = v[5] if v[5].startswith("fail:") else v[4]
        if detail:
            m = re.match(r"fail:([A-Za-z0-9_.\-]+#[A-Za-z0-9_.\-:]+)", detail)
            sig = m.group(1) if m else "unclassified"
            kf = next((k for k in known if k["signature"] == sig), None)
            if kf:
                kn.append(f"KNOWN-FINDING: property={pid} {sig}: {kf.get('what', '')}")
                continue
            if sig in seen:
                continue
            seen.add(sig)
            kind = "spec-fails-on-implementation" if (status == "timeout" or (status == "ok" and v[5].startswith("fail:"))) else "model-implementation-disagreement"
            p = write_replay(pid, kind, line, 0, [4], detail, {"family": fam, "depth": n})
            viol.append((p, "" if kind == "spec-fails-on-implementation" else " no-failing-input-found"))
    return {"families": table, "family_timeout_s": timeout_s}, viol, kn, notes


PROPS["C03"] = dict(
    lean_modules=["WgslVerif.Props.C03"],
    theorems=["WgslVerif.C03_visibility", "WgslVerif.C03_present", "WgslVerif.C03_unreached_none", "WgslVerif.C03_entryStages",
              "WgslVerif.callsEarlierB_sound", "WgslVerif.reach_iff_reachS", "WgslVerif.entryUses_iff",
              "WgslVerif.mem_callsOf_evFn", "WgslVerif.mem_usesOf_evFn"],
    streams=lambda tier, seed: (
        [("fixtures",), ("gen", "callgraph", seed, 500), ("gen", "general", seed, 300), ("gen", "textures", seed, 100),
         ("gen", "entries", seed, 100), ("family", "diamond", 5), ("family", "fanout", 12), ("family", "chainv", 9)] if tier == "quick" else
        [("fixtures",), ("gen", "callgraph", seed, 12000), ("gen", "general", seed, 8000), ("gen", "textures", seed, 2000),
         ("gen", "entries", seed, 2000), ("gen", "scale", seed, 400), ("family", "diamond", 7), ("family", "fanout", 40)]),
    opts=q_opts([0], [0, 48]),
    rule="cases: fixtures + structured generator profiles callgraph/general/textures/entries (helper DAGs: chains, diamonds, shared helpers, "
         "fan-out; accesses and calls in if/else, switch, loop, continuing, break-if, nested blocks, value-returning calls in expressions; "
         "0..3 entry points per stage); non-trivial = the output has at least one binding or a push constant; distinct = distinct WGSL text",
    trusted_base=COMMON_TRUSTED + ["CallsEarlier (callee handle < caller handle) is a hypothesis about naga's front end, evaluated (callsEarlierB) on every dumped module",
                                   "'statically accesses' is read at naga-IR level: an Expression::GlobalVariable in the function's arena"],
    assumptions=["stage expressions in the output are evaluated by the extractor (all(), VERTEX_FRAGMENT, A.union(B), NONE)"],
)

PROPS["C20"] = dict(
    lean_modules=["WgslVerif.Props.C20"],
    theorems=["WgslVerif.C20_stage_fn_visits", "WgslVerif.C20_stage_stmt_visits", "WgslVerif.Legacy.chain_blowup",
              "WgslVerif.nodup_lt_length"],
    streams=lambda tier, seed: (
        [("fixtures",), ("gen", "callgraph", seed, 300), ("gen", "structs", seed, 200), ("gen", "scale", seed, 40)] if tier == "quick" else
        [("fixtures",), ("gen", "callgraph", seed, 5000), ("gen", "structs", seed, 3000), ("gen", "scale", seed, 600), ("gen", "general", seed, 3000)]),
    opts=q_opts([4], [4, 52]),
    extra=extra_c20,
    rule="cases: fixtures + generator profiles callgraph/structs/scale compared on hook visit counters (update_stages calls, statements walked, "
         "add_types_recursive calls) + deterministic families chain / chain with value-returning calls / diamond / fan-out / nested structs at "
         "depths up to 64, each run in its own process under a hard timeout; non-trivial = generation reached the traversals; distinct = distinct WGSL text",
    trusted_base=COMMON_TRUSTED + ["each counted step is one BTreeMap/HashSet operation (O(log n)); wall-clock is measured, not proved",
                                   "hook counters (cfg wgsl_to_wgpu_verif) count exactly the calls named in the model"],
    assumptions=["wall-clock budget 5 s per call and 20 s per family case are >= 20x the observed values on the repaired tree; they never decide alone: "
                 "the count bound is the proved criterion"],
)

ALL_OPTS = list(range(96))

PROPS["C08"] = dict(
    lean_modules=["WgslVerif.Props.C08"],
    theorems=["WgslVerif.C08", "WgslVerif.C08_mem", "WgslVerif.C08_nodup", "WgslVerif.structWanted_iff",
              "WgslVerif.globalVariableTypes_mem", "WgslVerif.typeArenaOkB_sound"],
    streams=lambda tier, seed: (
        [("fixtures",), ("gen", "structs", seed, 500), ("gen", "general", seed, 300), ("gen", "vertex", seed, 150), ("gen", "entries", seed, 100)] if tier == "quick" else
        [("fixtures",), ("gen", "structs", seed, 12000), ("gen", "general", seed, 6000), ("gen", "vertex", seed, 3000), ("gen", "entries", seed, 2000), ("gen", "scale", seed, 300)]),
    opts=q_opts([4, 37], [4, 37, 70]),
    rule="cases: fixtures + generator profiles structs/general/vertex/entries (structs only in uniform/storage/private/workgroup variables, through arrays, nested arrays, "
         "nested structs, only as vertex input, vertex input and storage, fragment input, entry result, function-local, unused); non-trivial = the module has at least one struct type; "
         "distinct = distinct WGSL text",
    trusted_base=COMMON_TRUSTED + ["TypeArenaOk (types refer to earlier types; struct names distinct) is a hypothesis about naga, evaluated (typeArenaOkB) on every dumped module"],
    assumptions=["the operator precedence `!A && B || C` of the struct filter is mirrored literally in the model (structWanted) and pinned by structWanted_iff"],
)

PROPS["C09"] = dict(
    lean_modules=["WgslVerif.Props.C09"],
    theorems=["WgslVerif.C09", "WgslVerif.C09_rustStruct", "WgslVerif.C09_noninterference", "WgslVerif.C09_panics", "WgslVerif.deriveListB_table"],
    streams=lambda tier, seed: (
        [("fixtures",), ("gen", "structs", seed, 60), ("gen", "vertex", seed, 30), ("gen", "general", seed, 30)] if tier == "quick" else
        [("fixtures",), ("gen", "structs", seed, 1500), ("gen", "vertex", seed, 500), ("gen", "general", seed, 500)]),
    # all 2^4 derive switches x 3 representations x validation off/on
    opts=q_opts(ALL_OPTS[:48], ALL_OPTS),
    rule="cases: fixtures + generator profiles structs/vertex/general, each under ALL 2^4 derive-switch combinations x 3 representations (x validation on/off in the thorough tier); "
         "non-trivial = at least one struct emitted or a documented panic reached; distinct = distinct WGSL text",
    trusted_base=COMMON_TRUSTED,
    assumptions=["host-shareable = membership in the closure of module-scope variable types (C08: globalVariableTypes_mem)"],
)

PROPS["C04"] = dict(
    lean_modules=["WgslVerif.Props.C04"],
    theorems=["WgslVerif.C04", "WgslVerif.groupFacts_spec", "WgslVerif.layoutFields_spec", "WgslVerif.bindEntries_spec",
              "WgslVerif.layoutEntries_binding", "WgslVerif.C11_ok_content", "WgslVerif.C11_exec"],
    streams=lambda tier, seed: (
        [("fixtures",), ("gen", "bindings", seed, 300), ("gen", "general", seed, 300), ("gen", "textures", seed, 150), ("c11rand", seed, 200)] if tier == "quick" else
        [("fixtures",), ("gen", "bindings", seed, 6000), ("gen", "general", seed, 6000), ("gen", "textures", seed, 3000), ("c11rand", seed, 4000), ("gen", "scale", seed, 300)]),
    opts=q_opts([0], [0, 48]),
    rule="cases: fixtures + generator profiles bindings/general/textures + random binding multisets (1..8 groups, sparse / unordered / u32-extreme binding indices, declaration order "
         "unrelated to index order, all resource kinds); non-trivial = at least one bound variable and generation succeeded; distinct = distinct WGSL text",
    trusted_base=COMMON_TRUSTED,
    assumptions=["the three SetBindGroup impls are read as (target type, forwarded argument list); the trait text is compared literally"],
)

PROPS["C13"] = dict(
    lean_modules=["WgslVerif.Props.C13"],
    theorems=["WgslVerif.C13", "WgslVerif.C13_stages_used", "WgslVerif.C13_stages_unused", "WgslVerif.C03_present", "WgslVerif.C03_entryStages"],
    streams=lambda tier, seed: (
        [("fixtures",), ("gen", "general", seed, 600), ("gen", "entries", seed, 200), ("gen", "callgraph", seed, 200)] if tier == "quick" else
        [("fixtures",), ("gen", "general", seed, 15000), ("gen", "entries", seed, 4000), ("gen", "callgraph", seed, 4000)]),
    opts=q_opts([0], [0, 48]),
    rule="cases: fixtures + generator profiles general/entries/callgraph (push constants of scalar, vector, matrix, padded struct, array type; used directly, through helper chains, "
         "in several stages, or not at all); every case is checked, the non-trivial ones declare a push constant; distinct = distinct WGSL text",
    trusted_base=COMMON_TRUSTED + ["Ty.size is naga's TypeInner::size (WGSL byte size); validated against Ext.WgslLayout by the C05 check"],
    assumptions=["modules with more than one push-constant variable: the first one is described (naga allows one per entry point)"],
)

PROPS["C14"] = dict(
    lean_modules=["WgslVerif.Props.C14"],
    theorems=["WgslVerif.C14", "WgslVerif.fragmentTargetCount_eq", "WgslVerif.C14_legacy_counterexample", "WgslVerif.vertexEntryStructs_length", "WgslVerif.vertexInputOf_isSome"],
    streams=lambda tier, seed: (
        [("fixtures",), ("gen", "entries", seed, 500), ("gen", "general", seed, 300), ("gen", "vertex", seed, 200)] if tier == "quick" else
        [("fixtures",), ("gen", "entries", seed, 12000), ("gen", "general", seed, 6000), ("gen", "vertex", seed, 4000)]),
    opts=q_opts([0], [0, 48]),
    rule="cases: fixtures + generator profiles entries/general/vertex (0..3 entry points per stage, arbitrary names incl. non-ASCII, workgroup sizes from literals and constants, "
         "fragment results: none / bare location / builtin / struct with dense or sparse locations and builtins); non-trivial = at least one entry point; distinct = distinct WGSL text",
    trusted_base=COMMON_TRUSTED + ["EntryPoint.upper = str::to_uppercase(name) is computed by the harness with the same std the generator links (oracle)"],
    assumptions=["vertex_state / fragment_state / create_shader_module are fixed templates compared as normalised token text"],
)

PROPS["C15"] = dict(
    lean_modules=["WgslVerif.Props.C15"],
    theorems=["WgslVerif.C15", "WgslVerif.C15_legacy_counterexample", "WgslVerif.C15_skip", "WgslVerif.constTypeAndValue_spec"],
    streams=lambda tier, seed: (
        [("fixtures",), ("gen", "consts", seed, 600), ("gen", "general", seed, 300)] if tier == "quick" else
        [("fixtures",), ("gen", "consts", seed, 15000), ("gen", "general", seed, 6000)]),
    opts=q_opts([0], [0, 48]),
    rule="cases: fixtures + generator profiles consts/general (explicit and inferred types, constant expressions, references to other constants, negative values, extremes, subnormals, "
         "-0.0, f64, bool, non-scalar constants); non-trivial = at least one module constant; distinct = distinct WGSL text",
    trusted_base=COMMON_TRUSTED + ["float literal text is produced by Rust's Display and read back by rustc: the extractor re-parses each literal with Rust's str::parse and compares bit patterns"],
    assumptions=["partial: decimal float text is outside the model"],
)

PROPS["C12"] = dict(
    lean_modules=["WgslVerif.Props.C12"],
    theorems=["WgslVerif.C12", "WgslVerif.C12_required_resolves", "WgslVerif.overrideEntry_spec", "WgslVerif.overrideFieldType_spec", "WgslVerif.mapGet_unique"],
    streams=lambda tier, seed: (
        [("fixtures",), ("gen", "consts", seed, 600), ("gen", "general", seed, 300), ("gen", "entries", seed, 100)] if tier == "quick" else
        [("fixtures",), ("gen", "consts", seed, 15000), ("gen", "general", seed, 6000), ("gen", "entries", seed, 2000)]),
    opts=q_opts([0], [0, 48]),
    rule="cases: fixtures + generator profiles consts/general/entries (overrides of bool/i32/u32/f32, with and without default, with and without @id, defaults depending on other overrides); "
         "non-trivial = at least one override; distinct = distinct WGSL text",
    trusted_base=COMMON_TRUSTED + ["nagaKey transcribes naga 24 back/pipeline_constants.rs (id.to_string() or name)",
                                   "numeric conversion `as f64` and naga's conversion back are outside the model (theorem is parametric in the value type)"],
    assumptions=["OverridesScalar (named scalar overrides) is checked on every dumped module"],
)
