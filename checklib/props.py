"""Per-property registry used by /verif/check."""

COMMON_TRUSTED = [
    "Lean 4.33.0 kernel; axioms per theorem as audited (allow-list propext, Classical.choice, Quot.sound)",
    "harness/src/irdump.rs (naga::Module -> IR) and harness/src/facts.rs (real Rust text -> facts): a wrong reader can hide a difference",
    "correspondence is differential testing: it only sees the inputs generated in this run",
    "naga 24.0.0 front end / validator (produce the modules the theorems quantify over)",
]


def q_opts(quick, thorough):
    return lambda tier: quick if tier == "quick" else thorough


PROPS = {}

PROPS["C11"] = dict(
    lean_modules=["WgslVerif.Props.C11"],
    theorems=["WgslVerif.C11_dup", "WgslVerif.C11_gap", "WgslVerif.C11_ok", "WgslVerif.C11_ok_content",
              "WgslVerif.C11_total", "WgslVerif.C11_exec", "WgslVerif.firstClash_none", "WgslVerif.firstClash_some",
              "WgslVerif.denseB_iff"],
    streams=lambda tier, seed: (
        [("fixtures",), ("provoke",), ("c11", 3, 2, 3), ("c11long",), ("c11rand", seed, 400), ("gen", "bindings", seed, 200)] if tier == "quick" else
        [("fixtures",), ("provoke",), ("c11", 3, 3, 4), ("c11", 4, 4, 3), ("c11long",), ("c11rand", seed, 5000), ("gen", "bindings", seed, 3000)]),
    # validation off / on (option index bit layout: see harness/src/run.rs Opts::from_index)
    opts=q_opts([0, 48], [0, 48, 21, 90]),
    rule="cases: repo fixtures + every sequence (ordered, with repetition) of (@group,@binding) pairs over a small grid "
         "(bounded-exhaustive) + random multisets incl. u32 extremes + structured generator profile 'bindings'; "
         "non-trivial = module parsed and the run was comparable (not pre-empted by the validator / a later panic); "
         "distinct = distinct WGSL source text",
    trusted_base=COMMON_TRUSTED + ["u32 group/binding indices modelled as Nat; `as usize` exact on 64-bit targets"],
    assumptions=["bound variables are processed in arena (= declaration) order (checked by correspondence)",
                 "with validation on, a validator error may pre-empt the dedicated errors (allowed by the property; counted as skipped)"],
)

# ---------------------------------------------------------------------------------------------
import os, subprocess, json, re, time, shutil, concurrent.futures

VERIF = os.path.dirname(os.path.dirname(os.path.abspath(__file__)))
BIN = os.path.join(os.environ.get("VERIF_TARGET_DIR") or os.path.join(VERIF, "target"), "release")
DRIVER = os.path.join(VERIF, "lean", ".lake", "build", "bin", "driver")


def run_one_case_timed(case_line, opt, prop, timeout_s):
    """one case in its own dump|driver pipeline under a hard timeout; returns (status, V-line fields or None, seconds)"""
    t0 = time.time()
    try:
        d = subprocess.run([os.path.join(BIN, "dump"), "--opts", str(opt)], input=case_line + "\n", stdout=subprocess.PIPE,
                           stderr=subprocess.PIPE, text=True, timeout=timeout_s)
    except subprocess.TimeoutExpired:
        return "timeout", None, time.time() - t0
    dt = time.time() - t0
    if d.returncode != 0:
        return "dump-failed", d.stderr[-500:], dt
    v = subprocess.run([DRIVER, prop], input=d.stdout, stdout=subprocess.PIPE, stderr=subprocess.PIPE, text=True)
    for l in v.stdout.split("\n"):
        if l.startswith("V|" + prop + "|"):
            return "ok", l.split("|", 6), dt
    return "no-verdict", v.stdout[-500:], dt


def family_cases(specs):
    lines = []
    for fam, n in specs:
        r = subprocess.run([os.path.join(BIN, "cases"), "family", fam, str(n)], stdout=subprocess.PIPE, text=True)
        lines.append((fam, n, r.stdout.strip()))
    return lines


def extra_c20(pid, tier, seed, workdir, known, write_replay):
    depths = [4, 8, 12, 16, 20, 24, 32, 48, 64] if tier == "quick" else [2, 4, 6, 8, 10, 12, 14, 16, 18, 20, 22, 24, 28, 32, 40, 48, 56, 64]
    specs = [(f, n) for f in ("chain", "chainv", "diamond", "diamondpure", "diamondvoid", "diamondptr", "nested") for n in depths] + [("fanout", n) for n in (8, 64, 200)] + \
            [("chain", 200), ("chainv", 200), ("nestedifs", 14), ("nestedifs", 40)] + \
            [("nestedarr", n) for n in (4, 8, 12, 16, 20, 24)] + [("nesteddeep", n) for n in (16, 17, 32, 64)] + \
            [("elseif", n) for n in (8, 16, 24, 32, 48, 64)] + [("overrideladder", n) for n in (8, 16, 24, 32, 48)] + \
            [("switchnest", n) for n in (2, 4, 6, 8, 10, 12, 14)]
    cases = family_cases(specs)
    timeout_s = 20
    results = []
    # option sets: encase (runtime arrays allowed), and for the struct family also the bytemuck switches
    jobs = [(fam, n, line, 4) for fam, n, line in cases] + [(fam + "+bytemuck", n, line, o) for fam, n, line in cases if fam == "nested" for o in (2, 3)]
    # generation with the REAL formatter on and outputs far above the pipe buffer has to finish as well (option set 96 + 4)
    bigf = os.path.join(workdir, "bigfmt.cases")
    write_stream_file([("big", 300, 2)], bigf)
    for bl in open(bigf):
        if bl.strip():
            jobs.append(("big+rustfmt", len(bl), bl.rstrip("\n"), 100))
    with concurrent.futures.ThreadPoolExecutor(max_workers=8) as ex:
        futs = {ex.submit(run_one_case_timed, line, opt, pid, timeout_s): (fam, n, line) for fam, n, line, opt in jobs}
        for fu in concurrent.futures.as_completed(futs):
            fam, n, line = futs[fu]
            results.append((fam, n, line) + fu.result())
    results.sort(key=lambda r: (r[0], r[1]))
    viol, kn, notes, table = [], [], [], []
    seen = set()
    for fam, n, line, status, v, dt in results:
        table.append({"family": fam, "depth": n, "status": status, "seconds": round(dt, 3),
                      "verdict": (v[4] + " / " + v[5]) if status == "ok" else None})
        detail = None
        if status == "timeout":
            detail = f"fail:wall-clock#timeout-{fam}: generation of family {fam} depth {n} did not finish in {timeout_s} s"
        elif status != "ok":
            detail = f"fail:harness#{status}: {v}"
        elif v[5].startswith("fail:") or v[4].startswith("fail:"):
            detail = v[5] if v[5].startswith("fail:") else v[4]
        if detail:
            m = re.match(r"fail:([A-Za-z0-9_.\-]+#[A-Za-z0-9_.\-]+)", detail)
            sig = m.group(1) if m else "unclassified"
            kf = next((k for k in known if k["signature"] == sig), None)
            if kf:
                kn.append(f"KNOWN-FINDING: property={pid} {sig}: {kf.get('what', '')}")
                continue
            if sig in seen:
                continue
            seen.add(sig)
            kind = "spec-fails-on-implementation" if (status == "timeout" or (status == "ok" and v[5].startswith("fail:"))) else "model-implementation-disagreement"
            p = write_replay(pid, kind, line, 0, [4], detail, {"family": fam, "depth": n})
            viol.append((p, "" if kind == "spec-fails-on-implementation" else " no-failing-input-found"))
    return {"families": table, "family_timeout_s": timeout_s}, viol, kn, notes


PROPS["C03"] = dict(
    lean_modules=["WgslVerif.Props.C03"],
    theorems=["WgslVerif.C03_visibility", "WgslVerif.C03_present", "WgslVerif.C03_unreached_none", "WgslVerif.C03_entryStages",
              "WgslVerif.callsEarlierB_sound", "WgslVerif.reach_iff_reachS", "WgslVerif.entryUses_iff",
              "WgslVerif.mem_callsOf_evFn", "WgslVerif.mem_usesOf_evFn"],
    streams=lambda tier, seed: (
        [("fixtures",), ("provoke",), ("names",), ("gen", "callgraph", seed, 500), ("gen", "general", seed, 300), ("gen", "textures", seed, 100),
         ("gen", "entries", seed, 100), ("family", "diamond", 5), ("family", "fanout", 12), ("family", "chainv", 9), ("family", "chain", 200), ("family", "chainv", 160), ("family", "nestedifs", 14),
         ("family", "diamondptr", 6), ("family", "elseif", 70), ("pc", 3)] if tier == "quick" else
        [("fixtures",), ("provoke",), ("names",), ("pc", 4), ("gen", "callgraph", seed, 12000), ("gen", "general", seed, 8000), ("gen", "textures", seed, 2000),
         ("gen", "entries", seed, 2000), ("gen", "scale", seed, 400), ("family", "diamond", 7), ("family", "fanout", 40), ("family", "chain", 200), ("family", "chainv", 160),
         ("family", "nestedifs", 14), ("family", "diamondptr", 8), ("family", "elseif", 70), ("family", "elseif", 100)]),
    opts=q_opts([0, 48], [0, 48, 21, 90]),
    rule="cases: fixtures + structured generator profiles callgraph/general/textures/entries (helper DAGs: chains, diamonds, shared helpers, "
         "fan-out; accesses and calls in if/else, switch, loop, continuing, break-if, nested blocks, value-returning calls in expressions; "
         "0..3 entry points per stage); non-trivial = the output has at least one binding or a push constant; distinct = distinct WGSL text",
    trusted_base=COMMON_TRUSTED + ["CallsEarlier (callee handle < caller handle) is a hypothesis about naga's front end, evaluated (callsEarlierB) on every dumped module",
                                   "'statically accesses' is read at naga-IR level: an Expression::GlobalVariable in the function's arena"],
    assumptions=["stage expressions in the output are evaluated by the extractor (all(), VERTEX_FRAGMENT, A.union(B), NONE)"],
)

PROPS["C20"] = dict(
    lean_modules=["WgslVerif.Props.C20", "WgslVerif.Lemmas.TypeClosure"],
    theorems=["WgslVerif.C20_stage_fn_visits", "WgslVerif.C20_stage_stmt_visits", "WgslVerif.typeVisits_bound", "WgslVerif.Legacy.chain_blowup",
              "WgslVerif.nodup_lt_length"],
    streams=lambda tier, seed: (
        [("fixtures",), ("provoke",), ("gen", "callgraph", seed, 300), ("gen", "structs", seed, 200), ("gen", "scale", seed, 40)] if tier == "quick" else
        [("fixtures",), ("provoke",), ("gen", "callgraph", seed, 5000), ("gen", "structs", seed, 3000), ("gen", "scale", seed, 600), ("gen", "general", seed, 3000)]),
    opts=q_opts([4, 52], [4, 52, 21]),
    extra=extra_c20,
    rule="cases: fixtures + generator profiles callgraph/structs/scale compared on hook visit counters (update_stages calls, statements walked, "
         "add_types_recursive calls) + deterministic families chain / chain with value-returning calls / diamond / fan-out / nested structs at "
         "depths up to 64, each run in its own process under a hard timeout; non-trivial = generation reached the traversals; distinct = distinct WGSL text",
    trusted_base=COMMON_TRUSTED + ["each counted step is one BTreeMap/HashSet operation (O(log n)); wall-clock is measured, not proved",
                                   "hook counters (cfg wgsl_to_wgpu_verif) count exactly the calls named in the model"],
    assumptions=["wall-clock budget 5 s per call and 20 s per family case are >= 20x the observed values on the repaired tree; they never decide alone: "
                 "the count bound is the proved criterion"],
)

ALL_OPTS = list(range(96))

PROPS["C08"] = dict(
    lean_modules=["WgslVerif.Props.C08"],
    theorems=["WgslVerif.C08", "WgslVerif.C08_mem", "WgslVerif.C08_nodup", "WgslVerif.structWanted_iff",
              "WgslVerif.globalVariableTypes_mem", "WgslVerif.typeArenaOkB_sound"],
    streams=lambda tier, seed: (
        [("fixtures",), ("types",), ("names",), ("variants",), ("entries",), ("provoke",), ("family", "nesteddeep", 17), ("family", "nesteddeep", 40), ("family", "nestedarr", 12),
         ("gen", "structs", seed, 500), ("gen", "general", seed, 300), ("gen", "vertex", seed, 150), ("gen", "entries", seed, 100)] if tier == "quick" else
        [("fixtures",), ("types",), ("names",), ("variants",), ("entries",), ("provoke",), ("family", "nesteddeep", 17), ("family", "nesteddeep", 64), ("family", "nestedarr", 12), ("gen", "structs", seed, 12000), ("gen", "general", seed, 6000), ("gen", "vertex", seed, 3000), ("gen", "entries", seed, 2000), ("gen", "scale", seed, 300)]),
    opts=q_opts([4, 37, 6, 52], [4, 37, 70, 6, 3, 52, 95]),
    rule="cases: fixtures + generator profiles structs/general/vertex/entries (structs only in uniform/storage/private/workgroup variables, through arrays, nested arrays, "
         "nested structs, only as vertex input, vertex input and storage, fragment input, entry result, function-local, unused); non-trivial = the module has at least one struct type; "
         "distinct = distinct WGSL text",
    trusted_base=COMMON_TRUSTED + ["TypeArenaOk (types refer to earlier types; struct names distinct) is a hypothesis about naga, evaluated (typeArenaOkB) on every dumped module"],
    assumptions=["the operator precedence `!A && B || C` of the struct filter is mirrored literally in the model (structWanted) and pinned by structWanted_iff"],
)

PROPS["C09"] = dict(
    lean_modules=["WgslVerif.Props.C09"],
    theorems=["WgslVerif.C09", "WgslVerif.C09_rustStruct", "WgslVerif.C09_noninterference", "WgslVerif.C09_panics", "WgslVerif.deriveListB_table"],
    streams=lambda tier, seed: (
        [("fixtures",), ("provoke",), ("types", 10, seed), ("gen", "structs", seed, 60), ("gen", "vertex", seed, 30), ("gen", "general", seed, 30)] if tier == "quick" else
        [("fixtures",), ("provoke",), ("types",), ("gen", "structs", seed, 1500), ("gen", "vertex", seed, 500), ("gen", "general", seed, 500)]),
    # all 2^4 derive switches x 3 representations x validation off/on
    opts=q_opts(ALL_OPTS[:48] + [48, 63, 79, 95], ALL_OPTS),
    rule="cases: fixtures + generator profiles structs/vertex/general, each under ALL 2^4 derive-switch combinations x 3 representations (x validation on/off in the thorough tier); "
         "non-trivial = at least one struct emitted or a documented panic reached; distinct = distinct WGSL text",
    trusted_base=COMMON_TRUSTED,
    assumptions=["host-shareable = membership in the closure of module-scope variable types (C08: globalVariableTypes_mem)"],
)

PROPS["C04"] = dict(
    lean_modules=["WgslVerif.Props.C04"],
    theorems=["WgslVerif.C04", "WgslVerif.groupFacts_spec", "WgslVerif.layoutFields_spec", "WgslVerif.bindEntries_spec",
              "WgslVerif.layoutEntries_binding", "WgslVerif.C11_ok_content", "WgslVerif.C11_exec"],
    streams=lambda tier, seed: (
        [("fixtures",), ("provoke",), ("names",), ("c11long",), ("gen", "bindings", seed, 300), ("gen", "general", seed, 300), ("gen", "textures", seed, 150), ("c11rand", seed, 200)] if tier == "quick" else
        [("fixtures",), ("provoke",), ("names",), ("c11long",), ("gen", "bindings", seed, 6000), ("gen", "general", seed, 6000), ("gen", "textures", seed, 3000), ("c11rand", seed, 4000), ("gen", "scale", seed, 300)]),
    opts=q_opts([0, 48], [0, 48, 21, 90]),
    rule="cases: fixtures + generator profiles bindings/general/textures + random binding multisets (1..8 groups, sparse / unordered / u32-extreme binding indices, declaration order "
         "unrelated to index order, all resource kinds); non-trivial = at least one bound variable and generation succeeded; distinct = distinct WGSL text",
    trusted_base=COMMON_TRUSTED,
    assumptions=["the three SetBindGroup impls are read as (target type, forwarded argument list); the trait text is compared literally"],
)

PROPS["C13"] = dict(
    lean_modules=["WgslVerif.Props.C13"],
    theorems=["WgslVerif.C13", "WgslVerif.C13_stages_used", "WgslVerif.C13_stages_unused", "WgslVerif.C03_present", "WgslVerif.C03_entryStages"],
    streams=lambda tier, seed: (
        [("fixtures",), ("provoke",), ("names",), ("pc", 4), ("gen", "general", seed, 400), ("gen", "entries", seed, 150), ("gen", "callgraph", seed, 150)] if tier == "quick" else
        [("fixtures",), ("provoke",), ("names",), ("pc", 5), ("gen", "general", seed, 15000), ("gen", "entries", seed, 4000), ("gen", "callgraph", seed, 4000)]),
    opts=q_opts([0, 48], [0, 48, 21, 90]),
    rule="cases: fixtures + EVERY sequence of entry-point stages up to length 4 (5 thorough) x {unused, used by first / last / middle entry, through helper chains, inside continuing blocks} x 7 push-constant types "
         "+ generator profiles general/entries/callgraph (push constants of scalar, vector, matrix, padded struct, array type; used directly, through helper chains, "
         "in several stages, or not at all); every case is checked, the non-trivial ones declare a push constant; distinct = distinct WGSL text",
    trusted_base=COMMON_TRUSTED + ["Ty.size is naga's TypeInner::size (WGSL byte size); validated against Ext.WgslLayout by the C05 check"],
    assumptions=["modules with more than one push-constant variable: the first one is described (naga allows one per entry point)"],
)

PROPS["C14"] = dict(
    lean_modules=["WgslVerif.Props.C14"],
    theorems=["WgslVerif.C14", "WgslVerif.fragmentTargetCount_eq", "WgslVerif.C14_legacy_counterexample", "WgslVerif.vertexEntryStructs_length", "WgslVerif.vertexInputOf_isSome"],
    streams=lambda tier, seed: (
        [("fixtures",), ("names",), ("variants",), ("entries",), ("provoke",), ("gen", "entries", seed, 500), ("gen", "general", seed, 300), ("gen", "vertex", seed, 200)] if tier == "quick" else
        [("fixtures",), ("names",), ("variants",), ("entries",), ("provoke",), ("gen", "entries", seed, 12000), ("gen", "general", seed, 6000), ("gen", "vertex", seed, 4000)]),
    opts=q_opts([0, 48], [0, 48, 21, 90]),
    rule="cases: fixtures + generator profiles entries/general/vertex (0..3 entry points per stage, arbitrary names incl. non-ASCII, workgroup sizes from literals and constants, "
         "fragment results: none / bare location / builtin / struct with dense or sparse locations and builtins); non-trivial = at least one entry point; distinct = distinct WGSL text",
    trusted_base=COMMON_TRUSTED + ["EntryPoint.upper = str::to_uppercase(name) is computed by the harness with the same std the generator links (oracle)"],
    assumptions=["vertex_state / fragment_state / create_shader_module are fixed templates compared as normalised token text"],
)

PROPS["C15"] = dict(
    lean_modules=["WgslVerif.Props.C15"],
    theorems=["WgslVerif.C15", "WgslVerif.C15_legacy_counterexample", "WgslVerif.C15_skip", "WgslVerif.constTypeAndValue_spec"],
    streams=lambda tier, seed: (
        [("fixtures",), ("provoke",), ("names",), ("gen", "consts", seed, 600), ("gen", "general", seed, 300)] if tier == "quick" else
        [("fixtures",), ("provoke",), ("names",), ("gen", "consts", seed, 15000), ("gen", "general", seed, 6000)]),
    opts=q_opts([0, 48], [0, 48, 21, 90]),
    rule="cases: fixtures + generator profiles consts/general (explicit and inferred types, constant expressions, references to other constants, negative values, extremes, subnormals, "
         "-0.0, f64, bool, non-scalar constants); non-trivial = at least one module constant; distinct = distinct WGSL text",
    trusted_base=COMMON_TRUSTED + ["float literal text is produced by Rust's Display and read back by rustc: the extractor re-parses each literal with Rust's str::parse and compares bit patterns"],
    assumptions=["partial: decimal float text is outside the model"],
)

PROPS["C12"] = dict(
    lean_modules=["WgslVerif.Props.C12"],
    theorems=["WgslVerif.C12", "WgslVerif.C12_required_resolves", "WgslVerif.C12_optional_resolves", "WgslVerif.overrideEntry_spec", "WgslVerif.overrideFieldType_spec", "WgslVerif.mapGet_unique"],
    streams=lambda tier, seed: (
        [("fixtures",), ("provoke",), ("names",), ("variants",), ("gen", "consts", seed, 600), ("gen", "general", seed, 300), ("gen", "entries", seed, 100)] if tier == "quick" else
        [("fixtures",), ("provoke",), ("names",), ("variants",), ("gen", "consts", seed, 15000), ("gen", "general", seed, 6000), ("gen", "entries", seed, 2000)]),
    opts=q_opts([0, 48], [0, 48, 21, 90]),
    rule="cases: fixtures + generator profiles consts/general/entries (overrides of bool/i32/u32/f32, with and without default, with and without @id, defaults depending on other overrides); "
         "non-trivial = at least one override; distinct = distinct WGSL text",
    trusted_base=COMMON_TRUSTED + ["nagaKey transcribes naga 24 back/pipeline_constants.rs (id.to_string() or name)",
                                   "numeric conversion `as f64` and naga's conversion back are outside the model (theorem is parametric in the value type)"],
    assumptions=["OverridesScalar (named scalar overrides) is checked on every dumped module"],
)


def parse_sexp(s):
    """tiny S-expression reader for harness output lines"""
    out, stack, i, n = [], [], 0, len(s)
    cur = out
    while i < n:
        c = s[i]
        if c == '(':
            new = []; cur.append(new); stack.append(cur); cur = new; i += 1
        elif c == ')':
            cur = stack.pop(); i += 1
        elif c == '"':
            j = i + 1
            while s[j] != '"':
                j += 1
            cur.append(('str', re.sub(r"\\u\{([0-9a-fA-F]+)\}", lambda m: chr(int(m.group(1), 16)), s[i + 1:j]))); i = j + 1
        elif c in ' \t\r\n':
            i += 1
        else:
            j = i
            while j < n and s[j] not in ' \t\r\n()"':
                j += 1
            cur.append(s[i:j]); i = j
    return out


def sx(x):
    return x[1] if isinstance(x, tuple) else x


def run_tool_on_streams(tool_args, streams, workdir, name):
    path = os.path.join(workdir, name + ".cases")
    with open(path, "w") as f:
        for st in streams:
            r = subprocess.run([os.path.join(BIN, "cases")] + [str(x) for x in st], stdout=subprocess.PIPE, text=True)
            f.write(r.stdout)
    lines = [l for l in open(path).read().split("\n") if l.strip()]
    k = 8
    chunks = [lines[i::k] for i in range(k)]

    def run(chunk):
        return subprocess.run(tool_args, input="\n".join(chunk) + "\n", stdout=subprocess.PIPE, stderr=subprocess.PIPE, text=True).stdout
    with concurrent.futures.ThreadPoolExecutor(max_workers=k) as ex:
        outs = list(ex.map(run, chunks))
    case_by_id = {}
    for l in lines:
        m = re.match(r'\(src "([^"]*)"', l)
        if m:
            case_by_id[re.sub(r"\\u\{([0-9a-fA-F]+)\}", lambda mm: chr(int(mm.group(1), 16)), m.group(1))] = l
    return "".join(outs), case_by_id


def classify_and_report(pid, items, known, write_replay, case_by_id):
    """items: (signature, detail, case_id, is_spec_failure). Dedup per signature; known findings -> KNOWN-FINDING"""
    viol, kn, seen, kseen = [], [], set(), set()
    for sig, detail, cid, is_spec in items:
        kf = next((k for k in known if k["signature"] == sig), None)
        if kf:
            if sig not in kseen:
                kseen.add(sig)
                kn.append(f"KNOWN-FINDING: property={pid} {sig}: {kf.get('what', '')} (e.g. case {cid})")
            continue
        if sig in seen:
            continue
        seen.add(sig)
        p = write_replay(pid, "spec-fails-on-implementation" if is_spec else "spec-validation", case_by_id.get(cid), 0, [0], "fail:" + sig + ": " + detail)
        viol.append((p, "" if is_spec else " no-failing-input-found"))
    return viol, kn


def extra_c02(pid, tier, seed, workdir, known, write_replay):
    """the REAL wgpu-core 24.0.5 shader-interface validation on the REAL generated layouts (harness oracle_wgpu)"""
    n = 1 if tier == "quick" else 12
    streams = [("fixtures",), ("names",), ("pc", 2), ("family", "elseif", 70), ("gen", "textures", seed, 250 * n), ("gen", "general", seed, 250 * n), ("gen", "callgraph", seed, 100 * n), ("gen", "bindings", seed, 100 * n)]
    out, case_by_id = run_tool_on_streams([os.path.join(BIN, "oracle_wgpu")], streams, workdir, "oracle")
    # the same with validation on (WriteOptions.validate = Some): generation may take another path there
    out48, _ = run_tool_on_streams([os.path.join(BIN, "oracle_wgpu"), "--opts", "48"],
                                   [("fixtures",), ("names",), ("gen", "general", seed, 150 * n), ("gen", "callgraph", seed, 100 * n), ("gen", "textures", seed, 80 * n)], workdir, "oracle48")
    out = out + "\n" + out48
    items, counts = [], {}
    ncase = 0
    oracle_entries = {}
    for line in out.split("\n"):
        if not line.startswith("(oracle"):
            continue
        ncase += 1
        t = parse_sexp(line)[0]
        cid, status = sx(t[1]), t[2]
        if status == "ok":
            oracle_entries[cid] = {"bind": set(), "bgl": set()}
        status = status if isinstance(status, str) else "panic"
        counts["status:" + status] = counts.get("status:" + status, 0) + 1
        if status == "panic":
            items.append(("oracle#panic", "oracle harness panicked", cid, False))
        for sec in t[3:]:
            if not isinstance(sec, list) or not sec:
                continue
            if sec[0] == "provided":
                for ep in sec[1:]:
                    for v in ep[3:]:
                        if v == "ok" or v == "ignored-fragment-input":
                            counts["provided:ok"] = counts.get("provided:ok", 0) + 1
                            continue
                        kind = sx(v[1])
                        if kind == "Input" or kind == "ShaderLocationClash":
                            continue          # vertex inputs are property C07's
                        inner = sx(v[4]) if kind == "Binding" else (sx(v[4]) if kind == "Filtering" else "")
                        if kind == "Binding" and cid in oracle_entries:
                            oracle_entries[cid]["bind"].add((str(v[2]), str(v[3]), inner))
                        sig = f"oracle#{kind}-{inner}".rstrip("-")
                        counts[sig] = counts.get(sig, 0) + 1
                        items.append((sig, f"wgpu-core check_stage rejects entry point {sx(ep[1])} ({ep[2]}): {' '.join(str(sx(a)) for a in v[1:])[:300]}", cid, True))
            elif sec[0] == "derived":
                for d in sec[1:]:
                    kind = sx(d[3])
                    counts["derived:" + kind] = counts.get("derived:" + kind, 0) + 1
                    if kind in ("unused", "extra-visibility"):
                        continue
                    sig = f"oracle#derived-{kind}"
                    items.append((sig, f"group {d[1]} binding {d[2]}: {sx(d[4])[:200]}", cid, True))
            elif sec[0] == "bgl":
                for e in sec[1:]:
                    if e[3] == "ok":
                        counts["bgl:ok"] = counts.get("bgl:ok", 0) + 1
                        continue
                    var = sx(e[3][1])
                    if cid in oracle_entries:
                        oracle_entries[cid]["bgl"].add((str(e[1]), str(e[2]), re.sub(r"[^A-Za-z0-9]", "", var.split("(")[0])))
                    sig = "oracle#bgl-" + re.sub(r"[^A-Za-z0-9]", "", var.split("(")[0])
                    counts[sig] = counts.get(sig, 0) + 1
                    items.append((sig, f"create_bind_group_layout rules reject group {e[1]} binding {e[2]}: {var}", cid, True))
    # spec validation: the Lean transcription Ext.WgpuBinding against the real library, entry by entry
    lean = {}
    d = subprocess.run([os.path.join(BIN, "dump"), "--opts", "0"], stdin=open(os.path.join(workdir, "oracle.cases")), stdout=subprocess.PIPE, text=True)
    v = subprocess.run([DRIVER, "C02"], input=d.stdout, stdout=subprocess.PIPE, text=True)
    for line in v.stdout.split("\n"):
        if line.startswith("V|C02|"):
            f = line.split("|", 6)
            lean[f[2]] = {tuple(t.split(":", 1)[1].split(".")) for t in f[6].split(",") if t.startswith("lean:")}
    agree = disagree = 0
    for cid, o in oracle_entries.items():
        l = lean.get(cid)
        if l is None:
            continue
        l_bind = {(g, b, e) for g, b, e, _ in l if e != "-"}
        l_bgl = {(g, b, e) for g, b, _, e in l if e != "-"}
        ok = o["bind"] <= l_bind and o["bgl"] == l_bgl
        if ok:
            agree += 1
        else:
            disagree += 1
            items.append(("oracle#transcription-disagrees", f"Ext.WgpuBinding says binding errors {sorted(l_bind)} bgl {sorted(l_bgl)}; wgpu-core says binding errors {sorted(o['bind'])} bgl {sorted(o['bgl'])}", cid, False))
    counts["transcription-agrees-cases"] = agree
    counts["transcription-disagrees-cases"] = disagree
    viol, kn = classify_and_report(pid, items, known, write_replay, case_by_id)
    return {"oracle_cases": ncase, "oracle_verdicts": counts,
            "oracle": "wgpu_core::validation::Interface::check_stage (Provided + Derived mode) and the per-entry rules of Device::create_bind_group_layout, on the real generated entries"}, viol, kn, []


PROPS["C02"] = dict(
    lean_modules=["WgslVerif.Props.C02"],
    theorems=["WgslVerif.C02_partial", "WgslVerif.C02_pipeline", "WgslVerif.C02_visible", "WgslVerif.C02_counterexample", "WgslVerif.bindingType_accepted", "WgslVerif.classArm_spec", "WgslVerif.viewDim_matches"],
    streams=lambda tier, seed: (
        [("fixtures",), ("provoke",), ("names",), ("pc", 2), ("family", "elseif", 70), ("gen", "textures", seed, 400), ("gen", "general", seed, 300), ("gen", "bindings", seed, 100)] if tier == "quick" else
        [("fixtures",), ("provoke",), ("names",), ("pc", 3), ("family", "elseif", 70), ("gen", "textures", seed, 8000), ("gen", "general", seed, 6000), ("gen", "bindings", seed, 2000), ("gen", "scale", seed, 200)]),
    opts=q_opts([0, 48], [0, 48, 21, 90]),
    extra=extra_c02,
    rule="cases: fixtures + generator profiles textures/general/bindings: uniform / storage(read, read_write) buffers of struct, array, runtime array, scalar, vector, matrix type; every sampled / "
         "depth / multisampled / storage texture type (all storage formats x read/write/read_write/atomic x 1d/2d/2d_array/3d), sampler and sampler_comparison; sparse binding indices; "
         "each case is also handed to the REAL wgpu-core check_stage; non-trivial = at least one resource binding; distinct = distinct WGSL text",
    trusted_base=COMMON_TRUSTED + ["Ext.WgpuBinding transcribes wgpu-core 24.0.5 check_binding_use / create_bind_group_layout entry rules; validated per case against the real check_stage (oracle_wgpu)",
                                   "resourceShapes (what naga's validator guarantees about resource variables) is evaluated on every validated module",
                                   "create_bind_group_layout cannot be executed without a device: its per-entry rules are a transcription, with all optional features assumed enabled; binding-index limits of a device are not modelled"],
    assumptions=["the README's assumption that samplers are filtering and float textures filterable is part of the property for layout creation; integer textures sampled through a sampler are a recorded finding"],
)

PROPS["C05"] = dict(
    lean_modules=["WgslVerif.Props.C05"],
    theorems=["WgslVerif.C05", "WgslVerif.C05_complete", "WgslVerif.C05_sound", "WgslVerif.find_struct_by_name", "WgslVerif.offsetAsserts_eq"],
    streams=lambda tier, seed: (
        [("fixtures",), ("provoke",), ("types",), ("names",), ("variants",), ("gen", "structs", seed, 400), ("gen", "general", seed, 200), ("gen", "vertex", seed, 100)] if tier == "quick" else
        [("fixtures",), ("provoke",), ("types",), ("names",), ("variants",), ("gen", "structs", seed, 10000), ("gen", "general", seed, 5000), ("gen", "vertex", seed, 2000), ("gen", "scale", seed, 300)]),
    opts=q_opts([2, 6, 18, 34, 1, 50], [2, 6, 18, 34, 1, 50, 15, 47, 95]),
    rule="cases: fixtures + generator profiles structs/general/vertex (scalars, vec2/3/4, all matrix shapes, fixed arrays incl. of vec3/matrices/structs, nested structs, atomics, "
         "vec3-then-scalar packing, @align/@size) x 3 representations with bytemuck host-shareable on (and off); non-trivial = at least one struct emitted; distinct = distinct WGSL text",
    trusted_base=COMMON_TRUSTED + ["Ext.WgslLayout transcribes WGSL 13.4 AlignOf/SizeOf; layoutOK compares it with naga's recorded offsets / spans / strides / Layouter numbers on every validated module",
                                   "whether rustc's layout passes the assertions is decided by rustc (batch harness, thorough tier)"],
    assumptions=["C05_sound is stated for an arbitrary layout assignment: it needs no model of rustc"],
)

PROPS["C06"] = dict(
    lean_modules=["WgslVerif.Props.C06", "WgslVerif.Props.C06Repr"],
    theorems=["WgslVerif.C06", "WgslVerif.C06_denote", "WgslVerif.C06_repr", "WgslVerif.C06_fields", "WgslVerif.C06'"],
    streams=lambda tier, seed: (
        [("fixtures",), ("provoke",), ("types",), ("names",), ("variants",), ("gen", "structs", seed, 400), ("gen", "general", seed, 200), ("gen", "vertex", seed, 100)] if tier == "quick" else
        [("fixtures",), ("provoke",), ("types",), ("names",), ("variants",), ("gen", "structs", seed, 10000), ("gen", "general", seed, 5000), ("gen", "vertex", seed, 2000), ("gen", "scale", seed, 300)]),
    opts=q_opts([4, 20, 36, 52, 18, 22, 17, 12], [4, 20, 36, 52, 68, 84, 18, 22, 2, 34, 17, 33, 12, 28]),
    rule="cases: fixtures + generator profiles structs/general/vertex under the three representations (encase on so that runtime arrays are emitted); all member types and nestings "
         "(arrays of arrays, arrays of structs, structs in structs, atomics, trailing runtime arrays, interleaved builtins); non-trivial = at least one struct emitted; distinct = distinct WGSL text",
    trusted_base=COMMON_TRUSTED + ["matrix denotation convention: matCxR<f32> = dims [R, C] in all representations (pinned by the repo's fixtures)"],
    assumptions=["matrices are float (naga rejects other element kinds); struct names distinct (TypeArenaOk)"],
)

PROPS["C16"] = dict(
    lean_modules=["WgslVerif.Props.C16"],
    theorems=["WgslVerif.C16", "WgslVerif.C16_literal_roundtrip", "WgslVerif.C16_include_only_source", "WgslVerif.RustLex.unesc_of_esc"],
    streams=lambda tier, seed: (
        [("fixtures",), ("provoke",), ("names",), ("gen", "unicode", seed, 400), ("gen", "general", seed, 150), ("genpath", "unicode", seed, 100), ("genpath", "general", seed, 100)] if tier == "quick" else
        [("fixtures",), ("provoke",), ("names",), ("gen", "unicode", seed, 10000), ("gen", "general", seed, 3000), ("genpath", "unicode", seed, 2000), ("genpath", "general", seed, 2000)]),
    opts=q_opts([0, 48], [0, 48, 21, 90]),
    rule="cases: fixtures + generator profile unicode (quotes, backslashes, braces, CR/LF, NUL and other control characters, non-ASCII and non-BMP text in comments and identifiers) + general, "
         "embedded and with include paths (spaces, backslashes, quotes, non-ASCII, empty); every real literal token is unescaped by RustLex.unescapeToken AND decoded by syn, both compared with the source; "
         "non-trivial = generation succeeded; distinct = distinct WGSL text",
    trusted_base=COMMON_TRUSTED + ["Ext.RustLex transcribes the Rust lexer's string-literal semantics; validated against syn::LitStr::value() on every emitted literal",
                                   "prettyplease / rustfmt keep literal tokens (checked per case: the literal is read from the formatted output)"],
    assumptions=["partial: formatter behaviour is observed, not proved"],
)


def write_stream_file(streams, path):
    with open(path, "w") as f:
        for st in streams:
            r = subprocess.run([os.path.join(BIN, "cases")] + [str(x) for x in st], stdout=subprocess.PIPE, text=True)
            f.write(r.stdout)
    return path


def run_stateful(pid, streams, workdir, wanted_substrings):
    """call sequences in ONE process (harness `stateful`); returns (items, count). A bad verdict is attributed to this property
    when its text contains one of wanted_substrings (the same sequence serves C16 / C17 / C18 / C19)."""
    cases = write_stream_file(streams, os.path.join(workdir, "stateful.cases"))
    r = subprocess.run([os.path.join(BIN, "stateful")], stdin=open(cases), stdout=subprocess.PIPE, stderr=subprocess.PIPE, text=True)
    items, n = [], 0
    for line in r.stdout.split("\n"):
        if not line.startswith("(stateful"):
            continue
        n += 1
        t = parse_sexp(line)[0]
        if t[2] == "ok":
            continue
        for b in t[2][1:]:
            msg = sx(b)
            if any(w in msg for w in wanted_substrings):
                sig = "stateful#" + re.sub(r"[^a-z0-9]+", "-", msg.lower())[:50].strip("-")
                items.append((sig, f"within one process: {msg}", sx(t[1]), True))
    if n == 0:
        items.append(("stateful#harness", "stateful harness produced nothing: " + r.stderr[-200:], "", False))
    return items, n


def run_faults(cases, small, large, faults=None, timeout=30, _retry=True):
    """harness `faults`: (case id, size, fault, outcome name, outcome detail, same, text hash) per trial"""
    args = [os.path.join(BIN, "faults"), "--cases", cases, "--small", str(small), "--large", str(large), "--timeout", str(timeout)]
    if faults:
        args += ["--faults", ",".join(faults)]
    r = subprocess.run(args, stdout=subprocess.PIPE, stderr=subprocess.PIPE, text=True)
    trials = []
    for line in r.stdout.split("\n"):
        if not line.startswith("(trial"):
            continue
        t = parse_sexp(line)[0]
        outcome = t[4]
        oc = outcome if isinstance(outcome, str) else outcome[0]
        detail = "" if isinstance(outcome, str) or len(outcome) < 2 else sx(outcome[1])
        th = next((sx(x[1]) for x in t[6:] if isinstance(x, list) and x and x[0] == "text-hash"), None)
        trials.append((sx(t[1]), t[2], sx(t[3]), oc, detail, t[5], th))
    # "no result within the timeout" on a loaded machine is not yet a hang: such trials are run once more, alone, with four times
    # the timeout, and only a trial that still does not return is reported as one
    if _retry and any(t[3] == "hang" for t in trials):
        hung = sorted({t[2] for t in trials if t[3] == "hang"})
        again, _ = run_faults(cases, small, large, hung, timeout * 4, _retry=False)
        redo = {(t[0], t[2]): t for t in again}
        trials = [redo.get((t[0], t[2]), t) if t[3] == "hang" else t for t in trials]
    return trials, r.stderr[-300:]


def extra_c16(pid, tier, seed, workdir, known, write_replay):
    items, n = run_stateful(pid, [("provoke",), ("gen", "unicode", seed, 60 if tier == "quick" else 600), ("gen", "general", seed, 40 if tier == "quick" else 400)],
                            workdir, ["include", "embedded"])
    cov = {"stateful_sequences": n}
    # (a) include variant with files PRESENT at the include paths (relative to the working directory) whose contents differ from the
    #     source: the generator must still emit include_str!(path) and nothing else may change (it does not look at the file system)
    pop = os.path.join(workdir, "populated")
    shutil.rmtree(pop, ignore_errors=True)
    os.makedirs(pop)
    cases = write_stream_file([("genpath", "general", seed, 42 if tier == "quick" else 400)], os.path.join(workdir, "fs.cases"))
    made = 0
    for l in open(cases):
        m = re.search(r'\(path "((?:[^"\\]|\\.)*)"\)', l)
        if not m:
            continue
        pth = re.sub(r"\\u\{([0-9a-fA-F]+)\}", lambda mm: chr(int(mm.group(1), 16)), m.group(1))
        if not pth or pth.startswith("/") or ".." in pth or pth.endswith("/") or any(ord(c) < 32 for c in pth) or "\\" in pth:
            continue
        try:
            full = os.path.join(pop, pth)
            os.makedirs(os.path.dirname(full), exist_ok=True)
            with open(full, "w") as f:
                f.write("// a file that is NOT the shader source\n@compute @workgroup_size(1) fn other() {}\n")
            made += 1
        except OSError:
            pass
    empty = os.path.join(workdir, "unpopulated")
    shutil.rmtree(empty, ignore_errors=True)
    os.makedirs(empty)

    def verdicts(cwd):
        d = subprocess.run([os.path.join(BIN, "dump"), "--opts", "0,48"], stdin=open(cases), stdout=subprocess.PIPE, text=True, cwd=cwd)
        v = subprocess.run([DRIVER, "C16"], input=d.stdout, stdout=subprocess.PIPE, text=True)
        res = {}
        for line in v.stdout.split("\n"):
            if line.startswith("V|C16|"):
                f = line.split("|", 6)
                res[(f[2], f[3])] = (f[4], f[5])
        return res

    with_files, without = verdicts(pop), verdicts(empty)
    nfs = len(with_files)
    for key, (corr, spec) in sorted(with_files.items()):
        if spec.startswith("fail:"):
            items.append(("c16#" + re.sub(r"[^A-Za-z0-9_.\-]", "-", spec[5:].split(":")[0].split("#")[-1])[:40] + "-with-files-present",
                          f"with a different file present at the include path: {spec[5:200]}", key[0], True))
        # what the correspondence says may not depend on the files: a disagreement that exists without them as well is the main
        # pipeline's to report (as a correspondence failure), one that appears only with them is the generator looking at the file system
        if (corr, spec) != without.get(key):
            items.append(("c16#output-depends-on-files-present",
                          f"option run {key[1]}: verdict with a different file present at the include path ({corr[:90]} / {spec[:60]}) differs from the verdict "
                          f"in an empty directory ({without.get(key)})", key[0], True))
    cov["include_paths_populated"] = made
    cov["populated_runs"] = nfs
    if made == 0 or nfs == 0:
        items.append(("c16#harness-populated", f"populated-directory run did not happen (files {made}, verdicts {nfs})", "", False))
    # (b) an embedded source larger than 64 KiB through the formatter-fallback path (raw tokens): SOURCE must still be the input
    big = write_stream_file([("big", 1500, 1)], os.path.join(workdir, "bigsrc.cases"))
    trials, err = run_faults(big, 0, 1, ["absent", "exit1-after-drain", "real"])
    cov["big_source_fallback_trials"] = len(trials)
    for cid, size, fault, oc, detail, same, th in trials:
        # the large source, and the harness' own small source full of text that matters to a Rust lexer / pretty printer (quotes,
        # backslashes, ` :: `, `# [derive`, CR LF): whatever the fallback path does to the module text must not reach the literal
        if oc != "ok" or same == "false":
            kind = "big-source-fallback" if cid.startswith("big:") else "source-through-formatter-fault"
            items.append((f"c16#{kind}", f"embedded source ({'> 64 KiB' if cid.startswith('big:') else size}), formatter fault '{fault}': outcome {oc} {detail[:100]}, same program as with the formatter off: {same}", cid, True))
    if not any(t[0].startswith("big:") for t in trials):
        items.append(("c16#harness-big", "the large embedded source was not run: " + err, "", False))
    # (c) concurrent calls in one process on DIFFERENT large shaders with the formatter on: every result must carry the input of
    #     ITS OWN call as SOURCE (whatever a formatter path shares between calls must not mix them up)
    bigs = write_stream_file([("big", 260, 4 if tier == "quick" else 10), ("gen", "unicode", seed, 12)], os.path.join(workdir, "bigs.cases"))
    rb = subprocess.run([os.path.join(BIN, "determinism"), "--cases", bigs, "--opts", "96,144", "--children", "0", "--threads", "6", "--expect-source"],
                        stdout=subprocess.PIPE, stderr=subprocess.PIPE, text=True)
    for line in rb.stdout.split("\n"):
        if line.startswith("(source-mismatch"):
            t = parse_sexp(line)[0]
            items.append(("c16#source-under-concurrent-calls", f"case {sx(t[1])} option set {t[2]}, 6 threads, rustfmt on: {sx(t[3])}", sx(t[1]), True))
        elif line.startswith("(summary"):
            cov["concurrent_source_check"] = line[:300]
    if "concurrent_source_check" not in cov or "(source-checked true" not in cov["concurrent_source_check"]:
        items.append(("c16#harness-concurrent", "concurrent source check gave no summary: " + rb.stderr[-300:], "", False))
    viol, kn = classify_and_report(pid, items, known, write_replay, {})
    return cov, viol, kn, []


PROPERTY_FAULTS = ["absent", "exit1-after-drain", "exit1-no-read", "kill-self", "kill-before-read", "kill-after-partial-output", "exit1-after-partial-output",
                   "exit0-no-read-empty", "exit0-drain-empty", "slow-ok", "fail-once-partial-then-real", "exit1-noisy-stderr-0", "exit1-noisy-stderr-1",
                   "exit1-no-read-x6", "kill-before-read-x6", "fail-once-long-then-real-x2", "partial-close-stdout-linger-exit1", "partial-close-stdout-linger-kill", "real-with-RUSTFMT-env", "real-with-RUSTFMT-env-empty", "real-with-RUSTFMT-env-blank", "real-with-RUSTFMT-env-args", "real"]


def extra_c19(pid, tier, seed, workdir, known, write_replay):
    cases = write_stream_file([("fixtures",), ("gen", "general", seed, 40)], os.path.join(workdir, "faults.cases"))
    n = 3 if tier == "quick" else 8
    r = subprocess.run([os.path.join(BIN, "faults"), "--cases", cases, "--small", str(n), "--large", str(n), "--timeout", "30"],
                       stdout=subprocess.PIPE, stderr=subprocess.PIPE, text=True)
    items, table, ntr = [], {}, 0
    for line in r.stdout.split("\n"):
        if not line.startswith("(trial"):
            continue
        t = parse_sexp(line)[0]
        cid, size, fault, outcome, same = sx(t[1]), t[2], sx(t[3]), t[4], t[5]
        oc = outcome if isinstance(outcome, str) else outcome[0]
        ntr += 1
        key = f"{fault}/{size}:{oc}:{same}"
        table[key] = table.get(key, 0) + 1
        if fault not in PROPERTY_FAULTS:
            continue            # truncated / garbage / invalid-utf8 output with exit status 0 are beyond the property's fault list
        if oc == "panic":
            items.append((f"faults#panic-{fault}", f"formatter fault '{fault}' ({size} output): generation panicked: {sx(outcome[1])[:160]}", cid, True))
        elif oc == "hang":
            items.append((f"faults#hang-{fault}", f"formatter fault '{fault}' ({size} output): no result within the timeout", cid, True))
        elif oc != "ok":
            items.append((f"faults#{oc}-{fault}", f"formatter fault '{fault}' ({size} output): outcome {oc}", cid, True))
        elif same == "false":
            items.append((f"faults#different-program-{fault}", f"formatter fault '{fault}' ({size} output): returned text is not the same program as with the formatter off", cid, True))
    sp = subprocess.run([os.path.join(BIN, "faults"), "--same-program", "--cases",
                         write_stream_file([("fixtures",), ("gen", "general", seed, 120 if tier == "quick" else 1500), ("gen", "consts", seed, 40 if tier == "quick" else 500)], os.path.join(workdir, "same.cases"))],
                        stdout=subprocess.PIPE, stderr=subprocess.PIPE, text=True)
    # the same comparison under option sets with derive switches on (attributes and derive lists are what a formatter is most
    # likely to rearrange): all four switches with the Rust, glam and nalgebra representations
    sp_out = sp.stdout
    opt_cases = write_stream_file([("fixtures",), ("gen", "structs", seed, 40 if tier == "quick" else 400), ("gen", "vertex", seed, 15 if tier == "quick" else 150)], os.path.join(workdir, "same_opts.cases"))
    for oi in (15, 31, 38):
        spo = subprocess.run([os.path.join(BIN, "faults"), "--same-program", "--cases", opt_cases], stdout=subprocess.PIPE, stderr=subprocess.PIPE, text=True,
                             env=dict(os.environ, FAULTS_OPT_INDEX=str(oi)))
        sp_out += "\n" + spo.stdout
    # ... and the fault trials once more with all derive switches on
    ro = subprocess.run([os.path.join(BIN, "faults"), "--cases", cases, "--small", "2", "--large", "1", "--timeout", "30", "--faults", "real,absent,exit1-after-drain,kill-before-read,exit0-drain-empty"],
                        stdout=subprocess.PIPE, stderr=subprocess.PIPE, text=True, env=dict(os.environ, FAULTS_OPT_INDEX="31"))
    for line in ro.stdout.split("\n"):
        if not line.startswith("(trial"):
            continue
        t = parse_sexp(line)[0]
        cid, size, fault, outcome, same = sx(t[1]), t[2], sx(t[3]), t[4], t[5]
        oc = outcome if isinstance(outcome, str) else outcome[0]
        ntr += 1
        key = f"derives-on:{fault}/{size}:{oc}:{same}"
        table[key] = table.get(key, 0) + 1
        if oc == "hang":
            items.append((f"faults#hang-{fault}", f"formatter fault '{fault}' ({size} output, all derive switches on): no result within the timeout", cid, True))
        elif oc == "ok" and same == "false":
            items.append((f"faults#different-program-{fault}", f"formatter fault '{fault}' ({size} output, all derive switches on): returned text is not the same program as with the formatter off", cid, True))
    same_counts = {}
    for line in sp_out.split("\n"):
        if not line.startswith("(same"):
            continue
        t = parse_sexp(line)[0]
        cid, verdict = sx(t[1]), t[2]
        same_counts[verdict] = same_counts.get(verdict, 0) + 1
        if verdict == "modulo-empty-stmt":
            items.append(("same-program#modulo-empty-stmt", "rustfmt on vs off differ by an empty statement `;` after `if let Some(value) = self.x { .. }` in OverrideConstants::constants (prettyplease drops it)", cid, True))
        elif verdict == "false":
            off = t[3] if isinstance(t[3], str) else t[3][0]
            on = t[4] if isinstance(t[4], str) else t[4][0]
            if off == "panic" and on == "ok":
                items.append(("same-program#off-panics-on-returns", "with the formatter off generation panics (unparsable tokens), with it on the unformatted tokens are returned", cid, True))
            else:
                items.append(("same-program#different", f"rustfmt on vs off are different programs (off {off}, on {on})", cid, True))
    if ntr == 0:
        items.append(("faults#harness", "faults harness produced no trials: " + r.stderr[-300:], "", False))
    st_items, st_n = run_stateful(pid, [("provoke",), ("names", 29, seed), ("gen", "structs", seed, 40 if tier == "quick" else 400)], workdir, ["rustfmt"])
    items += st_items
    case_by_id = {}
    for l in open(cases):
        m = re.match(r'\(src "([^"]*)"', l)
        if m:
            case_by_id[m.group(1)] = l.rstrip("\n")
    viol, kn = classify_and_report(pid, items, known, write_replay, case_by_id)
    return {"fault_trials": ntr, "fault_table": table, "same_program": same_counts,
            "faults": PROPERTY_FAULTS + ["(beyond the property: truncated-ok, garbage-ok, invalid-utf8-ok)"]}, viol, kn, []


def extra_c18(pid, tier, seed, workdir, known, write_replay):
    n = 1 if tier == "quick" else 10
    # the first cases carry an include path (create_shader_module): the strace run covers `--strace-limit` cases from the front
    cases = write_stream_file([("genpath", "general", seed, 21 * n), ("provoke",), ("fixtures",), ("gen", "general", seed, 120 * n), ("gen", "structs", seed, 80 * n)], os.path.join(workdir, "det.cases"))
    args = [os.path.join(BIN, "determinism"), "--cases", cases, "--opts", "0,6,21,38,47" if tier == "quick" else "0,6,21,38,47,53,90,15", "--strace"]
    r = subprocess.run(args, stdout=subprocess.PIPE, stderr=subprocess.PIPE, text=True)
    items, cov = [], {}
    for line in r.stdout.split("\n"):
        if line.startswith("(nondeterministic"):
            t = parse_sexp(line)[0]
            items.append((f"determinism#{re.sub(r'[0-9]+$', '', sx(t[3]))}", f"case {sx(t[1])} option set {t[2]}: output differs ({sx(t[3])})", sx(t[1]), True))
        elif line.startswith("(state-changed"):
            items.append(("determinism#state-changed", line[:200], "", True))
        elif line.startswith("(strace"):
            t = parse_sexp(line)[0]
            for sec in t[1:]:
                if isinstance(sec, list) and sec and sec[0] in ("writes", "execs", "reads", "other-file-calls") and len(sec) > 1:
                    items.append((f"determinism#syscall-{sec[0]}", f"generation performed {sec[0]}: {str(sec[1:])[:200]}", "", True))
            cov["strace"] = line[:600]
        elif line.startswith("(summary"):
            cov["determinism_summary"] = line[:600]
    if "determinism_summary" not in cov:
        items.append(("determinism#harness", "determinism harness gave no summary: " + r.stderr[-300:], "", False))
    st_items, st_n = run_stateful(pid, [("provoke",), ("names", 29, seed), ("gen", "general", seed, 60 * n), ("gen", "structs", seed, 30 * n)], workdir, [""])
    items += st_items
    cov["stateful_sequences"] = st_n
    # concurrent calls on DIFFERENT large shaders with the formatter on (outputs above the pipe buffer)
    big = write_stream_file([("big", 260, 4 if tier == "quick" else 10)], os.path.join(workdir, "big.cases"))
    rb = subprocess.run([os.path.join(BIN, "determinism"), "--cases", big, "--opts", "96", "--children", "0", "--threads", "6"],
                        stdout=subprocess.PIPE, stderr=subprocess.PIPE, text=True)
    for line in rb.stdout.split("\n"):
        if line.startswith("(nondeterministic"):
            t = parse_sexp(line)[0]
            items.append((f"determinism#formatter-concurrent-{re.sub(r'[0-9]+$', '', sx(t[3]))}", f"large case {sx(t[1])} with rustfmt on: output differs ({sx(t[3])})", sx(t[1]), True))
        elif line.startswith("(summary"):
            cov["determinism_big_formatter_summary"] = line[:400]
    if "determinism_big_formatter_summary" not in cov:
        items.append(("determinism#harness-big", "determinism (large, rustfmt on) gave no summary: " + rb.stderr[-300:], "", False))
    # far more concurrent rustfmt-on calls than the machine has cores (a generator that sheds load must not change what it returns)
    many = write_stream_file([("fixtures",)], os.path.join(workdir, "many.cases"))
    lines_many = [l for l in open(many) if l.strip()][:6]
    open(many, "w").write("".join(lines_many))
    rm = subprocess.run([os.path.join(BIN, "determinism"), "--cases", many, "--opts", "96,117", "--children", "0", "--threads", str(4 * (os.cpu_count() or 16))],
                        stdout=subprocess.PIPE, stderr=subprocess.PIPE, text=True)
    for line in rm.stdout.split("\n"):
        if line.startswith("(nondeterministic"):
            t = parse_sexp(line)[0]
            items.append((f"determinism#formatter-many-threads-{re.sub(r'[0-9]+$', '', sx(t[3]))}", f"case {sx(t[1])} with rustfmt on under {4 * (os.cpu_count() or 16)} concurrent threads: output differs ({sx(t[3])})", sx(t[1]), True))
        elif line.startswith("(summary"):
            cov["determinism_many_threads_summary"] = line[:400]
    if "determinism_many_threads_summary" not in cov:
        items.append(("determinism#harness-many-threads", "determinism (many threads, rustfmt on) gave no summary: " + rm.stderr[-300:], "", False))
    # a formatter that merely takes long (6 s) must give byte for byte what a fast one gives
    fx = write_stream_file([("fixtures",)], os.path.join(workdir, "slow.cases"))
    trials, err = run_faults(fx, 1, 0, ["real", "slow-6s-ok", "real-with-RUSTFMT-env", "real-with-RUSTFMT-env-empty", "real-with-RUSTFMT-env-blank", "real-with-RUSTFMT-env-args"], timeout=60)
    by = {}
    for cid, size, fault, oc, detail, same, th in trials:
        by.setdefault(cid, {})[fault] = (oc, th)
    nslow = 0
    for cid, d in by.items():
        if "real" in d and "slow-6s-ok" in d:
            nslow += 1
            if d["real"] != d["slow-6s-ok"]:
                items.append(("determinism#slow-formatter", f"case {cid}: with a formatter that takes 6 s the result is {d['slow-6s-ok']}, with a fast one {d['real']}", cid, True))
        for envf in ("real-with-RUSTFMT-env", "real-with-RUSTFMT-env-empty", "real-with-RUSTFMT-env-blank", "real-with-RUSTFMT-env-args"):
            if "real" in d and envf in d and d["real"] != d[envf]:
                items.append(("determinism#RUSTFMT-environment-variable", f"case {cid}: with the environment variable RUSTFMT set ({envf}) the result is {d[envf]}, without it {d['real']}", cid, True))
    cov["slow_formatter_cases"] = nslow
    if nslow == 0:
        items.append(("determinism#harness-slow", "slow-formatter run gave no comparable pair: " + err, "", False))
    viol, kn = classify_and_report(pid, items, known, write_replay, {})
    return cov, viol, kn, []


def extra_c17(pid, tier, seed, workdir, known, write_replay):
    n = 1 if tier == "quick" else 10
    cases = write_stream_file([("fixtures",), ("gen", "general", seed, 150 * n), ("gen", "structs", seed, 50 * n)], os.path.join(workdir, "corrupt.cases"))
    r = subprocess.run([os.path.join(BIN, "corrupt"), "--cases", cases, "--seed", str(seed), "--per-case", "8"],
                       stdout=subprocess.PIPE, stderr=subprocess.DEVNULL, text=True)
    items, hist, ncor = [], {}, 0
    for line in r.stdout.split("\n"):
        if line.startswith("(corrupt "):
            t = parse_sexp(line)[0]
            ncor += 1
            cls, verdict = t[4], t[7]
            hist[cls] = hist.get(cls, 0) + 1
            v = verdict if isinstance(verdict, str) else sx(verdict)
            if v not in ("ok", "inherited-panic", "panic-on-accepted-source"):
                items.append((f"corrupt#{cls}", f"{sx(t[1])} corruption {t[2]} ({sx(t[3])}): {v}", sx(t[1]), True))
        elif line.startswith("(emit-panic"):
            t = parse_sexp(line)[0]
            items.append((f"corrupt#emit-panic-{sx(t[3])}", f"{sx(t[3])} panicked: {sx(t[4])[:160]}", sx(t[1]), True))
        elif line.startswith("(panic "):
            t = parse_sexp(line)[0]
            # a panic on a source naga REJECTS breaks the property; panics on accepted sources are generation's business (C09 / C01)
            if len(t) > 6 and t[6] in ("parse-error",) or (len(t) > 6 and t[6] == "validation-error" and t[5] == "on"):
                items.append(("corrupt#panic-on-rejected-source", f"{sx(t[1])} corruption {t[2]}: {sx(t[3])[:160]}", sx(t[1]), True))
    if ncor == 0:
        items.append(("corrupt#harness", "corrupt harness produced no cases", "", False))
    st_items, st_n = run_stateful(pid, [("provoke",), ("gen", "general", seed, 80 * n), ("gen", "consts", seed, 20 * n)], workdir, ["capabilities"])
    items += st_items
    case_by_id = {}
    for l in open(cases):
        m = re.match(r'\(src "([^"]*)"', l)
        if m:
            case_by_id[m.group(1)] = l.rstrip("\n")
    viol, kn = classify_and_report(pid, items, known, write_replay, case_by_id)
    return {"corrupted_sources": ncor, "naga_classes": hist, "stateful_sequences": st_n}, viol, kn, []


PROPS["C19"] = dict(
    lean_modules=["WgslVerif.Props.C19"],
    theorems=["WgslVerif.C19", "WgslVerif.C19_faults", "WgslVerif.C19_ok", "WgslVerif.C19_total", "WgslVerif.C19_legacy_counterexample"],
    driver_props=["ALL"],
    streams=lambda tier, seed: [("fixtures",), ("gen", "general", seed, 60 if tier == "quick" else 1500)],
    opts=q_opts([0], [0, 6]),
    extra=extra_c19,
    rule="process-level: the real create_shader_module with rustfmt=true runs in child processes whose PATH holds a stub `rustfmt` for each fault "
         "{absent, exit 1 after draining stdin, exit 1 without reading, killed before / while reading, exit 0 printing nothing (with / without reading), slow, real} x token text "
         "below / above the pipe buffer, under a hard timeout; plus rustfmt on vs off compared as normalised token streams over generated shaders; "
         "non-trivial = generation reached the formatter; distinct = distinct WGSL text",
    trusted_base=COMMON_TRUSTED + ["which fault yields which answers of spawn / write_all / wait_with_output is OS behaviour (ProcEnv): established by the stubs, not proved",
                                   "token preservation by prettyplease / rustfmt is observed per case"],
    assumptions=["partial: the theorem covers the spawn/write/wait state machine; hangs are excluded by the timeout harness only"],
)

PROPS["C18"] = dict(
    lean_modules=["WgslVerif.Props.C18"],
    theorems=["WgslVerif.C18_set_order", "WgslVerif.C18_perm", "WgslVerif.C18_pure"],
    driver_props=["ALL"],
    streams=lambda tier, seed: [("fixtures",), ("gen", "general", seed, 200 if tier == "quick" else 5000), ("gen", "structs", seed, 100 if tier == "quick" else 3000)],
    opts=q_opts([0, 38], [0, 38, 21, 47, 90]),
    extra=extra_c18,
    rule="whole-output correspondence (every section of the real output equals the Lean function of (module, options, source, path)) + process-level: each (case, option set) twice "
         "in-process and after all other cases, in 4 child processes with different cwd / environment / hash seeds / case order, on 16 threads with shuffled orders, bytes compared; one child "
         "under strace: no file written / created, nothing exec'd, nothing read during generation; non-trivial = generation returned; distinct = distinct WGSL text",
    trusted_base=COMMON_TRUSTED + ["environment reads are not syscalls: covered only by the differing-environment runs",
                                   "with rustfmt=true the result additionally depends on what `rustfmt` on PATH does (the rustup proxy consults HOME): outside the property ('other than spawning the formatter')"],
    assumptions=["partial: schedules, processes and hash seeds are runtime behaviour; the theorem covers the only unordered container"],
)

PROPS["C17"] = dict(
    lean_modules=["WgslVerif.Props.C17"],
    theorems=["WgslVerif.C17_parse", "WgslVerif.C17_validate", "WgslVerif.C17_gate", "WgslVerif.C17_total", "WgslVerif.gen_validate_irrelevant"],
    driver_props=["ALL"],
    streams=lambda tier, seed: [("fixtures",), ("gen", "general", seed, 200 if tier == "quick" else 4000), ("gen", "bindings", seed, 100 if tier == "quick" else 2000)],
    opts=q_opts([0, 48], [0, 48, 21, 69]),
    extra=extra_c17,
    rule="valid sources: validation off vs on compared section by section against the model (which ignores the flag: gen_validate_irrelevant); corrupted sources (47 corruption kinds: "
         "truncation, deletion, swaps, injected Unicode incl. NUL / bidi / emoji, semantic breakage such as wrong types, bad alignment, collisions, forbidden stage operations, recursion) "
         "compared with naga called directly: class, message, all four emit_* renderers; non-trivial = the corrupted source differs from its base; distinct = distinct source text",
    trusted_base=COMMON_TRUSTED + ["naga's front end, validator and codespan rendering are oracles (parameters of the model)"],
    assumptions=["partial: a panic on a source naga accepts is generation's business (C09 documented panics / C01), not this property's"],
)


def extra_c07(pid, tier, seed, workdir, known, write_replay):
    """vertex inputs through the REAL wgpu-core check_stage: every generated attribute is offered as InterfaceVar::vertex_attribute(format)"""
    n = 1 if tier == "quick" else 12
    streams = [("fixtures",), ("gen", "vertex", seed, 400 * n), ("gen", "general", seed, 150 * n)]
    out, case_by_id = run_tool_on_streams([os.path.join(BIN, "oracle_wgpu")], streams, workdir, "oracle7")
    items, counts, ncase = [], {}, 0
    for line in out.split("\n"):
        if not line.startswith("(oracle"):
            continue
        ncase += 1
        t = parse_sexp(line)[0]
        cid = sx(t[1])
        for sec in t[3:]:
            if isinstance(sec, list) and sec and sec[0] == "provided":
                for ep in sec[1:]:
                    if ep[2] != "vertex":
                        continue
                    for v in ep[3:]:
                        if v == "ok":
                            counts["vertex:ok"] = counts.get("vertex:ok", 0) + 1
                            continue
                        if isinstance(v, str):
                            continue
                        kind = sx(v[1])
                        if kind == "Input":
                            sig = f"oracle#Input-{sx(v[3])}"
                            counts[sig] = counts.get(sig, 0) + 1
                            items.append((sig, f"wgpu-core rejects vertex entry {sx(ep[1])}: location {v[2]}: {sx(v[4])[:200]}", cid, True))
                        elif kind == "ShaderLocationClash":
                            items.append(("oracle#ShaderLocationClash", f"vertex entry {sx(ep[1])}: two attributes at location {v[2]}", cid, True))
    viol, kn = classify_and_report(pid, items, known, write_replay, case_by_id)
    return {"oracle_cases": ncase, "oracle_verdicts": counts}, viol, kn, []


PROPS["C07"] = dict(
    lean_modules=["WgslVerif.Props.C07", "WgslVerif.Props.C07Buffer", "WgslVerif.Props.C07Nodup"],
    theorems=["WgslVerif.C07_structs", "WgslVerif.C07_entries", "WgslVerif.C07_format", "WgslVerif.C07_buffer", "WgslVerif.C07_impls_nodup",
              "WgslVerif.ReprC.layout_bufferOk", "WgslVerif.vertex_sizeAlign", "WgslVerif.fields_attrs",
              "WgslVerif.getVertexInputStructs_mem", "WgslVerif.locatedMembers_spec",
              "WgslVerif.vertexInputOf_name", "WgslVerif.dedupByName_sub", "WgslVerif.vertexEntryStructs_length"],
    streams=lambda tier, seed: (
        [("fixtures",), ("names",), ("variants",), ("entries",), ("provoke",), ("types", 2, seed), ("gen", "vertex", seed, 500), ("gen", "general", seed, 200), ("gen", "entries", seed, 100)] if tier == "quick" else
        [("fixtures",), ("names",), ("variants",), ("entries",), ("provoke",), ("types",), ("gen", "vertex", seed, 12000), ("gen", "general", seed, 5000), ("gen", "entries", seed, 2000)]),
    opts=q_opts([0, 17, 37, 48], [0, 17, 37, 48, 53, 22]),
    extra=extra_c07,
    rule="cases: fixtures + generator profiles vertex/general/entries (input structs with f32/i32/u32 scalars and vec2-4, arbitrary non-dense and unordered location numbers, builtins "
         "interleaved, several structs per entry, structs shared by entries, bare builtin parameters between struct parameters) x representations / bytemuck / encase switches; each vertex entry is also "
         "handed to the real wgpu-core check_stage with the generated attributes as inputs; non-trivial = at least one vertex input struct; distinct = distinct WGSL text",
    trusted_base=COMMON_TRUSTED + ["WgpuVertex.formatInfo transcribes wgpu_types::VertexFormat (kind, width, components); validated through the real check_stage",
                                   "Ext.ReprC (size / alignment of the emitted field types on x86-64 with glam 0.29 default features, #[repr(C)] placement) and Ext.WgpuVertex.bufferOk "
                                   "(wgpu-core 24.0.5 create_render_pipeline: stride % 4, attribute inside the stride, offset % min(size, 4)) are transcriptions; ReprC is validated on every run "
                                   "against offset_of!/size_of as evaluated by rustc on the real generated modules (harness batch exec)"],
    assumptions=["C07_buffer: struct names distinct (TypeArenaOk), vertex-capable scalars 4 or 8 bytes wide (all WGSL can declare; checked per module), struct size within the device's "
                 "max_vertex_buffer_array_stride (2048 by default; larger structs are counted as over-stride-limit); location < max_vertex_attributes is the shader author's",
                 "partial: a vertex entry with a bare @location parameter outside any struct gets no attribute for it (recorded finding oracle#Input-Missing)"],
)


def round_up(k, n):
    return n if k == 0 else (n + k - 1) // k * k


def extra_c10(pid, tier, seed, workdir, known, write_replay):
    """real encase 0.10 bytes (harness `batch encase`) vs naga's WGSL offsets vs the Lean transcription Ext.Encase"""
    n = 60 if tier == "quick" else 1200
    cases = write_stream_file([("fixtures",), ("types", 8 if tier == "quick" else 1, seed), ("gen", "structs", seed, n), ("gen", "general", seed, n // 3)], os.path.join(workdir, "c10.cases"))
    case_by_id = {}
    for l in open(cases):
        m = re.match(r'\(src "([^"]*)"', l)
        if m:
            case_by_id[m.group(1)] = l.rstrip("\n")
    # Lean side: class + predicted layout per ShaderType struct
    d = subprocess.run([os.path.join(BIN, "dump"), "--opts", "20"], stdin=open(cases), stdout=subprocess.PIPE, text=True)
    v = subprocess.run([DRIVER, "C10"], input=d.stdout, stdout=subprocess.PIPE, text=True)
    pred = {}
    for line in v.stdout.split("\n"):
        if not line.startswith("V|C10|"):
            continue
        f = line.split("|", 6)
        for tag in f[6].split(","):
            p = tag.split(";")
            if len(p) >= 8 and p[0] == "s":
                nums = lambda s: [int(x) for x in s.split(".") if x != ""]
                pred[(f[2], p[1])] = dict(cls=p[2], plen=int(p[3]), stride=int(p[4]), poffs=nums(p[5]), noffs=nums(p[6]), nsize=int(p[7]),
                                          align=int(p[8]) if len(p) > 8 else 1,
                                          rlens={int(kv.split(":")[0]): int(kv.split(":")[1]) for kv in p[9].split(".") if ":" in kv} if len(p) > 9 else {})
    out_path = os.path.join(workdir, "c10.out")
    b = subprocess.run([os.path.join(BIN, "batch"), "encase", "--cases", cases, "--out", out_path], stdout=subprocess.PIPE, stderr=subprocess.STDOUT, text=True)
    items, counts, measured = [], {}, 0
    if not os.path.exists(out_path):
        items.append(("encase#harness", "batch encase produced no result: " + b.stdout[-300:], "", False))
    else:
        for line in open(out_path):
            if line.startswith("(mod "):
                t = parse_sexp(line)[0]
                txt = line
                if re.search(r"\bf64\b|DVec|DMat", txt) and "ShaderS" in txt or ("ShaderType" in txt and re.search(r"f64|DVec|DMat", txt)):
                    counts["reject:f64"] = counts.get("reject:f64", 0) + 1
                    items.append(("encase#f64-unsupported", "the module does not compile: encase 0.10 implements ShaderType for no f64 / DVec / DMat type", sx(t[1]), True))
                else:
                    counts["reject:other(C01)"] = counts.get("reject:other(C01)", 0) + 1
                continue
            if not line.startswith("(encase "):
                continue
            t = parse_sexp(line)[0]
            cid, sname = sx(t[1]), sx(t[2])
            lens = {int(x[1]): int(x[2]) for x in t[3:] if isinstance(x, list) and x[0] == "len"}
            offs = [None if x[2] == "none" else int(x[2]) for x in t[3:] if isinstance(x, list) and x[0] == "field"]
            measured += 1
            p = pred.get((cid, sname))
            if p is None:
                items.append(("encase#no-prediction", f"struct {sname}: the Lean side has no entry for this struct", cid, False))
                continue
            counts["class:" + p["cls"]] = counts.get("class:" + p["cls"], 0) + 1
            if p["cls"] in ("unpredictable", "no-such-struct"):
                if p["cls"] != "out-of-domain":
                    items.append(("encase#unpredictable", f"struct {sname}: Ext.Encase has no layout for an emitted field type", cid, False))
                continue
            # (a) validate the transcription against the real library
            if p["poffs"]:
                if p["stride"] == 0:
                    exp_lens = {0: p["plen"]}
                else:
                    # lengths for k elements of the trailing runtime-sized array: Encase.runtimeLen, evaluated by the driver (the function
                    # C10_runtime is about); a length the driver gives no prediction for is a machinery gap, not silently recomputed here
                    exp_lens = {k: p["rlens"].get(k, -1) for k in lens}
                if [o for o in offs] != p["poffs"] or any(lens.get(k) != e for k, e in exp_lens.items()):
                    items.append(("encase#transcription", f"struct {sname}: Ext.Encase predicts offsets {p['poffs']} len {exp_lens}, real encase wrote offsets {offs} len {lens}", cid, False))
                    continue
                counts["transcription-agrees"] = counts.get("transcription-agrees", 0) + 1
            # (b) the property, for structs inside its domain
            if p["cls"] == "out-of-domain":
                continue
            ok = offs == p["noffs"] and (p["stride"] != 0 or lens.get(0) == p["nsize"])
            if ok:
                counts["match:" + p["cls"]] = counts.get("match:" + p["cls"], 0) + 1
                continue
            sig = {"explicit-attrs": "encase#explicit-align-size", "builtin-member": "encase#builtin-member-dropped"}.get(p["cls"], "encase#plain-mismatch")
            counts["mismatch:" + p["cls"]] = counts.get("mismatch:" + p["cls"], 0) + 1
            items.append((sig, f"struct {sname}: WGSL offsets {p['noffs']} size {p['nsize']}, encase wrote offsets {offs} len {lens}", cid, True))
    viol, kn = classify_and_report(pid, items, known, write_replay, case_by_id)
    return {"structs_measured": measured, "encase_verdicts": counts,
            "oracle": "encase 0.10 StorageBuffer::write on sentinel values, compiled from the real generated module (harness batch encase)"}, viol, kn, []


PROPS["C10"] = dict(
    lean_modules=["WgslVerif.Props.C10", "WgslVerif.Props.C10Struct"],
    theorems=["WgslVerif.C10_leaf", "WgslVerif.C10_struct_algorithm", "WgslVerif.C10_offsets_partial",
              "WgslVerif.C10S.C10_struct", "WgslVerif.C10S.C10_struct_exec", "WgslVerif.C10S.C10_struct_exec_offsets",
              "WgslVerif.C10S.C10_runtime", "WgslVerif.C10S.meta_of_natural", "WgslVerif.C10S.emitted_of_gen", "WgslVerif.C10S.structMeta_sound",
              "WgslVerif.C10S.Meta.det"],
    driver_props=["C10"],
    streams=lambda tier, seed: [("gen", "structs", seed, 100 if tier == "quick" else 3000), ("fixtures",), ("provoke",), ("types",), ("names",), ("variants",)],
    opts=q_opts([20, 68, 21], [20, 22, 68, 21, 23]),
    extra=extra_c10,
    rule="cases: generator profiles structs/general under encase + glam; every emitted ShaderType struct is constructed with sentinel values, written through the REAL "
         "encase::StorageBuffer (compiled against encase 0.10 + glam 0.29) and the byte length and the offset of every field are compared with (a) the Lean transcription Ext.Encase and "
         "(b) naga's WGSL offsets / size; runtime arrays with 0, 1, 3 elements; non-trivial = at least one ShaderType struct; distinct = distinct WGSL text",
    trusted_base=COMMON_TRUSTED + ["Ext.Encase transcribes encase 0.10's metadata; validated against the real bytes for every measured struct (incl. those outside the property's domain)",
                                   "Ext.WgslLayout (see C05)"],
    assumptions=["the property's domain: f32/i32/u32 scalars and vectors, square float matrices, fixed arrays and nested structs of those, trailing runtime arrays; "
                 "non-square matrices, bool are outside; f64 and explicit @size/@align and dual-use structs with builtin members are recorded findings"],
)


C01_PATTERNS = [
    (r"`bool: ", "rustc#bool-member-with-pod-or-shadertype"),
    (r"`f64: Shader|DVec\d|DMat\d", "rustc#f64-with-encase"),
    (r"serde::(Serialize|Deserialize)", "rustc#serde-array-longer-than-32"),
    (r"defined multiple times|expected type, found module|has no field named|no field `|generic argument", "rustc#name-clash-with-generated-item"),
    (r"ambiguous associated type", "rustc#struct-named-like-a-crate"),
    (r"let bindings cannot shadow|refutable pattern|mismatched types|cannot subtract|cannot add|cannot be applied to type", "rustc#lowercase-const-shadows-derive-local"),
]
C01_SECONDARY = [r"the trait `Copy` cannot be implemented", r"cannot find type", r"aborting due to"]


def extra_c01(pid, tier, seed, workdir, known, write_replay):
    """rustc (cargo check) on the real generated modules against the real wgpu 24 / bytemuck / encase / glam / serde (harness `batch check`)"""
    n = 1 if tier == "quick" else 10
    cases = write_stream_file([("fixtures",), ("provoke",), ("names", 9 if tier == "quick" else 1, seed), ("entries", 8 if tier == "quick" else 1, seed), ("variants",), ("types", 11 if tier == "quick" else 1, seed), ("gen", "structs", seed, 20 * n), ("gen", "general", seed, 25 * n), ("gen", "vertex", seed, 12 * n),
                               ("gen", "consts", seed, 12 * n), ("gen", "entries", seed, 12 * n), ("gen", "textures", seed, 8 * n), ("gen", "unicode", seed, 8 * n)],
                              os.path.join(workdir, "c01.cases"))
    case_by_id = {}
    for l in open(cases):
        m = re.match(r'\(src "([^"]*)"', l)
        if m:
            case_by_id[m.group(1)] = l.rstrip("\n")
    opts = "0,3,4,8,15,20,31" if tier == "quick" else "0,1,2,3,4,6,8,15,16,20,23,31,48"
    out_path = os.path.join(workdir, "c01.out")
    b = subprocess.run([os.path.join(BIN, "batch"), "check", "--cases", cases, "--opts", opts, "--out", out_path],
                       stdout=subprocess.PIPE, stderr=subprocess.STDOUT, text=True)
    items, counts, nmod = [], {}, 0
    gen_failed = set()
    optl = [int(x) for x in opts.split(",")]
    # Ext.RustStatic (Lean) evaluated on the facts of the same real modules: driver prop C01S
    pred, static_spec = {}, []
    naga_invalid = set()      # cases naga's validator rejects: generated only with validation off, outside the property (DESIGN section 2)
    d = subprocess.run([os.path.join(BIN, "dump"), "--opts", opts], stdin=open(cases), stdout=subprocess.PIPE, text=True)
    v = subprocess.run([DRIVER, "C01S"], input=d.stdout, stdout=subprocess.PIPE, text=True)
    benign = {}
    for line in v.stdout.split("\n"):
        if not line.startswith("V|C01S|"):
            continue
        f = line.split("|", 6)
        key = (f[2], optl[int(f[3])])
        tg = f[6].split(",")
        tags = [tuple((t.split(";") + ["", ""])[:3]) for t in tg if t.startswith("rs")]
        if tags:
            pred[key] = tags
        if "naga-invalid" in tg:
            naga_invalid.add(f[2])
        for t in tg:
            if "benign" in t:
                benign[t] = benign.get(t, 0) + 1
        if f[5].startswith("fail:"):
            static_spec.append((key, f[5]))
    modules = {}
    if not os.path.exists(out_path):
        items.append(("rustc#harness", "batch check produced no result: " + b.stdout[-300:], "", False))
    else:
        for line in open(out_path):
            if not line.startswith("(mod "):
                if line.startswith("(summary"):
                    counts["summary"] = line.strip()[:200]
                continue
            t = parse_sexp(line)[0]
            cid, opt, verdict = sx(t[1]), int(t[2]), t[3]
            nmod += 1
            if cid in naga_invalid:
                counts["outside:naga-validator-rejects-the-module"] = counts.get("outside:naga-validator-rejects-the-module", 0) + 1
                continue
            if verdict == "unconfirmed":
                # passed the first compile, but the confirmation rounds ran out (large thorough batches): errors of a later compiler
                # phase may be hidden behind other modules' errors - the module is not judged (neither way)
                counts["unconfirmed"] = counts.get("unconfirmed", 0) + 1
                continue
            if verdict == "ok":
                counts["ok"] = counts.get("ok", 0) + 1
                modules[(cid, opt)] = ("ok", [])
                continue
            kind = verdict[0]
            if kind == "permitted":
                counts["permitted"] = counts.get("permitted", 0) + 1
                modules[(cid, opt)] = ("permitted", [])
            elif kind == "gen":
                counts["gen:" + sx(verdict[1])] = counts.get("gen:" + sx(verdict[1]), 0) + 1      # the generator did not return Ok: outside this property
                gen_failed.add((cid, opt))
            elif kind == "syntax":
                counts["syntax"] = counts.get("syntax", 0) + 1
                modules[(cid, opt)] = ("syntax", [("syntax", sx(verdict[1])[:200], "")])
            else:
                counts["reject"] = counts.get("reject", 0) + 1
                modules[(cid, opt)] = ("reject", [(sx(e[0]), sx(e[1]), sx(e[2])) for e in verdict[1:]])
    # rustc's verdict per module held against Ext.RustStatic's prediction for the same module (both ways); rejected modules are
    # classified by the predicted issue, not by the wording of rustc's messages (checklib/c01_classify.py)
    import c01_classify
    scounts, sitems = c01_classify.analyse(pred, modules, C01_PATTERNS)
    items += sitems
    # the same modules as the REAL rustfmt prints them (option sets 96 + i: rustfmt on): the formatter path (pipe, fallback to the
    # unformatted tokens) must hand rustc a module it accepts whenever the prettyplease path does
    fm_cases = write_stream_file([("fixtures",), ("provoke",), ("gen", "unicode", seed, 8 * n), ("gen", "general", seed, 10 * n)], os.path.join(workdir, "c01fmt.cases"))
    case_by_id_fm = {}
    for l in open(fm_cases):
        m = re.match(r'\(src "([^"]*)"', l)
        if m:
            case_by_id_fm[m.group(1)] = l.rstrip("\n")
            case_by_id.setdefault(m.group(1), l.rstrip("\n"))
    fm_out = os.path.join(workdir, "c01fmt.out")
    subprocess.run([os.path.join(BIN, "batch"), "check", "--cases", fm_cases, "--opts", "96,116", "--out", fm_out], stdout=subprocess.PIPE, stderr=subprocess.STDOUT, text=True)
    nfm = 0
    if os.path.exists(fm_out):
        for line in open(fm_out):
            if not line.startswith("(mod "):
                continue
            t = parse_sexp(line)[0]
            cid, opt, verdict = sx(t[1]), int(t[2]), t[3]
            nfm += 1
            if verdict in ("ok", "unconfirmed") or verdict[0] in ("permitted", "gen") or cid in naga_invalid:
                continue
            what = sx(verdict[1])[:200] if verdict[0] == "syntax" else "; ".join(sx(e[1])[:80] for e in verdict[1:3])
            off = modules.get((cid, opt - 96))
            if off is None and (cid, opt - 96) in gen_failed:
                # with rustfmt off the call does not return Ok (prettyplease panics on tokens that are no Rust file); with it on
                # the call returns Ok - an accepted shader - and the text is what rustc rejects here
                strs = re.findall(r'"([^"]*)"', case_by_id_fm.get(cid, ""))
                src = re.sub(r"\\u\{([0-9a-fA-F]+)\}", lambda mm: chr(int(mm.group(1), 16)), strs[1]) if len(strs) > 1 else ""
                code = re.sub(r"/\*.*?\*/", " ", re.sub(r"//[^\n]*", " ", src), flags=re.S)       # identifiers of the code, not words of comments
                kw = sorted(set(re.findall(r"[A-Za-z_][A-Za-z0-9_]*", code)) & RUST_KEYWORDS_WGSL_ALLOWS)
                if kw:
                    items.append(("rustc#keyword-identifier-with-rustfmt-on", f"option set {opt} (rustfmt on): the WGSL identifier(s) {kw} are Rust keywords; the call returns Ok with text rustc rejects ({what[:100]})", cid, True))
                else:
                    items.append(("rustc#rejected-only-with-rustfmt-on", f"option set {opt} (rustfmt on): the call returns Ok with text rustc rejects ({verdict[0]}: {what}) where the rustfmt-off call does not return at all", cid, True))
                continue
            if off is None or off[0] not in ("ok", "permitted"):
                continue        # rejected without the formatter as well: classified above
            items.append(("rustc#rejected-only-with-rustfmt-on", f"option set {opt} (rustfmt on): rustc rejects the module ({verdict[0]}: {what}) although it accepts the one generated with rustfmt off", cid, True))
    counts["modules_compiled_with_rustfmt_on"] = nfm
    if nfm == 0:
        items.append(("rustc#harness-rustfmt-on", "batch check with rustfmt on produced no result", "", False))
    # the theorems' conclusions evaluated on the REAL output of the modules that meet their hypotheses
    for (cid, opt), detail in static_spec:
        items.append((signature_of_static(detail), f"option set {opt}: {detail[5:300]}", cid, True))
    # mutation test of the fact reader itself (harness reader_selftest): single-token mutations of real generated texts must change
    # the facts; the only tolerated blind spots are a dropped `&` / `;` (type-level only: rustc's business, covered by the batch above)
    rcases = write_stream_file([("fixtures",), ("gen", "general", seed, 25 if tier == "quick" else 300), ("gen", "entries", seed, 15 if tier == "quick" else 200),
                                ("names", 40, seed)], os.path.join(workdir, "reader.cases"))
    rs = subprocess.run([os.path.join(BIN, "reader_selftest"), "--opts", "0,21", "--per-text", "40" if tier == "quick" else "120", "--seed", str(seed)],
                        stdin=open(rcases), stdout=subprocess.PIPE, stderr=subprocess.PIPE, text=True)
    reader = {}
    for line in rs.stdout.split("\n"):
        if line.startswith("(summary"):
            t = parse_sexp(line)[0]
            for sec in t[1:]:
                if sec[0] in ("texts", "mutants", "undetected"):
                    reader[sec[0]] = int(sec[1])
                elif sec[0] == "by-kind-tried-undetected":
                    reader["by_kind"] = {k[0]: [int(k[1]), int(k[2])] for k in sec[1:]}
        elif line.startswith("(mutation"):
            t = parse_sexp(line)[0]
            kind = t[3]
            if kind not in ("reference-operator-deleted", "semicolon-deleted"):
                items.append((f"reader#insensitive-{kind}", f"the fact reader does not notice a {kind} mutation of the real output: `{sx(t[5])[:120]}` -> `{sx(t[6])[:120]}`", sx(t[1]), False))
    if not reader.get("mutants"):
        items.append(("reader#harness", "reader_selftest produced no mutants: " + rs.stderr[-200:], "", False))
    viol, kn = classify_and_report(pid, items, known, write_replay, case_by_id)
    return {"modules_compiled": nmod, "rustc_verdicts": counts, "fact_reader_mutation_test": reader,
            "ruststatic_vs_rustc": scounts, "ruststatic_predictions": len(pred), "benign_hypotheses_hold": benign,
            "oracle": "cargo check of the real generated modules against wgpu 24.0.5, bytemuck 1.25 (derive), encase 0.10 (glam), glam 0.29, serde 1 (nalgebra is not in the offline registry: never compiled); "
                      "Ext.RustStatic (Lean) is evaluated on the facts of the same modules and held against rustc's verdict both ways"}, viol, kn, []


# Rust keywords (strict and reserved, 2021 edition) that are not reserved words of WGSL
RUST_KEYWORDS_WGSL_ALLOWS = {"box", "dyn", "in", "priv", "try", "gen", "abstract", "become", "do", "final", "macro", "typeof", "unsized", "virtual", "yield",
                             "crate", "extern", "impl", "mod", "move", "mut", "pub", "ref", "Self", "self", "static", "super", "trait", "type", "unsafe", "use",
                             "where", "async", "await", "match", "as", "enum"}


def signature_of_static(detail):
    m = re.match(r"fail:([A-Za-z0-9_.\-]+#[A-Za-z0-9_.\-]+)", detail)
    return m.group(1) if m else "static#unclassified"


PROPS["C01"] = dict(
    lean_modules=["WgslVerif.Props.C01", "WgslVerif.Props.C01Resolve"],
    theorems=["WgslVerif.C01_no_keyword_idents", "WgslVerif.C01_entry_consts_distinct", "WgslVerif.C01_group_items_distinct", "WgslVerif.C01_struct_items_distinct",
              "WgslVerif.C01_nested_struct_emitted",
              "WgslVerif.C01_static", "WgslVerif.C01_static_ok", "WgslVerif.C01_static_partial", "WgslVerif.C01_resolve", "WgslVerif.C01_resolve_field_types",
              "WgslVerif.C01_resolve_vertex", "WgslVerif.C01_resolve_entries", "WgslVerif.C01_resolve_groups", "WgslVerif.C01_resolve_push",
              "WgslVerif.vertexInputsEmittedB_sound", "WgslVerif.C01_names", "WgslVerif.C01_shadow", "WgslVerif.C01_derives_satisfiable", "WgslVerif.C01_literals",
              "WgslVerif.C01_keywords", "WgslVerif.C01_capture", "WgslVerif.rustType_leaf", "WgslVerif.rustType_named",
              "WgslVerif.namesBenignB_sound", "WgslVerif.deriveBenignB_sound", "WgslVerif.shadowBenignB_sound"],
    driver_props=["ALL"],
    streams=lambda tier, seed: [("fixtures",), ("genpath", "general", seed, 42 if tier == "quick" else 400), ("provoke",), ("gen", "general", seed, 150 if tier == "quick" else 4000), ("gen", "structs", seed, 80 if tier == "quick" else 2000),
                                ("gen", "unicode", seed, 50 if tier == "quick" else 1000)],
    opts=q_opts([0, 7, 21, 38, 47, 90], list(range(0, 96, 5))),
    extra=extra_c01,
    rule="whole-output correspondence (every section, 6 option sets) + the real generated modules of fixtures and generator profiles structs/general/vertex/consts/entries/textures/unicode "
         "under 7 (13 thorough) option sets are compiled with rustc against the real wgpu 24 / bytemuck / encase / glam / serde; permitted failures (layout assertions, Pod padding) are "
         "recognised by their const-evaluation messages; non-trivial = the generator returned Ok; distinct = distinct (WGSL text, option set)",
    trusted_base=COMMON_TRUSTED + ["rustc is the judge of 'compiles'; the Lean theorems cover fragments of the static semantics only (identifier legality on the prettyplease path, distinctness of generated item names, "
                                   "resolution of nested struct references)", "nalgebra is not available offline: the Nalgebra representation is covered at fact level only"],
    assumptions=["partial: 'rustc accepts' cannot be a Lean theorem; classes of rejected modules are recorded findings, any other rejection is a violation"],
)



# ---------------------------------------------------------------------------------------------------------
# exec oracle: the REAL generated code, compiled by rustc against the real wgpu / glam / bytemuck / encase, is RUN
# (harness `batch exec`): vertex_buffer_layout(), <entry>_entry(..), OverrideConstants::constants(), SOURCE
# ---------------------------------------------------------------------------------------------------------

def run_exec(streams, opts, driver_prop, workdir, name):
    """returns (lines by kind, tags[(case, opt)] -> list of ';'-tags printed by the Lean driver, case_by_id, summary line)"""
    cases = write_stream_file(streams, os.path.join(workdir, name + ".cases"))
    case_by_id = {}
    for l in open(cases):
        m = re.match(r'\(src "([^"]*)"', l)
        if m:
            case_by_id[re.sub(r"\\u\{([0-9a-fA-F]+)\}", lambda mm: chr(int(mm.group(1), 16)), m.group(1))] = l.rstrip("\n")
    tags = {}
    if driver_prop:
        d = subprocess.run([os.path.join(BIN, "dump"), "--opts", ",".join(str(o) for o in opts)], stdin=open(cases), stdout=subprocess.PIPE, text=True)
        v = subprocess.run([DRIVER, driver_prop], input=d.stdout, stdout=subprocess.PIPE, text=True)
        for line in v.stdout.split("\n"):
            if not line.startswith("V|" + driver_prop + "|"):
                continue
            f = line.split("|", 6)
            tags[(f[2], opts[int(f[3])])] = [t.split(";") for t in f[6].split(",") if ";" in t]
    out_path = os.path.join(workdir, name + ".out")
    if os.path.exists(out_path):
        os.remove(out_path)
    b = subprocess.run([os.path.join(BIN, "batch"), "exec", "--cases", cases, "--opts", ",".join(str(o) for o in opts), "--out", out_path],
                       stdout=subprocess.PIPE, stderr=subprocess.STDOUT, text=True)
    lines = {}
    summary = None
    if os.path.exists(out_path):
        for line in open(out_path):
            line = line.rstrip("\n")
            if not line.startswith("("):
                continue
            kind = line[1:].split(" ", 1)[0]
            if kind == "summary":
                summary = line
                continue
            lines.setdefault(kind, []).append(parse_sexp(line)[0])
    return lines, tags, case_by_id, summary, b.stdout[-400:]


def layout_of(t):
    """(stride, step, [(format, offset, location)]) of a (vbuf ..) / (buf ..) item list"""
    stride = step = None
    attrs = []
    for x in t:
        if isinstance(x, list) and x:
            if x[0] == "stride":
                stride = int(x[1])
            elif x[0] == "step":
                step = x[1]
            elif x[0] == "attr":
                attrs.append((x[1], int(x[2]), int(x[3])))
    return stride, step, attrs


def extra_c07_exec(pid, tier, seed, workdir, known, write_replay):
    """vertex_buffer_layout() and <entry>_entry(..) of the real generated code, evaluated by rustc, against Ext.ReprC's prediction and the expected wiring"""
    n = 1 if tier == "quick" else 10
    # 16 = glam without bytemuck (padded structs compile: 16-aligned Vec4), 17 = glam + bytemuck (padding is a compile error)
    opts = [0, 16, 17]
    streams = [("fixtures",), ("gen", "vertex", seed, 150 * n), ("gen", "entries", seed, 40 * n)]
    lines, tags, case_by_id, summary, tail = run_exec(streams, opts, "C07", workdir, "exec7")
    items, counts = [], {}
    if summary is None:
        items.append(("exec#harness", "batch exec produced no result: " + tail, "", False))
    real = {}
    for t in lines.get("vbuf", []):
        cid, opt, sname = sx(t[1]), int(t[2]), sx(t[3])
        stride, step, attrs = layout_of(t[4:])
        real[(cid, opt, sname, step)] = (stride, attrs)
        if step != "Vertex":
            continue
        pred = next((p for p in tags.get((cid, opt), []) if p[0] == "vb" and p[1] == sname), None)
        if pred is None:
            counts["vbuf:no-prediction"] = counts.get("vbuf:no-prediction", 0) + 1
            continue
        nums = lambda s_: [int(x) for x in s_.split(".") if x != ""]
        pstride, poffs, pfmts, plocs = int(pred[2]), nums(pred[3]), [x for x in pred[4].split(".") if x], nums(pred[5])
        if (stride, [a[1] for a in attrs]) != (pstride, poffs):
            items.append(("exec#layout-differs", f"struct {sname} opt {opt}: rustc evaluates stride {stride} offsets {[a[1] for a in attrs]}, Ext.ReprC predicts stride {pstride} offsets {poffs}", cid, False))
        elif ([a[0] for a in attrs], [a[2] for a in attrs]) != (pfmts, plocs):
            items.append(("exec#attribute-table", f"struct {sname} opt {opt}: executed table {attrs}, facts say formats {pfmts} locations {plocs}", cid, True))
        else:
            counts["vbuf:agrees"] = counts.get("vbuf:agrees", 0) + 1
            if stride != sum({"x2": 2, "x3": 3, "x4": 4}.get(a[0][-2:], 1) * (8 if "64" in a[0] else 4) for a in attrs):
                counts["vbuf:padded"] = counts.get("vbuf:padded", 0) + 1
    for (cid, opt, sname, step), (stride, attrs) in list(real.items()):
        other = real.get((cid, opt, sname, "Instance" if step == "Vertex" else "Vertex"))
        if other is not None and other != (stride, attrs):
            items.append(("exec#step-mode-changes-layout", f"struct {sname}: layouts for the two step modes differ beyond the step mode", cid, True))
    for t in lines.get("ventry", []):
        cid, opt, fname = sx(t[1]), int(t[2]), sx(t[3])
        j = int(next(x[1] for x in t[4:] if isinstance(x, list) and x[0] == "call"))
        ep = sx(next(x[1] for x in t[4:] if isinstance(x, list) and x[0] == "entry_point"))
        bufs = [layout_of(x[1:]) for x in t[4:] if isinstance(x, list) and x[0] == "buf"]
        exp = next((p for p in tags.get((cid, opt), []) if p[0] == "ve" and p[1] == fname), None)
        if exp is None:
            counts["ventry:no-expectation"] = counts.get("ventry:no-expectation", 0) + 1
            continue
        structs = [x for x in exp[3].split(".") if x]
        bad = None
        if ep != exp[2]:
            bad = f"entry_point {ep!r}, expected {exp[2]!r}"
        elif len(bufs) != len(structs):
            bad = f"{len(bufs)} buffers for struct parameters {structs}"
        else:
            for i, (sname, b) in enumerate(zip(structs, bufs)):
                want_step = "Instance" if i == j else "Vertex"
                want = real.get((cid, opt, sname, want_step))
                if b[1] != want_step:
                    bad = f"call {j}: buffer {i} has step mode {b[1]}, the caller gave {want_step}"
                elif want is not None and (b[0], b[2]) != want:
                    bad = f"call {j}: buffer {i} is not {sname}::vertex_buffer_layout: {b} vs {want}"
                if bad:
                    break
        if bad:
            items.append(("exec#entry-buffers", f"{fname} opt {opt}: {bad}", cid, True))
        else:
            counts["ventry:ok"] = counts.get("ventry:ok", 0) + 1
            if len(structs) > 1:
                counts["ventry:multi-buffer"] = counts.get("ventry:multi-buffer", 0) + 1
    viol, kn = classify_and_report(pid, items, known, write_replay, case_by_id)
    return {"exec_summary": summary, "exec_verdicts": counts,
            "exec_oracle": "rustc-evaluated offset_of!/size_of of the real generated structs (wgpu 24.0.5, glam 0.29, x86-64) and the executed <entry>_entry helpers (harness batch exec)"}, viol, kn, []


def extra_c12(pid, tier, seed, workdir, known, write_replay):
    """OverrideConstants::constants() of the real generated code is RUN and its map handed to the REAL naga process_overrides"""
    n = 1 if tier == "quick" else 10
    streams = [("fixtures",), ("gen", "consts", seed, 150 * n), ("gen", "general", seed, 60 * n), ("gen", "entries", seed, 30 * n)]
    lines, _, case_by_id, summary, tail = run_exec(streams, [0], None, workdir, "exec12")
    items, counts = [], {}
    if summary is None:
        items.append(("exec#harness", "batch exec produced no result: " + tail, "", False))
    for t in lines.get("ovres", []):
        cid, a, fin = sx(t[1]), t[3], t[4]
        rest = t[5:]
        for x in rest:
            if isinstance(x, list) and x and x[0] == "keys-differ":
                items.append(("exec#override-keys", f"assignment {a}: constants() has keys {[sx(k) for k in x[2]]}, the supplied overrides are keyed {[sx(k) for k in x[1]]}", cid, True))
        if "accepted" in rest:
            diffs = [x for x in rest if isinstance(x, list) and x and x[0] == "value-differs"]
            if diffs:
                d = diffs[0]
                items.append(("exec#override-value", f"assignment {a}: override {sx(d[1])} ({d[2]}) supplied {d[3]}, naga resolved {sx(d[4])[:120]}", cid, True))
            else:
                counts[f"{fin}:accepted-values-seen"] = counts.get(f"{fin}:accepted-values-seen", 0) + 1
            continue
        if any(isinstance(x, list) and x and x[0] == "oracle-panic" for x in rest):
            counts["oracle-panic(naga process_overrides asserts)"] = counts.get("oracle-panic(naga process_overrides asserts)", 0) + 1
            continue
        rej = next((x for x in rest if isinstance(x, list) and x and x[0] == "rejected"), None)
        if rej is None:
            counts["unreadable:" + str(rest[:1])] = counts.get("unreadable:" + str(rest[:1]), 0) + 1
            continue
        variant = sx(rej[1])
        if variant.startswith(("ConstantEvaluatorError", "ValidationError", "NegativeWorkgroupSize")):
            # the map itself was taken (every key resolved, every value converted); the SHADER has no meaning for this value:
            # another override's default expression overflows, an array length / workgroup size derived from it is 0
            k = f"{fin}:shader-rejects-value:{variant.split('(')[0]}"
            counts[k] = counts.get(k, 0) + 1
        elif fin == "nonfinite" and variant.startswith("SrcNeedsToBeFinite"):
            counts["nonfinite:SrcNeedsToBeFinite"] = counts.get("nonfinite:SrcNeedsToBeFinite", 0) + 1
            items.append(("exec#override-nonfinite", f"assignment {a}: an f32 field holding an infinity / NaN is passed on as is and naga rejects the map ({sx(rej[2])})", cid, True))
        else:
            items.append((f"exec#override-rejected-{variant.split('(')[0]}", f"assignment {a} ({fin}): naga rejects the map: {sx(rej[2])[:200]}", cid, True))
    viol, kn = classify_and_report(pid, items, known, write_replay, case_by_id)
    return {"exec_summary": summary, "exec_verdicts": counts,
            "exec_oracle": "OverrideConstants::constants() executed (rustc-compiled real module) on 9 finite + 3 non-finite assignments per shader, map resolved by naga 24 process_overrides"}, viol, kn, []


def extra_c14(pid, tier, seed, workdir, known, write_replay):
    """the entry helpers of the real generated code are RUN: entry_point string, number of targets / buffers"""
    n = 1 if tier == "quick" else 10
    streams = [("fixtures",), ("gen", "entries", seed, 120 * n), ("gen", "vertex", seed, 40 * n)]
    lines, tags, case_by_id, summary, tail = run_exec(streams, [0], "C14", workdir, "exec14")
    items, counts = [], {}
    if summary is None:
        items.append(("exec#harness", "batch exec produced no result: " + tail, "", False))
    for kind, key in (("fentry", "fe"), ("ventry", "ve")):
        for t in lines.get(kind, []):
            cid, opt, fname = sx(t[1]), int(t[2]), sx(t[3])
            ep = sx(next(x[1] for x in t[4:] if isinstance(x, list) and x[0] == "entry_point"))
            got = int(next(x[1] for x in t[4:] if isinstance(x, list) and x[0] == "targets")) if kind == "fentry" else sum(1 for x in t[4:] if isinstance(x, list) and x[0] == "buf")
            exp = next((p for p in tags.get((cid, opt), []) if p[0] == key and p[1] == fname), None)
            if exp is None:
                counts[kind + ":no-expectation"] = counts.get(kind + ":no-expectation", 0) + 1
            elif ep != exp[2]:
                items.append(("exec#entry-point", f"{fname} returns entry_point {ep!r}; the WGSL entry point is {exp[2]!r}", cid, True))
            elif got != int(exp[3]):
                items.append(("exec#entry-count", f"{fname} returns {got} {'targets' if kind == 'fentry' else 'buffers'}, {exp[3]} needed", cid, True))
            else:
                counts[kind + ":ok"] = counts.get(kind + ":ok", 0) + 1
    viol, kn = classify_and_report(pid, items, known, write_replay, case_by_id)
    return {"exec_summary": summary, "exec_verdicts": counts}, viol, kn, []


def exec_c16(pid, tier, seed, workdir, known, write_replay):
    """the embedded SOURCE constant as rustc reads it"""
    n = 1 if tier == "quick" else 10
    streams = [("fixtures",), ("gen", "unicode", seed, 150 * n), ("gen", "general", seed, 40 * n), ("big", 120, 3)]
    lines, _, case_by_id, summary, tail = run_exec(streams, [0], None, workdir, "exec16")
    items, counts = [], {}
    if summary is None:
        items.append(("exec#harness", "batch exec produced no result: " + tail, "", False))
    for t in lines.get("source", []):
        cid, verdict = sx(t[1]), t[-1]
        counts["source:" + verdict] = counts.get("source:" + verdict, 0) + 1
        if verdict != "same":
            items.append(("exec#source-differs", f"SOURCE as compiled has {t[3]} bytes (fnv {t[4]}); it is not the input text", cid, True))
    viol, kn = classify_and_report(pid, items, known, write_replay, case_by_id)
    return {"exec_summary": summary, "exec_verdicts": counts}, viol, kn, []


def combine_extras(*fs):
    def run(pid, tier, seed, workdir, known, write_replay):
        ev, viol, kn, notes = {}, [], [], []
        for f in fs:
            e, v, k, nn = f(pid, tier, seed, workdir, known, write_replay)
            for key, val in e.items():
                ev[key if key not in ev else f.__name__ + ":" + key] = val
            viol += v
            kn += [x for x in k if x not in kn]
            notes += nn
        return ev, viol, kn, notes
    return run


PROPS["C07"]["extra"] = combine_extras(extra_c07, extra_c07_exec)
PROPS["C12"]["extra"] = extra_c12
PROPS["C14"]["extra"] = extra_c14

PROPS["C16"]["extra"] = combine_extras(extra_c16, exec_c16)
