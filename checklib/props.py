"""Per-property registry used by /verif/check."""

COMMON_TRUSTED = [
    "Lean 4.33.0 kernel; axioms per theorem as audited (allow-list propext, Classical.choice, Quot.sound)",
    "harness/src/irdump.rs (naga::Module -> IR) and harness/src/facts.rs (real Rust text -> facts): a wrong reader can hide a difference",
    "correspondence is differential testing: it only sees the inputs generated in this run",
    "naga 24.0.0 front end / validator (produce the modules the theorems quantify over)",
]


def q_opts(quick, thorough):
    return lambda tier: quick if tier == "quick" else thorough


PROPS = {}

PROPS["C11"] = dict(
    lean_modules=["WgslVerif.Props.C11"],
    theorems=["WgslVerif.C11_dup", "WgslVerif.C11_gap", "WgslVerif.C11_ok", "WgslVerif.C11_ok_content",
              "WgslVerif.C11_total", "WgslVerif.C11_exec", "WgslVerif.firstClash_none", "WgslVerif.firstClash_some",
              "WgslVerif.denseB_iff"],
    streams=lambda tier, seed: (
        [("fixtures",), ("c11", 3, 2, 3), ("c11rand", seed, 400), ("gen", "bindings", seed, 200)] if tier == "quick" else
        [("fixtures",), ("c11", 3, 3, 4), ("c11", 4, 4, 3), ("c11rand", seed, 5000), ("gen", "bindings", seed, 3000)]),
    # validation off / on (option index bit layout: see harness/src/run.rs Opts::from_index)
    opts=q_opts([0, 48], [0, 48, 21, 90]),
    rule="cases: repo fixtures + every sequence (ordered, with repetition) of (@group,@binding) pairs over a small grid "
         "(bounded-exhaustive) + random multisets incl. u32 extremes + structured generator profile 'bindings'; "
         "non-trivial = module parsed and the run was comparable (not pre-empted by the validator / a later panic); "
         "distinct = distinct WGSL source text",
    trusted_base=COMMON_TRUSTED + ["u32 group/binding indices modelled as Nat; `as usize` exact on 64-bit targets"],
    assumptions=["bound variables are processed in arena (= declaration) order (checked by correspondence)",
                 "with validation on, a validator error may pre-empt the dedicated errors (allowed by the property; counted as skipped)"],
)
