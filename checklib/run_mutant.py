#!/usr/bin/env python3
"""run_mutant.py <patch.diff> <prop> [<prop>...]: apply a seeded change to /repo, run the quick checks, undo it.
Prints per property: exit code and VIOLATION / KNOWN-FINDING lines. Never leaves /repo modified."""
import subprocess, sys, os
patch = os.path.abspath(sys.argv[1]); props = sys.argv[2:]
tier = os.environ.get("MUT_TIER", "quick")
def sh(cmd, **kw): return subprocess.run(cmd, stdout=subprocess.PIPE, stderr=subprocess.STDOUT, text=True, **kw)
st = sh(["git", "-C", "/repo", "status", "--porcelain"]).stdout.strip()
if st: print("REPO NOT CLEAN:", st); sys.exit(2)
a = sh(["git", "-C", "/repo", "apply", patch])
if a.returncode != 0:
    print("APPLY FAILED:", a.stdout); sh(["git", "-C", "/repo", "reset", "-q", "--hard", "HEAD"]); sys.exit(2)
try:
    for p in props:
        r = sh(["/verif/check", p, "--tier", tier], cwd="/verif")
        lines = [l for l in r.stdout.split("\n") if l.startswith(("VIOLATION", "KNOWN-FINDING", "OK", "INFRA"))]
        lines.sort(key=lambda l: 0 if l.startswith("VIOLATION") else 1)
        lines = [l if l.startswith("VIOLATION") else l[:90] for l in lines]
        print(f"[{p}] rc={r.returncode}", " || ".join(lines)[:900])
finally:
    sh(["git", "-C", "/repo", "reset", "-q", "--hard", "HEAD"])
    st = sh(["git", "-C", "/repo", "status", "--porcelain"]).stdout.strip()
    if st: print("WARNING repo not clean after undo:", st)
