#!/usr/bin/env python3
"""summarize_harmless.py: seeded_pending/detect_harmless.log -> seeded/HARMLESS.md (+ copies the patches to seeded/harmless/)."""
import json, os, re, shutil
V = "/verif"
logs = [os.path.join(V, "seeded_pending", n) for n in ("detect_harmless.log", "detect_harmless2.log", "detect_harmless_final.log")]
rows, cur = [], None
import itertools
byhid = {}
for l in itertools.chain.from_iterable(open(x) for x in logs if os.path.exists(x)):
    m = re.match(r"=== (\S+) own=", l)
    if m:
        cur = dict(dir=m.group(1), quiet=[], nfif=[], alarm=[], infra=[])
        if m.group(1) in byhid:          # a later log replaces the earlier entry of the same rewrite
            rows[byhid[m.group(1)]] = cur
        else:
            byhid[m.group(1)] = len(rows)
            rows.append(cur)
        continue
    m = re.match(r"\[(C\d\d)\] rc=(\d+) ?(.*)", l)
    if m and cur:
        p, rc, text = m.group(1), int(m.group(2)), m.group(3)
        vs = [v for v in text.split(" || ") if v.startswith("VIOLATION")]
        if rc == 0:
            cur["quiet"].append(p)
        elif rc == 1 and vs and all("no-failing-input-found" in v for v in vs):
            cur["nfif"].append(p)
        elif rc == 1:
            cur["alarm"].append(p)
        else:
            cur["infra"].append(p)
out = os.path.join(V, "seeded", "harmless")
os.makedirs(out, exist_ok=True)
with open(os.path.join(V, "seeded", "HARMLESS.md"), "w") as f:
    f.write("# Property-preserving rewrites and what the checks say about them\n\n"
            "Twenty-four rewrites by eight sub-agents (H1-H4: internal refactorings with byte-identical output; text changes no property cares about; robustness / "
            "performance clean-ups; equivalent restructurings. H5-H8: generated-text changes in the bind group / entry / compute modules; refactorings of the "
            "traversals; restructuring of the formatter invocation; equivalent rewrites of option handling), each applied to a scratch worktree and run against "
            "the 18 fast quick checks with the committed machinery (checklib/psweep.py --props all-fast). `quiet` = exit 0; `correspondence` = the check reports `VIOLATION .. no-failing-input-found` because the rewrite changed "
            "a fact the model pins while the property's own predicate still holds on every explored input (the protocol for a broken correspondence); "
            "`ALARM` = a violation with a failing input - would be a false alarm.\n\n")
    f.write("| rewrite | what | quiet | correspondence only | ALARM |\n|---|---|---|---|---|\n")
    for r in rows:
        d = os.path.join(V, r["dir"])
        hid = os.path.basename(d)
        meta = {}
        try:
            meta = json.load(open(os.path.join(d, "meta.json")))
        except Exception:
            pass
        os.makedirs(os.path.join(out, hid), exist_ok=True)
        for fn in ("patch.diff", "meta.json"):
            if os.path.exists(os.path.join(d, fn)):
                shutil.copy(os.path.join(d, fn), os.path.join(out, hid, fn))
        f.write(f"| {hid} | {(meta.get('summary', '') or '').replace(chr(10), ' ')[:160]} | {len(r['quiet'])} of {len(r['quiet']) + len(r['nfif']) + len(r['alarm']) + len(r['infra'])} | {' '.join(r['nfif']) or '-'} | {' '.join(r['alarm'] + [x + '(infra)' for x in r['infra']]) or '-'} |\n")
print(open(os.path.join(V, "seeded", "HARMLESS.md")).read())
