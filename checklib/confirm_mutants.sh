#!/bin/bash
# confirm_mutants.sh <dir with Cxx/n/{patch.diff,demo.rs}> ... : confirms each seeded change in a scratch worktree of /repo HEAD:
#   demo passes on pristine; with the patch: workspace builds, existing suite passes, demo fails.
# Appends one line per mutant to /verif/seeded_pending/confirm.log
WT=/tmp/mut/confirm
if [ ! -d $WT ]; then git -C /repo worktree add -q --detach $WT HEAD; fi
git -C $WT reset -q --hard; git -C $WT checkout -q --detach $(git -C /repo rev-parse HEAD)
export CARGO_NET_OFFLINE=true
for d in "$@"; do
  d=$(realpath $d)
  id=$(echo $d | sed 's#.*/\(C[0-9][0-9][a-z0-9]*\)/\([0-9]*\)/*$#\1_\2#')
  patch=$d/patch.diff; [ -f $d/patch.ported.diff ] && patch=$d/patch.ported.diff
  git -C $WT reset -q --hard; git -C $WT clean -fdq wgsl_to_wgpu/tests
  cp $d/demo.rs $WT/wgsl_to_wgpu/tests/demo_$id.rs
  (cd $WT && cargo test -p wgsl_to_wgpu --test demo_$id --offline >/tmp/mut/confirm_$id.pre 2>&1); pre=$?
  if ! git -C $WT apply $patch 2>/tmp/mut/confirm_$id.apply; then echo "$id APPLY-FAILED" >> /verif/seeded_pending/confirm.log; continue; fi
  (cd $WT && cargo test --workspace --offline --no-fail-fast >/tmp/mut/confirm_$id.post 2>&1); post=$?
  # test targets other than the demo that failed (cargo prints one `error: test failed, to rerun pass ..` line per failing target)
  failed=$(grep -E "^error: test failed" /tmp/mut/confirm_$id.post | grep -vc "demo_$id")
  demofail=$(grep -c "error: test failed, to rerun pass .*--test demo_$id" /tmp/mut/confirm_$id.post)
  builderr=$(grep -c "^error\[" /tmp/mut/confirm_$id.post)
  echo "$id pre_rc=$pre post_rc=$post other_tests_failed=$failed demo_failed=$demofail build_errors=$builderr patch=$(basename $patch)" >> /verif/seeded_pending/confirm.log
done
git -C $WT reset -q --hard; git -C $WT clean -fdq wgsl_to_wgpu/tests
