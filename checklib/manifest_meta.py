HOOK_COMMITS = []
NOT_APPLICABLE = {}
META = {}
META["C11"] = dict(
    text="Kernel-checked theorems (C11_exec, C11_dup, C11_gap, C11_ok, C11_ok_content, C11_total) state that the model of "
         "get_bind_group_data returns the duplicate-binding error exactly for the first repeated (@group,@binding) pair in declaration order, "
         "the non-consecutive error exactly when pairs are distinct and groups are not 0..n-1, and otherwise a map with keys 0..n-1 whose group g "
         "holds exactly the variables declared in group g, in order -- for every list of bindings, unbounded indices. The model is tied to /repo by "
         "running the real generator on bounded-exhaustive and random binding sequences and comparing outcome, error payload and per-group (index, field) lists.",
    design_ref="DESIGN.md section 5 (C11)",
    note="Trusts: Lean kernel; the IR dumper and the syn fact extractor; that globals are visited in arena order (checked by correspondence); "
         "u32 as Nat. With validation on, validator pre-emption is allowed by the property and counted.",
    technique="Lean 4 proof over list model + differential correspondence with the real generator",
)
HOOK_COMMITS.append("dba7c8f")
META["C03"] = dict(
    text="Kernel-checked theorems C03_visibility / C03_present / C03_unreached_none / C03_entryStages: for every module satisfying CallsEarlier, the stage "
         "set the (memoised) traversal model computes for a variable contains stage g iff an entry point of stage g statically uses the variable "
         "(Occurs over all block-carrying statements, call results in expressions, reflexive-transitive closure over helper functions), and the map has no "
         "entry iff nobody reaches it (NONE / entry-stage fallback). Unbounded call-graph shape and depth, by induction over fuel and the nested statement type. "
         "The model is tied to /repo by comparing, for every generated shader, each emitted binding's evaluated visibility and PUSH_CONSTANT_STAGES with the model's.",
    design_ref="DESIGN.md section 5 (C03)",
    note="Trusts: Lean kernel; IR dumper and syn fact extractor incl. its stage-expression evaluator; CallsEarlier is checked on every dumped module; "
         "'static access' is read at naga-IR level. quote_shader_stages is covered by evaluating the emitted expression.",
    technique="Lean 4 proof (memoised DFS = reachability, structural induction over nested statements) + differential correspondence",
)
META["C20"] = dict(
    text="Kernel-checked bounds on the traversal model's own step counters: update_stages invocations <= entries*(1+functions) (C20_stage_fn_visits), statements walked "
         "<= entries*(maxEntryBody + maxBody*functions) (C20_stage_stmt_visits), for every call graph satisfying CallsEarlier, any depth; Legacy.chain_blowup proves the "
         "un-memoised traversal makes 2^(n+1)-1 invocations on a chain (the defect that was repaired). cfg-guarded hooks count the same events in the real code and the "
         "check demands EQUALITY of the three counters with the model on every case, plus the proved bounds and a wall-clock budget on chain/diamond/fan-out/nested "
         "families up to depth 64 run under a hard timeout. Partial: wall-clock is measured, not proved; the bound on add_types_recursive calls is checked on real counts, its proof is in Props/C20Types when present.",
    design_ref="DESIGN.md section 5 (C20)",
    note="Trusts: hook counters count exactly the modelled calls; each step is O(log n) container work; timing thresholds are >= 20x observed and never decide alone.",
    technique="Lean 4 proof of step-count bounds + hook-counter equality with the real code + timed deterministic families",
)
META["C08"] = dict(
    text="Kernel-checked: C08 (the emitted struct names are, in arena order, exactly the names of the struct types that pass the filter), structWanted_iff + globalVariableTypes_mem "
         "(the filter is equivalent to: reachable from a module-scope variable type through members/arrays/pointers/binding arrays -- memoised DFS = reachability, any nesting depth -- "
         "or entry-point parameter type that is not an entry-point result type), C08_mem, C08_nodup (once each). The model is tied to /repo by comparing the emitted struct name list "
         "with the model's and with the specification on every generated shader.",
    design_ref="DESIGN.md section 5 (C08)",
    note="Trusts: Lean kernel; IR dumper, fact extractor; TypeArenaOk is checked on every dumped module.",
    technique="Lean 4 proof (memoised DFS over the type graph = reachability) + differential correspondence",
)
META["C09"] = dict(
    text="Kernel-checked: deriveListB_table decides the property's decision table (DerivesOk: membership of each derive, repr(C), assertion presence, no unknown/duplicate derives) for all 64 "
         "combinations of the four switches x host-shareable x runtime-array; C09 lifts it to every struct of every successful generation; C09_noninterference: two generations under "
         "different options agree on every section other than the structs; C09_panics: the runtime-array panics occur exactly in the documented combinations. Tied to /repo by comparing "
         "derive lists, repr and assertions under all 48 (96 thorough) option sets and evaluating DerivesOk on the real output.",
    design_ref="DESIGN.md section 5 (C09)",
    note="Trusts: Lean kernel; IR dumper, fact extractor (derive lists read as paths). Host-shareability is the C08 closure.",
    technique="Lean 4 proof (exhaustive decision table by kernel evaluation + structural lemmas) + differential correspondence over all option sets",
)
