HOOK_COMMITS = []
NOT_APPLICABLE = {}
META = {}
META["C11"] = dict(
    text="Kernel-checked theorems (C11_exec, C11_dup, C11_gap, C11_ok, C11_ok_content, C11_total) state that the model of "
         "get_bind_group_data returns the duplicate-binding error exactly for the first repeated (@group,@binding) pair in declaration order, "
         "the non-consecutive error exactly when pairs are distinct and groups are not 0..n-1, and otherwise a map with keys 0..n-1 whose group g "
         "holds exactly the variables declared in group g, in order -- for every list of bindings, unbounded indices. The model is tied to /repo by "
         "running the real generator on bounded-exhaustive and random binding sequences and comparing outcome, error payload and per-group (index, field) lists.",
    design_ref="DESIGN.md section 5 (C11)",
    note="Trusts: Lean kernel; the IR dumper and the syn fact extractor; that globals are visited in arena order (checked by correspondence); "
         "u32 as Nat. With validation on, validator pre-emption is allowed by the property and counted.",
    technique="Lean 4 proof over list model + differential correspondence with the real generator",
)
