HOOK_COMMITS = []
NOT_APPLICABLE = {}
META = {}
META["C11"] = dict(
    text="Kernel-checked theorems (C11_exec, C11_dup, C11_gap, C11_ok, C11_ok_content, C11_total) state that the model of "
         "get_bind_group_data returns the duplicate-binding error exactly for the first repeated (@group,@binding) pair in declaration order, "
         "the non-consecutive error exactly when pairs are distinct and groups are not 0..n-1, and otherwise a map with keys 0..n-1 whose group g "
         "holds exactly the variables declared in group g, in order -- for every list of bindings, unbounded indices. The model is tied to /repo by "
         "running the real generator on bounded-exhaustive and random binding sequences and comparing outcome, error payload and per-group (index, field) lists.",
    design_ref="DESIGN.md section 5 (C11)",
    note="Trusts: Lean kernel; the IR dumper and the syn fact extractor; that globals are visited in arena order (checked by correspondence); "
         "u32 as Nat. With validation on, validator pre-emption is allowed by the property and counted.",
    technique="Lean 4 proof over list model + differential correspondence with the real generator",
)
HOOK_COMMITS.append("dba7c8f")
META["C03"] = dict(
    text="Kernel-checked theorems C03_visibility / C03_present / C03_unreached_none / C03_entryStages: for every module satisfying CallsEarlier, the stage "
         "set the (memoised) traversal model computes for a variable contains stage g iff an entry point of stage g statically uses the variable "
         "(Occurs over all block-carrying statements, call results in expressions, reflexive-transitive closure over helper functions), and the map has no "
         "entry iff nobody reaches it (NONE / entry-stage fallback). Unbounded call-graph shape and depth, by induction over fuel and the nested statement type. "
         "The model is tied to /repo by comparing, for every generated shader, each emitted binding's evaluated visibility and PUSH_CONSTANT_STAGES with the model's.",
    design_ref="DESIGN.md section 5 (C03)",
    note="Trusts: Lean kernel; IR dumper and syn fact extractor incl. its stage-expression evaluator; CallsEarlier is checked on every dumped module; "
         "'static access' is read at naga-IR level. quote_shader_stages is covered by evaluating the emitted expression.",
    technique="Lean 4 proof (memoised DFS = reachability, structural induction over nested statements) + differential correspondence",
)
META["C20"] = dict(
    text="Kernel-checked bounds on the traversal model's own step counters: update_stages invocations <= entries*(1+functions) (C20_stage_fn_visits), statements walked "
         "<= entries*(maxEntryBody + maxBody*functions) (C20_stage_stmt_visits), for every call graph satisfying CallsEarlier, any depth; Legacy.chain_blowup proves the "
         "un-memoised traversal makes 2^(n+1)-1 invocations on a chain (the defect that was repaired). cfg-guarded hooks count the same events in the real code and the "
         "check demands EQUALITY of the three counters with the model on every case, plus the proved bounds and a wall-clock budget on chain / diamond / fan-out / nested-struct / else-if / "
         "nested-switch / override-ladder families run under a hard timeout, and on > 64 KiB outputs with the real formatter on. Partial: wall-clock is measured, not proved; the bound on add_types_recursive calls is checked on real counts, its proof is in Props/C20Types when present.",
    design_ref="DESIGN.md section 5 (C20)",
    note="Trusts: hook counters count exactly the modelled calls; each step is O(log n) container work; timing thresholds are >= 20x observed and never decide alone.",
    technique="Lean 4 proof of step-count bounds + hook-counter equality with the real code + timed deterministic families",
)
META["C08"] = dict(
    text="Kernel-checked: C08 (the emitted struct names are, in arena order, exactly the names of the struct types that pass the filter), structWanted_iff + globalVariableTypes_mem "
         "(the filter is equivalent to: reachable from a module-scope variable type through members/arrays/pointers/binding arrays -- memoised DFS = reachability, any nesting depth -- "
         "or entry-point parameter type that is not an entry-point result type), C08_mem, C08_nodup (once each). The model is tied to /repo by comparing the emitted struct name list "
         "with the model's and with the specification on every generated shader.",
    design_ref="DESIGN.md section 5 (C08)",
    note="Trusts: Lean kernel; IR dumper, fact extractor; TypeArenaOk is checked on every dumped module.",
    technique="Lean 4 proof (memoised DFS over the type graph = reachability) + differential correspondence",
)
META["C09"] = dict(
    text="Kernel-checked: deriveListB_table decides the property's decision table (DerivesOk: membership of each derive, repr(C), assertion presence, no unknown/duplicate derives) for all 64 "
         "combinations of the four switches x host-shareable x runtime-array; C09 lifts it to every struct of every successful generation; C09_noninterference: two generations under "
         "different options agree on every section other than the structs; C09_panics: the runtime-array panics occur exactly in the documented combinations. Tied to /repo by comparing "
         "derive lists, repr and assertions under all 48 (96 thorough) option sets and evaluating DerivesOk on the real output.",
    design_ref="DESIGN.md section 5 (C09)",
    note="Trusts: Lean kernel; IR dumper, fact extractor (derive lists read as paths). Host-shareability is the C08 closure.",
    technique="Lean 4 proof (exhaustive decision table by kernel evaluation + structural lemmas) + differential correspondence over all option sets",
)
META["C04"] = dict(
    text="Kernel-checked C04: for every successful generation the output satisfies C04Ok -- groups numbered 0..n-1; for each group the resource struct has exactly one field per WGSL "
         "variable of that group (declaration order, named after it, typed by resource kind), from_bindings passes field x to the @binding index of variable x with the matching "
         "BindingResource constructor, the layout has exactly those indices, get_bind_group_layout/from_bindings/set refer to the group's own descriptor and index; set_bind_groups and "
         "BindGroups::set call each group once in index order; the three pass impls forward (index, bind_group, offsets); the pipeline layout lists groups in index order. The spec is "
         "stated over `varsOf m N` (filter by @group), not over the sorted map (C11_ok_content links them). The same decidable predicate is evaluated on the real output.",
    design_ref="DESIGN.md section 5 (C04)",
    note="Trusts: Lean kernel; IR dumper and fact extractor (from_bindings/set/set_bind_groups bodies are parsed structurally; trait text literally).",
    technique="Lean 4 proof over the generator model + decidable spec evaluated on real output + differential correspondence",
)
META["C12"] = dict(
    text="Kernel-checked C12 (C12Ok: struct exists iff overrides exist; one field per override of the matching scalar type, Option exactly with a default; required/optional entries keyed by "
         "naga's key -- decimal @id else name -- from the override's own field with bool->1/0 or cast conversion; vertex/fragment helpers pass the map iff overrides exist) and "
         "C12_required_resolves (with pairwise distinct naga keys, the map entry found under an override's key is the value converted from its own field; parametric in the value type, so "
         "independent of floating point). Evaluated on real output; tied by correspondence of the overrides section. The numeric half is executed: OverrideConstants::constants() of the real "
         "module (compiled by rustc) is run on 9 finite + 3 non-finite assignments per shader (extremes of i32/u32/f32, -0.0, subnormals, None/Some) and the map is resolved by the REAL naga "
         "process_overrides: keys = exactly the supplied overrides, accepted, every supplied value is the literal the resolved module holds. Open known finding: non-finite f32 values.",
    design_ref="DESIGN.md section 5 (C12), 13.7",
    note="Trusts: nagaKey transcription (validated by the executed maps); numeric `as f64` round trip is observed by execution, not proved; OverridesScalar checked per module.",
    technique="Lean 4 proof + decidable spec on real output + differential correspondence + executed map through the real naga process_overrides",
)
META["C13"] = dict(
    text="Kernel-checked C13 (no range and no constant without a push-constant variable; otherwise exactly one range 0..TypeInner::size referring to PUSH_CONSTANT_STAGES whose value is "
         "pushStagesSpec) and C13_stages_used / C13_stages_unused, which characterise that stage set through C03 (stages statically using the variable, or all stages with an entry point "
         "when nothing uses it). Evaluated on the real output (plus size % 4 == 0); tied by correspondence of push-stages / push-ranges.",
    design_ref="DESIGN.md section 5 (C13)",
    note="Trusts: Ty.size = naga's TypeInner::size = WGSL byte size (validated against Ext.WgslLayout by the C05 check); CallsEarlier as in C03.",
    technique="Lean 4 proof (corollary of the C03 reachability theorem) + decidable spec on real output + correspondence",
)
META["C14"] = dict(
    text="Kernel-checked C14 (C14Ok: ENTRY_<UPPER> constants carry the exact names; compute entries get <UPPER>_WORKGROUP_SIZE = workgroup size and create_<name>_pipeline targeting the "
         "entry by name; each fragment helper uses its own constant and asks for targetsNeeded = largest written @location + 1 targets (fragmentTargetCount_eq); each vertex helper's N and "
         "buffer count equal its number of struct parameters; forwarders are the fixed templates). C14_legacy_counterexample documents the repaired defect (counting locations). "
         "The helpers of the real module are also RUN (rustc-compiled): returned entry_point string, number of targets / buffers.",
    design_ref="DESIGN.md section 5 (C14), 13.7",
    note="Trusts: to_uppercase oracle; forwarder templates compared as normalised token text.",
    technique="Lean 4 proof + decidable spec on real output + differential correspondence",
)
META["C15"] = dict(
    text="Kernel-checked C15 (the exported constants are exactly m.consts.filterMap specConst: named scalar-literal constants in order, declared Rust type = the literal's WGSL type, value = the "
         "literal's value as integer / IEEE bit pattern) and C15_skip (nothing else is exported). Partial: the decimal text of float literals (Rust Display -> rustc) is outside the model; the "
         "extractor re-parses each emitted literal with Rust's own parser and the check compares bit patterns incl. -0.0, extremes, subnormals.",
    design_ref="DESIGN.md section 5 (C15)",
    note="Trusts: Rust's float Display/parse round trip (checked per literal by the extractor), constant evaluation by naga.",
    technique="Lean 4 proof + decidable spec on real output (bit-exact literal re-parse) + correspondence",
)
META["C02"] = dict(
    text="Kernel-checked C02_partial: for every module satisfying resourceShapes and without a multisampled float texture, every layout entry of a successful generation is accepted by "
         "Ext.WgpuBinding.checkBindingUse for the variable at its @group/@binding (uniform vs storage and read-only-ness, view dimension / arrayness, sample kind, multisampling, depth, storage "
         "format and access incl. atomic, sampler comparison-ness) and by the per-entry rules of create_bind_group_layout; C02_counterexample proves the excluded case fails (recorded finding, "
         "pinned by the repo's own snapshot). Ext.WgpuBinding is a transcription of wgpu-core 24.0.5; the check ALSO hands every generated layout to the REAL "
         "wgpu_core::validation::Interface::check_stage (Provided and Derived mode, no GPU) and treats its rejections as property failures. Visibility is C03. "
         "'Taken in pipeline-layout order' is the kernel-checked C02_pipeline (the pipeline layout holds, at index g, the layout of group g for every resource variable's @group); the "
         "oracle presents each generated layout at the position the real create_pipeline_layout lists it. 'Is visible to that stage' is the kernel-checked C02_visible (the entry at a variable's @group/@binding is "
         "visible to every stage with an entry point statically using the variable; from C03_visibility), evaluated on the real entries by the driver.",
    design_ref="DESIGN.md section 5 (C02), 13.15",
    note="Trusts: the transcription (validated per case against the real check_stage), resourceShapes (checked per validated module), the name identity naga StorageFormat = wgpu TextureFormat "
         "(checked by the oracle on every format). Open known findings: multisampled float textures, integer textures gathered through a filtering sampler.",
    technique="Lean 4 proof against a transcription of wgpu-core + the real wgpu-core check_stage as oracle + differential correspondence",
)
META["C05"] = dict(
    text="Kernel-checked C05 / C05_complete (with bytemuck host-shareable on, a host-shareable struct carries exactly the size check and one offset check per emitted field, with naga's WGSL "
         "numbers; all other structs carry none) and C05_sound (for ANY assignment of sizes/offsets rustc may choose: if all emitted checks pass, the struct's size and every checked field offset "
         "are the WGSL ones -- no model of rustc needed). That naga's numbers are the WGSL rules is hypothesis layoutOK, evaluated with Ext.WgslLayout on every validated module.",
    design_ref="DESIGN.md section 5 (C05)",
    note="Trusts: Ext.WgslLayout (validated against naga's recorded layouts per module), host-shareability = C08 closure; whether the assertions pass is rustc's decision (batch harness).",
    technique="Lean 4 proof + decidable spec on real output + layout-rule validation against naga + correspondence",
)
META["C06"] = dict(
    text="Kernel-checked C06 / C06_fields (every emitted struct lists the WGSL struct's non-builtin members in declaration order under the same names, runtime flag exactly on a trailing "
         "runtime array) and C06_denote (for all three representations, every vector size/kind/width, all 9 matrix shapes, arrays at any nesting, structs, atomics: the emitted Rust type "
         "denotes the same scalar kind, width and dimension counts as the WGSL type). The specification (Shape / denote / shapeOf / fieldSpec) does not mention the generator's type mapping.",
    design_ref="DESIGN.md section 5 (C06)",
    note="Trusts: matrix dimension convention [R, C] pinned by the repo's fixtures; matrices are float (naga).",
    technique="Lean 4 proof (induction over the type DAG, exhaustive leaf tables) + decidable spec on real output + correspondence",
)
META["C16"] = dict(
    text="Kernel-checked C16_literal_roundtrip (for every source string and every way of escaping it that the Rust lexer allows, the literal token evaluates to exactly the source -- "
         "Ext.RustLex state machine, all strings, all escape choices), C16 (literal value = source / include_str! of exactly the path; create_shader_module template) and "
         "C16_include_only_source (include and embedded variants differ only in SOURCE). Partial: that prettyplease/rustfmt keep literal tokens is observed per case: the real token is "
         "unescaped by the Lean RustLex AND by syn and both compared with the source; and the SOURCE constant of the compiled real module is read back at run time (length + hash = input). Also run: the include variant in a directory where different files exist at the "
         "include paths, a > 64 KiB source through the formatter-fallback path, and 6 concurrent threads on different large shaders with rustfmt on (each result must carry its own input).",
    design_ref="DESIGN.md section 5 (C16), 13.7",
    note="Trusts: Ext.RustLex transcription (validated against syn::LitStr::value on every literal); formatter behaviour observed.",
    technique="Lean 4 proof (round trip for all strings and escapings) + per-case unescape of the real literal + correspondence",
)
META["C17"] = dict(
    text="Kernel-checked, with the front end and validator as parameters: C17_parse (a rejected source yields the parse error carrying the front end's diagnostic, before anything that can "
         "panic), C17_validate, C17_gate (for sources that pass, validation on = validation off; gen_validate_irrelevant), C17_total. Partial: naga and codespan are oracles; the corrupt harness "
         "compares the real calls with naga called directly on ~1300 corrupted sources per run (class, message, all four emit_* renderers incl. odd paths, no panic); corruption kinds include defects only the validator's constants / override pass sees, > 8 KiB lines of multi-byte "
         "characters, errors at the very end of a newline-terminated source, deep parentheses and bracket-filled comments; a source naga's front end rejects must come back as the parse error in every check's correspondence.",
    design_ref="DESIGN.md section 5 (C17)",
    note="Trusts: naga's parser/validator/codespan; the model of the two gates is tied to the code by the corruption stream and the validation on/off correspondence.",
    technique="Lean 4 proof over a parametric model + differential run against naga on corrupted sources",
)
META["C18"] = dict(
    text="Kernel-checked C18_set_order / C18_perm: the struct section does not depend on the order (or multiplicity) in which the HashSet of variable types is enumerated -- only on "
         "membership; everything else in the model is a Lean function of (module, options, source, path). Partial: processes, threads and hash seeds are runtime: the determinism harness "
         "re-runs every case in-process, in 4 children with different cwd/env/hash seeds/orders and on 16 threads and compares bytes; strace shows no file or process syscalls during generation; a child may print nothing but its result lines; calls that end in panics and errors (provoke stream) take part; 6 threads on "
         "different > 64 KiB shaders and 4 x cores threads with rustfmt on; a sequence harness regenerates a reference shader after every case; every other pipeline of EVERY check generates under a "
         "build-script environment. "
         "The whole-output correspondence ties the model to the code.",
    design_ref="DESIGN.md section 5 (C18)",
    note="Trusts: environment reads are not syscalls (covered by differing-environment runs only); rustfmt=true delegates to whatever `rustfmt` is on PATH.",
    technique="Lean 4 proof (order independence) + multi-process / multi-thread byte comparison + strace",
)
META["C19"] = dict(
    text="Kernel-checked C19 = C19_faults (every listed fault -- absent, exit != 0 with or without reading, killed, nothing printed, invalid UTF-8 -- returns the unformatted program), "
         "C19_ok, C19_total (never panics) over the spawn/write/wait state machine ProcEnv; C19_legacy_counterexample documents the repaired defect. Partial: which OS answers a fault produces, "
         "hangs, and token preservation by the formatters are observed by the faults harness (stub formatters, inputs below/above the pipe buffer, hard timeout) and by rustfmt-on vs -off "
         "token comparison (default options and all derive switches on, three representations); faults include repeated failures in one process, a long failed run followed by a working one, a formatter "
         "that closes its stdout and fails later, RUSTFMT set to a path / empty / blank / a command line; open known finding: prettyplease drops an empty statement that rustfmt keeps.",
    design_ref="DESIGN.md section 5 (C19)",
    note="Trusts: ProcEnv mapping (OS pipe semantics) established by stubs; timeouts 30 s vs ~2 s observed.",
    technique="Lean 4 proof over a process-interaction state machine + fault injection with stub formatters",
)
META["C07"] = dict(
    text="Kernel-checked C07_structs (every generated `impl S` block: S is a struct of the module; exactly one attribute per @location member, in member order, carrying that member's "
         "location, the offset_of! of the field of the same name, and a format whose wgpu numeric type equals the member type's scalar kind, width and component count; count = number of "
         "attributes; stride = size_of::<S>(); builtins contribute none), C07_format (format table vs WGSL type, every accepted type), C07_entries (one buffer per struct parameter in "
         "parameter order, own step-mode parameter each), C07_impls_nodup (one block per struct: sort + dedup gives pairwise distinct names), getVertexInputStructs_mem, and C07_buffer: "
         "for the #[repr(C)] layout of the emitted struct (Ext.ReprC: sizes / alignments of the emitted field types in all three representations, glam's 16-aligned Vec4 included) the buffer "
         "layout passes wgpu-core's vertex-buffer rules (Ext.WgpuVertex: stride % 4, attribute inside the stride, offset % min(size,4)) under any device limit the struct fits in. "
         "Evaluated on real output; vertex-input validation by the REAL wgpu-core check_stage; Ext.ReprC validated on every run against offset_of!/size_of evaluated by rustc on the real "
         "modules, and the <entry>_entry helpers are RUN (each step-mode parameter reaches its own buffer). Open known finding: bare @location parameters.",
    design_ref="DESIGN.md section 5 (C07), 13.7",
    note="Trusts: WgpuVertex.formatInfo / bufferOk and Ext.ReprC transcriptions (validated against check_stage and rustc respectively); device limits are hypotheses.",
    technique="Lean 4 proof + decidable spec on real output + real wgpu-core check_stage and rustc-executed generated code as oracles",
)
META["C10"] = dict(
    text="Kernel-checked C10_leaf (for every glam-representable member type -- f32/i32/u32 scalars and vectors, square float matrices, fixed arrays of those at any depth -- the (alignment, size) "
         "encase 0.10 assigns to the emitted Rust type equals the WGSL (AlignOf, SizeOf): Ext.Encase vs Ext.WgslLayout) and C10_struct (nested structs, all depths: for every struct type reachable "
         "from a variable whose members are such leaves, fixed arrays and nested structs of them, without builtin members and with the attribute-free WGSL layout recorded -- decidable predicate "
         "C10S.natural -- the struct is emitted, every field's encase metadata, with nested items looked up IN THE EMITTED OUTPUT, is the member's WGSL (AlignOf, SizeOf), the offsets encase's derive "
         "assigns are the WGSL offsets and its size is the WGSL size). encase's metadata is the fuel-free relation Encase.Meta (functional: Meta.det); the evaluator the check runs on real output, "
         "Encase.structMeta, is sound for it (structMeta_sound), whence C10_struct_exec / C10_struct_exec_offsets, whose conclusions the driver evaluates on the REAL structs of every struct in the "
         "domain (~1200 instances per quick run). The check ALSO writes every emitted ShaderType struct through the REAL encase::StorageBuffer with sentinel values and compares byte length and field "
         "offsets with (a) the Lean transcription -- agreement on every struct validates Ext.Encase -- and (b) naga's WGSL layout. Trailing runtime-sized arrays: C10_runtime (the last field is "
         "#[size(runtime)] Vec<e>, e's encase metadata is the element type's WGSL (AlignOf, SizeOf), so for every element count the written length Encase.runtimeLen is the WGSL size); lengths "
         "for 0/1/3 elements are measured with the real encase. "
         "Open known findings: @size/@align not forwarded, f64 unsupported by encase, builtin member dropped from dual-use structs.",
    design_ref="DESIGN.md section 5 (C10), 13.14",
    note="Trusts: Ext.Encase / Ext.WgslLayout transcriptions (validated per struct against real encase bytes and per module against naga).",
    technique="Lean 4 proof (induction over nesting depth) relative to transcriptions of encase and WGSL layout + conclusion evaluated on real output + real encase bytes as oracle",
)
META["C01"] = dict(
    text="Kernel-checked theorem C01_static: for every module and option set that meets four decidable WGSL-side conditions (namesBenignB: no WGSL name collides with a generated item, "
         "also through to_uppercase / to_snake; deriveBenignB: no bool under Pod / ShaderType, no f64 under ShaderType, no array longer than 32 under serde, no host-shareable struct of builtin members only under encase; shadowBenignB: no struct named like a "
         "crate or prelude type, no lower-case constant; vertexInputsEmittedB: a vertex input struct is not also an entry point's return type) and every successful generation on the prettyplease path, "
         "the executable static semantics Ext.RustStatic finds NOTHING in the generated module: no item / parameter / field defined twice, no shadowed crate or prelude name, every referenced item "
         "defined (field types, attribute tables and their fields, ENTRY_* constants, vertex_buffer_layout, OverrideConstants, group items), every derive satisfiable by every field type in all "
         "three representations (induction over the type DAG, rustType_leaf / rustType_named / named_ok), Pod with repr(C) + Copy + Zeroable, runtime-sized field last under encase, every literal "
         "of its declared type, no keyword identifier, no capturable constant. The excluded inputs are exactly the recorded finding classes, each with a kernel-evaluated counterexample. "
         "Partial because 'rustc accepts' itself is decided by rustc: Ext.RustStatic is a transcription, VALIDATED on every run against rustc both ways (a module rustc accepts must have no definite "
         "issue; every rejection must be explained by an issue): the check compiles the real generated modules (7 option sets quick, 13 thorough) against the real wgpu 24 / bytemuck / encase / glam / serde, "
         "recognising the permitted failures by their const-evaluation messages, and evaluates the theorem's conclusion on the REAL output of every module that meets the hypotheses. "
         "Recorded classes of rejected modules are known findings; any other rejection, any disagreement between Ext.RustStatic and rustc, and any model/implementation difference is a violation. "
         "The fixtures and two generator profiles are also compiled as the REAL rustfmt prints them (rustfmt on): a module rustc accepts from the prettyplease path must be accepted from the formatter path.",
    design_ref="DESIGN.md sections 5 (C01), 13.8, 13.17",
    note="Trusts: rustc as the judge; Ext.RustStatic (transcription of rustc's name resolution and of the derive macros' bounds for the emitted fragment, validated two-sidedly on ~1 800 (quick) / ~30 000 (thorough) "
         "real modules per run); nalgebra is not available offline (Nalgebra output is never compiled; its leaves count as implementing every trait); the rustfmt path is covered by C19.",
    technique="Lean 4 proof (static semantics of the emitted Rust fragment as an executable predicate; theorem over the generator model by induction over the type DAG and list plumbing) "
              "+ two-sided validation of that predicate against rustc on batches of real generated modules + whole-output correspondence",
)
