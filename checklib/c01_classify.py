"""C01: rustc's verdict on every real generated module, held against Ext.RustStatic (Lean) evaluated on the same module.

predictions: (case id, option index) -> list of (kind, class, what) from the driver's `C01S` tags
             kind 'rsD' = definite issue (rustc must reject), 'rsU' = outside the transcription's domain (rustc may go either way), 'rsOk'
modules:     (case id, option index) -> (verdict, msgs) with verdict in {'ok', 'permitted', 'syntax', 'reject'} and
             msgs = [(error code, message, source line)] as attributed to the module by harness `batch check`

How a rejected module is classified (the finding signature that `known_findings.json` may list):
  1. Ext.RustStatic has a DEFINITE issue: the signature is derived from the issue class (and, for an unsatisfiable derive, from the
     trait and the leaf type) - not from the wording of rustc's messages, which varies (non-ASCII identifiers, follow-up errors).
     rustc's rejection is thereby explained.
  2. only `unknown` issues (a constant that may be captured by an unhygienic binding, a prelude name shadowed): rustc's messages are
     arbitrary follow-ups; the signature is the capture / name-clash class.
  3. no issue at all: the rejection is NOT explained - `static#rustc-rejects-what-RustStatic-accepts` (a violation unless recorded;
     the message-derived class is quoted in the detail).
A module rustc ACCEPTS (or rejects only for a permitted reason) must have no definite issue - otherwise
`static#rustc-accepts-what-RustStatic-rejects` (the transcription is too strict: machinery, never a repo finding).
"""
import re


def derive_sig(what):
    # what = "<crate>::<Trait>:<leaf tag>:<Struct>.<field>"  (or "<Trait>:<leaf tag>:.." for the std derives)
    m = re.match(r"((?:bytemuck|encase|serde)::\w+|\w+):([^:]*):", what)
    trait, tag = (m.group(1), m.group(2)) if m else (what, "")
    if trait.startswith("serde::"):
        return "rustc#serde-array-longer-than-32" if tag.startswith("array-") else "rustc#derive-unsatisfiable"
    if tag == "bool" and trait in ("bytemuck::Pod", "encase::ShaderType"):
        return "rustc#bool-member-with-pod-or-shadertype"
    if trait == "encase::ShaderType" and (tag in ("f64", "i64", "u64", "i8", "u8", "i16", "u16") or tag.startswith("glam-D")):
        return "rustc#f64-with-encase"
    return "rustc#derive-unsatisfiable"


CLASS2SIG = {
    "dup-type-item": "rustc#name-clash-with-generated-item", "dup-value-item": "rustc#name-clash-with-generated-item",
    "dup-param": "rustc#name-clash-with-generated-item", "dup-field": "rustc#name-clash-with-generated-item",
    "dup-impl": "rustc#name-clash-with-generated-item", "dup-group-item": "rustc#name-clash-with-generated-item",
    "crate-shadowed": "rustc#struct-named-like-a-crate",
    "unresolved-vertex-struct": "rustc#vertex-input-struct-not-emitted",
    "keyword-ident": "rustc#syntax-error",
    "prelude-shadowed": "rustc#name-clash-with-generated-item",
    "const-may-be-captured": "rustc#lowercase-const-shadows-derive-local",
}


def sig_of_issue(cls, what):
    if cls == "derive-unsat":
        return derive_sig(what)
    if cls == "derive-shape" and what.startswith("ShaderType-on-empty-struct"):
        return "rustc#encase-derive-on-empty-struct"
    # unresolved-type, unresolved-entry-const, literal-type, derive-shape, ..: never expected on the unchanged tree
    return CLASS2SIG.get(cls, "static#" + cls)


def message_sigs(msgs, patterns):
    sigs = set()
    for code, msg, srcline in msgs:
        hit = next((sig for pat, sig in patterns if re.search(pat, msg)), None)
        if hit is None and re.search(r"cannot find type", msg) and re.match(r"\s*impl [^\s{]+ \{", srcline):
            hit = "rustc#vertex-input-struct-not-emitted"
        if hit:
            sigs.add(hit)
    return sigs


def analyse(pred, modules, patterns):
    """returns (counts, items) ; items: (signature, detail, case id, is_spec_failure)"""
    counts = {"agree-accept": 0, "agree-reject": 0, "accept-with-unknown-issue": 0, "reject-in-unknown-domain": 0, "no-prediction": 0}
    items = []
    for key, (verdict, msgs) in modules.items():
        cid, opt = key
        p = pred.get(key)
        first = "; ".join(f"{c} {m_} @ {l_}" for c, m_, l_ in msgs[:2])[:260]
        if p is None:
            counts["no-prediction"] += 1
            if verdict in ("reject", "syntax"):
                items.append(("static#no-prediction", f"option set {opt}: rustc rejects a module the driver gave no prediction for: {first}", cid, False))
            continue
        definite = [(c, w) for k, c, w in p if k == "rsD"]
        unknown = [(c, w) for k, c, w in p if k == "rsU"]
        if verdict in ("ok", "permitted"):
            if definite:
                items.append(("static#rustc-accepts-what-RustStatic-rejects",
                              f"option set {opt}: Ext.RustStatic reports {definite[0][0]} ({definite[0][1]}) but rustc accepts the module", cid, False))
            elif unknown:
                counts["accept-with-unknown-issue"] += 1
            else:
                counts["agree-accept"] += 1
            continue
        # rejected (or unparsable)
        if definite:
            counts["agree-reject"] += 1
            for sig in sorted({sig_of_issue(c, w) for c, w in definite}):
                c0, w0 = next((c, w) for c, w in definite if sig_of_issue(c, w) == sig)
                counts[sig] = counts.get(sig, 0) + 1
                items.append((sig, f"option set {opt}: rustc rejects the module ({first}); Ext.RustStatic: {c0} {w0}", cid, True))
        elif unknown:
            counts["reject-in-unknown-domain"] += 1
            for sig in sorted({sig_of_issue(c, w) for c, w in unknown}):
                counts[sig] = counts.get(sig, 0) + 1
                items.append((sig, f"option set {opt}: rustc rejects the module ({first}); Ext.RustStatic (outside its domain): {unknown[0][0]} {unknown[0][1]}", cid, True))
        else:
            msig = sorted(message_sigs(msgs, patterns))
            items.append(("static#rustc-rejects-what-RustStatic-accepts",
                          f"option set {opt}: rustc rejects a module Ext.RustStatic finds nothing wrong with{' (message class ' + msig[0] + ')' if msig else ''}: {first}", cid, True))
    return counts, items
