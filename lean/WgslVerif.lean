import WgslVerif.Sexp
import WgslVerif.IR
import WgslVerif.Decode
