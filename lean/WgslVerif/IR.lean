/-
The subset of `naga::Module` (naga 24) that wgsl_to_wgpu reads, as plain Lean data.
Handles are arena indices (`Nat`).  Two strings the generator obtains from library
functions Lean cannot reproduce (`str::to_uppercase`, `case::CaseExt::to_snake`) are
carried as data next to the name they derive from (`EntryPoint.upper`, `Ty.snake`).
-/
namespace WgslVerif

inductive ScalarKind | sint | uint | float | bool | abstractInt | abstractFloat
  deriving DecidableEq, Repr, Inhabited

structure Scalar where
  kind : ScalarKind
  width : Nat
  deriving DecidableEq, Repr, Inhabited

inductive VecSize | bi | tri | quad
  deriving DecidableEq, Repr, Inhabited

def VecSize.toNat : VecSize → Nat
  | .bi => 2 | .tri => 3 | .quad => 4

inductive ArraySize | const (n : Nat) | dynamic | pending
  deriving DecidableEq, Repr, Inhabited

inductive Binding
  | builtin (tag : String)
  | location (loc : Nat)
  deriving DecidableEq, Repr, Inhabited

structure Member where
  name : Option String
  ty : Nat
  binding : Option Binding
  offset : Nat
  deriving DecidableEq, Repr, Inhabited

/-- `naga::StorageAccess` bit set -/
structure Access where
  load : Bool
  store : Bool
  atomic : Bool
  deriving DecidableEq, Repr, Inhabited

inductive ImageDim | d1 | d2 | d3 | cube
  deriving DecidableEq, Repr, Inhabited

inductive ImageClass
  | sampled (k : ScalarKind) (multi : Bool)
  | depth (multi : Bool)
  | storage (fmt : String) (access : Access)   -- fmt = `{:?}` of naga::StorageFormat
  deriving DecidableEq, Repr, Inhabited

inductive TypeInner
  | scalar (s : Scalar)
  | vector (n : VecSize) (s : Scalar)
  | matrix (cols rows : VecSize) (s : Scalar)
  | atomic (s : Scalar)
  | pointer (base : Nat)
  | valuePointer
  | array (base : Nat) (size : ArraySize) (stride : Nat)
  | struct (members : List Member) (span : Nat)
  | image (dim : ImageDim) (arrayed : Bool) (cls : ImageClass)
  | sampler (comparison : Bool)
  | accel
  | rayQuery
  | bindingArray (base : Nat)
  deriving DecidableEq, Repr, Inhabited

structure Ty where
  name : Option String
  inner : TypeInner
  /-- `TypeInner::size(module.to_ctx())` -/
  size : Nat
  /-- `Layouter[handle].size` and `.alignment` -/
  laySize : Nat
  layAlign : Nat
  /-- `case::CaseExt::to_snake(name)` (oracle, only meaningful for named types) -/
  snake : String
  deriving DecidableEq, Repr, Inhabited

inductive Space
  | function | priv | workgroup | uniform | storage (a : Access) | handle | pushConstant
  deriving DecidableEq, Repr, Inhabited

structure Global where
  name : Option String
  space : Space
  binding : Option (Nat × Nat)    -- (group, binding)
  ty : Nat
  deriving DecidableEq, Repr, Inhabited

/-- Statements: only the shape the stage walker looks at. `other` keeps the variant tag. -/
inductive Stmt
  | call (f : Nat) (hasResult : Bool)
  | block (b : List Stmt)
  | ifs (acc rej : List Stmt)
  | switch (cases : List (List Stmt))
  | loop (body cont : List Stmt)
  | other (tag : String)
  deriving Repr, Inhabited

/-- Expressions the walker distinguishes; all other variants are `other`. -/
inductive Expr
  | global (g : Nat)
  | callResult (f : Nat)
  | other
  deriving DecidableEq, Repr, Inhabited

structure Fn where
  name : Option String
  args : List (Nat × Option Binding)
  result : Option (Nat × Option Binding)
  body : List Stmt
  exprs : List Expr
  deriving Repr, Inhabited

inductive Stage | vertex | fragment | compute
  deriving DecidableEq, Repr, Inhabited

structure EntryPoint where
  name : String
  /-- `name.to_uppercase()` (oracle) -/
  upper : String
  stage : Stage
  wg : Nat × Nat × Nat
  fn : Fn
  deriving Repr, Inhabited

/-- `naga::Literal`; floats as IEEE bit patterns, ints as mathematical integers. -/
inductive Lit
  | f64 (bits : Nat) | f32 (bits : Nat) | u32 (n : Nat) | i32 (n : Int)
  | u64 (n : Nat) | i64 (n : Int) | bool (b : Bool)
  | abstractInt (n : Int) | abstractFloat (bits : Nat)
  deriving DecidableEq, Repr, Inhabited

structure Const where
  name : Option String
  /-- `some l` iff `global_expressions[init]` is `Expression::Literal(l)` -/
  init : Option Lit
  /-- the constant's type handle -/
  ty : Nat
  deriving DecidableEq, Repr, Inhabited

structure Override where
  name : Option String
  id : Option Nat
  ty : Nat
  hasInit : Bool
  deriving DecidableEq, Repr, Inhabited

structure Module where
  types : List Ty
  globals : List Global
  consts : List Const
  overrides : List Override
  functions : List Fn
  entries : List EntryPoint
  deriving Repr, Inhabited

inductive Repr3 | rust | glam | nalgebra
  deriving DecidableEq, Repr, Inhabited

/-- `WriteOptions` -/
structure Options where
  bmVertex : Bool
  bmHost : Bool
  encase : Bool
  serde : Bool
  repr : Repr3
  rustfmt : Bool
  validate : Bool
  deriving DecidableEq, Repr, Inhabited

/-- Stage sets = `wgpu::ShaderStages` restricted to the three bits the generator uses. -/
structure Stages where
  v : Bool
  f : Bool
  c : Bool
  deriving DecidableEq, Repr, Inhabited

namespace Stages
def none : Stages := ⟨false, false, false⟩
def all : Stages := ⟨true, true, true⟩
def union (a b : Stages) : Stages := ⟨a.v || b.v, a.f || b.f, a.c || b.c⟩
def ofStage : Stage → Stages
  | .vertex => ⟨true, false, false⟩
  | .fragment => ⟨false, true, false⟩
  | .compute => ⟨false, false, true⟩
def has (s : Stages) : Stage → Bool
  | .vertex => s.v | .fragment => s.f | .compute => s.c
end Stages

namespace Module
def ty? (m : Module) (h : Nat) : Option Ty := m.types[h]?
def fn? (m : Module) (h : Nat) : Option Fn := m.functions[h]?
def global? (m : Module) (h : Nat) : Option Global := m.globals[h]?
end Module

end WgslVerif
