import WgslVerif.Check.Gen
import WgslVerif.Ext.RustStatic
import WgslVerif.Props.C01Resolve
namespace WgslVerif
namespace CheckC01S

def clean (s : String) : String :=
  String.ofList (s.toList.map fun c => if c == ',' || c == ';' || c == '|' || c == '\n' || c == '\r' then '_' else c)

/-- "C01S": `Ext.RustStatic` evaluated on the facts of the REAL output.  One tag per issue:
`rsD;<class>;<what>` (definite: rustc must reject) / `rsU;<class>;<what>` (outside the transcription's
domain); `rsOk;` when there is none.  The verdict is reached by the C01 hook, which holds these
predictions against rustc's verdict on the very same module. -/
def check (c : Ctx) (r : Run) : Verdict :=
  let (cmp, _) := CheckGen.compare c r
  let corr : Status := match cmp with
    | .same => .ok
    | .sameError _ => .ok
    | .diffs ds => .fail ("sections#" ++ ",".intercalate (ds.map (·.1)) ++ ": " ++ (ds.head?.map (·.2)).getD "")
    | .outcome d => .fail s!"outcome#class: {d}"
    | .notComparable w => .skip w
  match r.real, c.module with
  | .ok o, some m =>
    let is := RustStatic.issues o
    let tags := if is.isEmpty then ["rsOk;"] else
      is.map fun i => (if i.isDefinite then "rsD;" else "rsU;") ++ clean i.cls ++ ";" ++ clean ((i.what.take 60).toString)
    -- the theorems' conclusions, evaluated on the REAL output of the modules that meet their hypotheses
    let bn := namesBenignB m
    let bd := deriveBenignB m r.opts
    let bs := shadowBenignB m
    let bv := vertexInputsEmittedB m
    let firstWhat (l : List RustStatic.Issue) : String := match l with | i :: _ => clean (i.cls ++ " " ++ i.what) | [] => ""
    let spec : Status :=
      if bn && !(RustStatic.nameIssues o).isEmpty then .fail ("static#names: NamesBenign holds but the real output has " ++ firstWhat (RustStatic.nameIssues o))
      else if bd && !(RustStatic.deriveIssues o).isEmpty then .fail ("static#derives: DeriveBenign holds but the real output has " ++ firstWhat (RustStatic.deriveIssues o))
      else if bs && !(RustStatic.shadowIssues o ++ RustStatic.captureIssues o).isEmpty then .fail ("static#shadow: ShadowBenign holds but the real output has " ++ firstWhat (RustStatic.shadowIssues o ++ RustStatic.captureIssues o))
      else if bd && bv && !(RustStatic.resolveIssues o).isEmpty then .fail ("static#resolve: the hypotheses of C01_resolve hold but the real output has " ++ firstWhat (RustStatic.resolveIssues o))
      else if !(RustStatic.literalIssues o).isEmpty then .fail ("static#literals: " ++ firstWhat (RustStatic.literalIssues o))
      else if !r.opts.rustfmt && !(RustStatic.keywordIssues o).isEmpty then .fail ("static#keywords: " ++ firstWhat (RustStatic.keywordIssues o))
      else .ok
    { corr := corr, spec := spec,
      tags := tags ++ (if c.valid then [] else ["naga-invalid"]) ++ [if bn then "benign-names" else "not-benign-names", if bd then "benign-derives" else "not-benign-derives",
                       if bs then "benign-shadow" else "not-benign-shadow",
                       if bv then "benign-vertex" else "not-benign-vertex",
                       if bn && bd && bs && bv then "benign-all" else "not-benign-all"] }
  | _, _ => { corr := corr, spec := .skip "no-output", tags := [] }

end CheckC01S
end WgslVerif
