import WgslVerif.Check.Gen
import WgslVerif.Props.C09
import WgslVerif.Props.C08
namespace WgslVerif
namespace CheckC09

def structTypeNamed (m : Module) (n : String) : Option (Nat × Ty) :=
  (indexed m.types).find? fun ht => structNameOf ht == some n

def membersOf (t : Ty) : List Member :=
  match t.inner with
  | .struct ms _ => ms
  | _ => []

def firstBad (o : Options) (hs rts : Bool) (s : RStruct) : String :=
  if !(s.derives.contains "Debug" && s.derives.contains "Clone" && s.derives.contains "PartialEq") then "always-derives"
  else if s.derives.contains "Copy" != !rts then "copy"
  else if s.reprC != !rts then "repr"
  else if s.derives.contains "bytemuck::Pod" != ((o.bmVertex && !hs) || (o.bmHost && hs)) then "pod"
  else if s.derives.contains "bytemuck::Zeroable" != s.derives.contains "bytemuck::Pod" then "zeroable"
  else if s.derives.contains "encase::ShaderType" != (o.encase && hs) then "shadertype"
  else if s.derives.contains "serde::Serialize" != o.serde || s.derives.contains "serde::Deserialize" != o.serde then "serde"
  else if (!s.asserts.isEmpty) != (o.bmHost && hs) then "assertions"
  else "unknown-or-duplicate-derive"

def check (c : Ctx) (r : Run) : Verdict :=
  let (cmp, _) := CheckGen.compare c r
  -- "no option changes any other part of the output": the model is independent of the switches outside the derive
  -- lists and assertions (C09_noninterference), so the WHOLE output is compared, under every option set
  let corr : Status := match cmp with
    | .same => .ok
    | .sameError _ => .ok
    | .diffs ds => .fail ("section#" ++ ",".intercalate (ds.map (·.1)) ++ ": " ++ (ds.head?.map (·.2)).getD "")
    | .outcome d => .fail s!"outcome#class: {d}"
    | .notComparable w => .skip w
  match c.module, r.real with
  | some m, .ok o =>
    if !typeArenaOkB m then { corr := .fail "hypothesis#typeArena: module outside TypeArenaOk", spec := .skip "hypothesis" } else
    let gvt := globalVariableTypes m
    let errs := o.structs.filterMap fun s =>
      match structTypeNamed m s.name with
      | none => some s!"derives#no-such-struct: {s.name}"
      | some (h, t) =>
        let hs := gvt.contains h
        let rts := structHasRtsArrayMember m ((membersOf t).filter fun mem => !isBuiltinMember mem)
        if decide (DerivesOk r.opts hs rts s) then none
        else some s!"derives#{firstBad r.opts hs rts s}: struct {s.name} (hostShareable={hs}, runtimeArray={rts}) derives {s.derives} reprC={s.reprC} asserts={s.asserts.length}"
    let roles := o.structs.filterMap fun s =>
      (structTypeNamed m s.name).map fun (h, t) =>
        (if gvt.contains h then "hs" else "vertex-only") ++
        (if structHasRtsArrayMember m ((membersOf t).filter fun mem => !isBuiltinMember mem) then "+rts" else "")
    -- "layout assertions exactly with bytemuck host-shareable": an assertion of a shape the reader does not know is still a
    -- layout assertion when it speaks about `size_of` / `offset_of`; with the host-shareable switch off none may exist
    let strayAsserts := o.unknown.filter fun (u : String × String) =>
      u.1 == "assert" && ((u.2.splitOn "size_of").length > 1 || (u.2.splitOn "offset_of").length > 1)
    let errs := if !r.opts.bmHost then
        errs ++ strayAsserts.map fun u => s!"derives#assertions-without-bytemuck-host-shareable: the output carries the layout assertion `{u.2.take 160}` although the bytemuck host-shareable switch is off"
      else errs
    { corr := corr
      spec := match errs with | [] => .ok | e :: _ => .fail e
      tags := roles.eraseDups }
  | some _, .panic _ =>
    -- documented panics are covered by the outcome-class comparison
    { corr := corr, spec := .skip "panic", tags := ["panic"] }
  | _, _ => { corr := corr, spec := .skip "no-output" }

end CheckC09
end WgslVerif
