import WgslVerif.IR
import WgslVerif.Out
import WgslVerif.DecodeOut
/-
Driver-side vocabulary: what a per-property run check reports.
-/
namespace WgslVerif

inductive Status
  | ok
  | fail (detail : String)
  | skip (why : String)
  deriving Repr, Inhabited

def Status.render : Status → String
  | .ok => "ok"
  | .fail d => "fail:" ++ d
  | .skip w => "skip:" ++ w

structure Verdict where
  /-- model vs implementation (projection relevant to the property) -/
  corr : Status
  /-- the property's executable specification evaluated on the REAL output -/
  spec : Status
  /-- free-form tags for the evidence histogram (branches exercised etc.) -/
  tags : List String := []
  deriving Repr, Inhabited

structure Ctx where
  id : String
  src : String
  path : Option String
  /-- `none`: naga's front end rejected the source -/
  module : Option Module
  /-- naga's validator (all capabilities) accepted the module -/
  valid : Bool

structure Run where
  opts : Options
  real : DecOut.RealResult
  micros : Nat
  /-- hook counters: (update_stages calls, statements walked, add_types_recursive calls) -/
  visits : Option (Nat × Nat × Nat) := none

def oneLine (s : String) : String :=
  String.ofList (s.toList.map fun c => if c == '\n' || c == '\r' || c == '|' then ' ' else c)

def shortRepr [Repr α] (a : α) (max : Nat := 600) : String :=
  let s := oneLine (toString (repr a))
  if s.length > max then (s.take max).toString ++ "…" else s

end WgslVerif
