import WgslVerif.Check.Basic
import WgslVerif.Model.Stages
import WgslVerif.Model.BindData
import WgslVerif.Props.C03
namespace WgslVerif
namespace CheckC03

def stagesStr (s : Stages) : String :=
  (if s.v then "V" else "") ++ (if s.f then "F" else "") ++ (if s.c then "C" else "") ++
  (if !s.v && !s.f && !s.c then "none" else "")

def diffKind (exp real : Stages) : String :=
  let missing := (exp.v && !real.v) || (exp.f && !real.f) || (exp.c && !real.c)
  let extra := (!exp.v && real.v) || (!exp.f && real.f) || (!exp.c && real.c)
  if missing && extra then "missing-and-extra-stage" else if missing then "missing-stage" else "extra-stage"

def nameAt (m : Module) (grp b : Nat) : Option String :=
  (m.globals.find? fun g => g.binding == some (grp, b)).bind (·.name)

/-- C03 on one real output. `C03_visibility`/`C03_present` prove that the model's map *is*
the specification (under `CallsEarlier`), so the spec evaluated on the real facts is the
comparison with `globalShaderStages m`. -/
def check (c : Ctx) (r : Run) : Verdict :=
  match c.module, r.real with
  | some m, .ok o =>
    if !callsEarlierB m then
      { corr := .fail "hypothesis#callsEarlier: naga produced a module outside CallsEarlier", spec := .skip "hypothesis" }
    else
      let gs := globalShaderStages m
      let errs := o.groups.flatMap fun g => g.entries.filterMap fun ent =>
        match nameAt m g.no ent.binding with
        | none => some s!"visibility#no-variable: group {g.no} binding {ent.binding} has no WGSL variable"
        | some n =>
          let exp := gs.getD n
          if ent.vis == exp then none
          else some s!"visibility#{diffKind exp ent.vis}: {n} @group({g.no}) @binding({ent.binding}) expected {stagesStr exp} real {stagesStr ent.vis}"
      let pc := (m.globals.find? fun g => g.space == .pushConstant)
      let pushErr : Option String :=
        match pc, o.pushStages with
        | none, none => none
        | some g, some (_, s) =>
          let exp := match g.name.bind gs.get? with
            | some st => st
            | none => entryStages m
          if s == exp then none
          else some s!"push#{diffKind exp s}: expected {stagesStr exp} real {stagesStr s}"
        | none, some _ => some "push#unexpected: PUSH_CONSTANT_STAGES without a push constant"
        | some _, none => some "push#absent: push constant without PUSH_CONSTANT_STAGES"
      let all := errs ++ pushErr.toList
      let nvis := o.groups.foldl (fun a g => a + g.entries.length) 0
      let tags := [s!"bindings{min nvis 9}", s!"fns{min m.functions.length 9}", s!"entries{m.entries.length}"] ++
        (o.groups.flatMap fun g => g.entries.map fun e => "vis:" ++ stagesStr e.vis).eraseDups ++
        (if pc.isSome then ["push"] else [])
      match all with
      | [] => { corr := .ok, spec := .ok, tags := if nvis == 0 && pc.isNone then [] else tags }
      | e :: _ => { corr := .fail e, spec := .fail e, tags := tags }
  | some _, .okUndecodable w => { corr := .fail s!"undecodable#output: {w}", spec := .skip "undecodable" }
  | _, _ => { corr := .skip "no-output", spec := .skip "no-output" }

end CheckC03
end WgslVerif
