import WgslVerif.Check.Basic
import WgslVerif.Model.BindData
import WgslVerif.Props.C11
namespace WgslVerif
namespace CheckC11

/-- the contract, as the executable `specOutcome` (`C11_exec`: model = `specOutcome`) -/
def expected (bs : List GroupBinding) := specOutcome bs

/-- what the real output says about groups: (group no, [(binding index, field name)]) taken from
the layout descriptor, the resource struct and the bind group entries, which must agree -/
def realGroups (o : Out) : Except String (List (Nat × List (Nat × String))) :=
  o.groups.mapM fun g =>
    let a := g.entries.map (·.binding)
    let b := g.bindEntries.map (·.binding)
    let names := g.layoutFields.map (·.1)
    let names' := g.bindEntries.map (·.field)
    if a != b then .error s!"group {g.no}: descriptor indices {a} vs bind entries {b}"
    else if names != names' then .error s!"group {g.no}: struct fields {names} vs bind entry fields {names'}"
    else .ok (g.no, b.zip names)

def sameGroups (gs : Groups) (rg : List (Nat × List (Nat × String))) : Bool :=
  gs.map (fun (kb : Nat × List GroupBinding) => (kb.1, kb.2.map fun b => (b.binding, b.name.getD ""))) == rg

def describe : Except GenError Groups → String
  | .ok gs => "ok " ++ toString (gs.map fun (kb : Nat × List GroupBinding) => (kb.1, kb.2.map (·.binding)))
  | .error e => "error " ++ shortRepr e

def against (asSpec : Bool) (exp : Except GenError Groups) (c : Ctx) (r : Run) : Status :=
  match exp, r.real with
  | .error (.duplicateBinding n), .err (.duplicateBinding n') _ =>
    if n = n' then .ok else .fail s!"duplicate index: expected {n}, real {n'}"
  | .error .nonConsecutive, .err .nonConsecutive _ => .ok
  | _, .err .validationError _ =>
    if r.opts.validate && !c.valid then .skip "validator-preempted" else .fail "validation error without validation"
  | .ok gs, .ok o =>
    match realGroups o with
    | .error e => .fail e
    | .ok rg =>
      if !sameGroups gs rg then .fail s!"groups differ: expected {describe exp}, real {rg}"
      -- the numbering is only worth something if the pipeline layout puts group k at index k
      else if o.pipelineGroups != gs.map (·.1) then .fail s!"pipeline layout lists the groups as {o.pipelineGroups}, expected {gs.map (·.1)}"
      else .ok
  | .ok _, .panic _ => .skip "later-panic"
  -- a text the fact reader cannot read is a broken correspondence, not something the property's predicate can be evaluated on
  | .ok _, .okUndecodable w => if asSpec then .skip "real output not readable" else .fail s!"real output undecodable: {w}"
  | e, real => .fail s!"expected {describe e}, real {shortRepr real 200}"

def check (c : Ctx) (r : Run) : Verdict :=
  match c.module with
  | none => { corr := .skip "parse-error", spec := .skip "parse-error" }
  | some m =>
    let bs := boundGlobals m
    let model := getBindGroupData m
    let spec := expected bs
    let tag := match spec with
      | .ok gs => s!"ok{gs.length}"
      | .error (.duplicateBinding _) => "dup"
      | .error _ => "gap"
    { corr := against false model c r, spec := against true spec c r, tags := [tag] }

end CheckC11
end WgslVerif
