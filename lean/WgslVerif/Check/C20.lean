import WgslVerif.Check.Basic
import WgslVerif.Model.Stages
import WgslVerif.Model.TypeClosure
import WgslVerif.Props.C20
import WgslVerif.Props.C03
import WgslVerif.Lemmas.TypeClosure
namespace WgslVerif
namespace CheckC20

/-- the proved bounds, as numbers (C20_stage_fn_visits, C20_stage_stmt_visits, C20_type_visits) -/
def fnBound (m : Module) : Nat := m.entries.length * (1 + m.functions.length)
def stmtBound (m : Module) : Nat :=
  m.entries.length * (maxEntryTicks m + maxTicks m * m.functions.length)
def typeBound (m : Module) : Nat := m.globals.length + maxDeg m * m.types.length

/-- wall-clock budget per call, microseconds (supporting evidence only; generous) -/
def budgetMicros : Nat := 5000000

def check (c : Ctx) (r : Run) (visits : Option (Nat × Nat × Nat)) : Verdict :=
  match c.module with
  | none => { corr := .skip "parse-error", spec := .skip "parse-error" }
  | some m =>
    -- the traversals run only when generation gets past get_bind_group_data
    let ran := match r.real with
      | .ok _ => true
      | .okUndecodable _ => true
      | .panic _ => false
      | .err _ _ => false
    if !ran then { corr := .skip "not-reached", spec := .skip "not-reached" } else
    if !callsEarlierB m then
      { corr := .fail "hypothesis#callsEarlier: module outside CallsEarlier", spec := .skip "hypothesis" }
    else
    let st := globalShaderStagesSt m
    let ty := (globalVariableTypesSt m).2
    let tags := [s!"fns{min m.functions.length 99 / 10 * 10}+", s!"types{min m.types.length 99 / 10 * 10}+"]
    match visits with
    | none => { corr := .skip "no-hook-counts", spec := .skip "no-hook-counts" }
    | some (rf, rs, rt) =>
      let spec : Status :=
        if rf > fnBound m then .fail s!"stage-fn-visits#exceeds-bound: update_stages ran {rf} times, bound {fnBound m} (entries {m.entries.length}, functions {m.functions.length})"
        else if rs > stmtBound m then .fail s!"stage-stmt-visits#exceeds-bound: {rs} statements walked, bound {stmtBound m}"
        else if rt > typeBound m then .fail s!"type-visits#exceeds-bound: add_types_recursive ran {rt} times, bound {typeBound m} (globals {m.globals.length}, types {m.types.length})"
        else if r.micros > budgetMicros then .fail s!"wall-clock#over-budget: {r.micros} us"
        else .ok
      let corr : Status :=
        if (rf, rs, rt) == (st.fnVisits, st.stmtVisits, ty) then .ok
        else .fail s!"visit-counts#differ: real (fn {rf}, stmt {rs}, type {rt}) model (fn {st.fnVisits}, stmt {st.stmtVisits}, type {ty})"
      { corr := corr, spec := spec, tags := tags }

end CheckC20
end WgslVerif
