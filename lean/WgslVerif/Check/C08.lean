import WgslVerif.Check.Gen
import WgslVerif.Props.C08
namespace WgslVerif
namespace CheckC08

/-- spec (C08 / C08_mem / structWanted_iff): the names of the host-visible struct types, arena order -/
def expected (m : Module) : List String :=
  ((indexed m.types).filter fun ht => structWanted m (globalVariableTypes m) ht.1).filterMap structNameOf

def check (c : Ctx) (r : Run) : Verdict :=
  let (cmp, _) := CheckGen.compare c r
  let corr := CheckGen.corrFor cmp ["struct-names"]
  match c.module, r.real with
  | some m, .ok o =>
    if !typeArenaOkB m then { corr := .fail "hypothesis#typeArena: module outside TypeArenaOk", spec := .skip "hypothesis" } else
    let exp := expected m
    let real := o.structs.map (·.name)
    let spec : Status :=
      if real == exp then .ok
      else
        let missing := exp.filter fun n => !real.contains n
        let extra := real.filter fun n => !exp.contains n
        let twice := real.filter fun n => (real.filter (· == n)).length > 1
        if !twice.isEmpty then .fail s!"structs#emitted-twice: {twice.eraseDups}"
        else if !missing.isEmpty then .fail s!"structs#missing: host-visible struct(s) {missing} not emitted"
        else if !extra.isEmpty then .fail s!"structs#extra: struct(s) {extra} emitted but not host-visible"
        else .fail s!"structs#order: expected {exp} real {real}"
    let nStructTypes := (m.types.filter fun t => match t.inner with | .struct .. => true | _ => false).length
    let tags := if nStructTypes == 0 then [] else
      [s!"structTypes{min nStructTypes 9}", s!"emitted{min exp.length 9}"] ++
      (if exp.length < nStructTypes then ["some-not-emitted"] else [])
    { corr := corr, spec := spec, tags := tags }
  | _, _ => { corr := corr, spec := .skip "no-output" }

end CheckC08
end WgslVerif
