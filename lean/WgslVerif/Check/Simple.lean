import WgslVerif.Check.Gen
import WgslVerif.Props.C04
import WgslVerif.Props.C12
import WgslVerif.Props.C13
import WgslVerif.Props.C14
import WgslVerif.Props.C15
/-
Driver checks for the properties whose specification is a decidable predicate `CxxOk m out`
proved of the model in Props/Cxx: the same predicate is evaluated on the REAL output.
-/
namespace WgslVerif
namespace CheckSimple

/-- which clause of C04 fails, for the finding signature -/
def c04Clause (m : Module) (o : Out) : String :=
  if o.groups.map (·.no) != List.range (groupCount (boundGlobals m)) then "numbering"
  else if o.pipelineGroups != o.groups.map (·.no) then "pipeline-layout-order"
  else match o.groups.find? fun g => !decide (GroupOk m g) with
    | some g =>
      if g.layoutFields.map (fun f => (some f.1, some f.2)) != (varsOf m g.no).map (fun v => (v.name, resKindOf m v)) then s!"group-fields (group {g.no})"
      else if g.bindEntries.map (fun e => (e.binding, some e.ctor, some e.field)) != (varsOf m g.no).map (fun v => (v.binding, (resKindOf m v).map ctorOfKind, v.name)) then s!"bind-entries (group {g.no})"
      else if g.entries.map (·.binding) != (varsOf m g.no).map (·.binding) then s!"layout-indices (group {g.no})"
      else s!"wiring (group {g.no})"
    | none => "set-all"

def c04 (c : Ctx) (r : Run) : Verdict :=
  let (cmp, _) := CheckGen.compare c r
  let corr := CheckGen.corrFor cmp ["group-numbers", "group-layout-fields", "group-bind-entries", "group-wiring", "bind-module", "pipeline-groups"]
  match c.module, r.real with
  | some m, .ok o =>
    let spec : Status := if decide (C04Ok m o) then .ok else
      let cl := c04Clause m o
      .fail s!"c04#{(cl.splitOn " ").head!}: {cl}: groups {shortRepr (o.groups.map fun g => (g.no, g.layoutFields.map (·.1), g.bindEntries.map fun e => (e.binding, e.field), g.setIndex)) 500} pipeline {o.pipelineGroups}"
    let nb := (boundGlobals m).length
    { corr := corr, spec := spec,
      tags := if nb == 0 then [] else [s!"groups{min o.groups.length 9}", s!"bindings{min nb 9}"] ++
        (if (boundGlobals m).map (·.binding) != ((boundGlobals m).map (·.binding)).mergeSort then ["unordered"] else []) }
  | _, _ => { corr := corr, spec := .skip "no-output" }

def c13 (c : Ctx) (r : Run) : Verdict :=
  let (cmp, _) := CheckGen.compare c r
  let corr := CheckGen.corrFor cmp ["push-stages", "push-ranges"]
  match c.module, r.real with
  | some m, .ok o =>
    let npc := (m.globals.filter fun g => g.space == .pushConstant).length
    let spec : Status :=
      if decide (C13Ok m o) then
        match o.pushRanges with
        | [rg] => if rg.hi % 4 == 0 then .ok else .fail s!"c13#size-not-multiple-of-4: {rg.hi}"
        | _ => .ok
      else
        let cl := match pushVar m, o.pushRanges with
          | none, _ => "unexpected-range"
          | some _, [] => "missing-range"
          | some g, [rg] =>
            if rg.lo != 0 then "start-not-zero"
            else if some rg.hi != (m.types[g.ty]?).map (fun (t : Ty) => t.size) then "wrong-size"
            else if rg.stagesRef != "PUSH_CONSTANT_STAGES" then "stages-reference"
            else "wrong-stages"
          | some _, _ => "several-ranges"
        .fail s!"c13#{cl}: ranges {shortRepr o.pushRanges 200} stages {shortRepr o.pushStages 120} expected size {shortRepr ((pushVar m).bind fun g => (m.types[g.ty]?).map (fun (t : Ty) => t.size))} stages {shortRepr ((pushVar m).map (pushStagesSpec m))}"
    { corr := corr, spec := spec,
      tags := if npc == 0 then ["no-push"] else [s!"push{npc}"] ++
        (match pushVar m with
          | some g => if (g.name.bind (globalShaderStages m).get?).isSome then ["used"] else ["unused-fallback"]
          | none => []) }
  | _, _ => { corr := corr, spec := .skip "no-output" }

def c14 (c : Ctx) (r : Run) : Verdict :=
  let (cmp, _) := CheckGen.compare c r
  let corr := CheckGen.corrFor cmp ["entry-consts", "compute", "fragment-entries", "vertex-entries", "boiler"]
  match c.module, r.real with
  | some m, .ok o =>
    let spec : Status := if decide (C14Ok m o) then .ok else
      let cl :=
        if o.entryConsts != (m.entries.map fun e => ("ENTRY_" ++ e.upper, e.name)) then "entry-constants"
        else if o.fragmentEntries.map (fun f => (f.fnName, f.entryConst, f.n)) !=
            ((m.entries.filter fun e => e.stage == .fragment).map fun e => (e.name ++ "_entry", "ENTRY_" ++ e.upper, targetsNeeded m e.fn)) then "fragment-target-count"
        else if o.vertexEntries.map (fun v => (v.fnName, v.entryConst, v.n, v.buffers.length)) !=
            ((m.entries.filter fun e => e.stage == .vertex).map fun e => (e.name ++ "_entry", "ENTRY_" ++ e.upper, structParamCount m e, structParamCount m e)) then "vertex-buffer-count"
        else if o.boiler != entryBoiler m ++ [("fn:create_shader_module", createShaderModuleText)] then "forwarders"
        else "compute"
      .fail s!"c14#{cl}: fragment {shortRepr (o.fragmentEntries.map fun f => (f.fnName, f.n)) 200} needed {shortRepr ((m.entries.filter fun e => e.stage == .fragment).map fun e => (e.name, targetsNeeded m e.fn)) 200}"
    { corr := corr, spec := spec,
      tags := if m.entries.isEmpty then [] else
        (m.entries.map fun e => match e.stage with | .vertex => "vs" | .fragment => "fs" | .compute => "cs").eraseDups ++ [s!"entries{min m.entries.length 9}"] }
  | _, _ => { corr := corr, spec := .skip "no-output" }

def c15 (c : Ctx) (r : Run) : Verdict :=
  let (cmp, _) := CheckGen.compare c r
  let corr := CheckGen.corrFor cmp ["consts"]
  match c.module, r.real with
  | some m, .ok o =>
    let exp := m.consts.filterMap specConst
    let spec : Status := if decide (C15Ok m o) then .ok else
      let bad := (exp.zip o.consts).find? fun p => p.1 != p.2
      match bad with
      | some (e, a) =>
        let cl := if e.name != a.name then "name" else if e.ty != a.ty then s!"type-{e.ty}-emitted-as-{a.ty}" else "value"
        .fail s!"c15#{cl}: expected {shortRepr e 200} real {shortRepr a 200}"
      | none => .fail s!"c15#count: expected {exp.length} constants, real {o.consts.length}"
    let kinds := (m.consts.filterMap fun c => c.init.map fun l => match l with
      | .f64 _ => "f64" | .f32 _ => "f32" | .u32 _ => "u32" | .i32 _ => "i32" | .u64 _ => "u64" | .i64 _ => "i64"
      | .bool _ => "bool" | .abstractInt _ => "aint" | .abstractFloat _ => "afloat").eraseDups
    { corr := corr, spec := spec,
      tags := if m.consts.isEmpty then [] else kinds ++ (if m.consts.any (·.init.isNone) then ["non-literal"] else []) }
  | _, _ => { corr := corr, spec := .skip "no-output" }

def c12 (c : Ctx) (r : Run) : Verdict :=
  let (cmp, _) := CheckGen.compare c r
  let corr := CheckGen.corrFor cmp ["overrides", "vertex-entries", "fragment-entries"]
  match c.module, r.real with
  | some m, .ok o =>
    if !decide (OverridesScalar m) then { corr := .fail "hypothesis#overridesScalar: override of non-scalar type or unnamed", spec := .skip "hypothesis" } else
    let spec : Status := if decide (C12Ok m o) then .ok else
      let cl := match o.overrides with
        | none => "struct-missing"
        | some ro =>
          if m.overrides.isEmpty then "struct-unexpected"
          else if ro.fields.length != m.overrides.length then "field-count"
          else if ro.required.length != (m.overrides.filter fun (ov : Override) => !ov.hasInit).length then "required-count"
          else if ro.optional.length != (m.overrides.filter fun (ov : Override) => ov.hasInit).length then "optional-count"
          else "table"
      .fail s!"c12#{cl}: {shortRepr o.overrides 500}"
    { corr := corr, spec := spec,
      tags := if m.overrides.isEmpty then [] else
        [s!"overrides{min m.overrides.length 9}"] ++ (if m.overrides.any (·.id.isSome) then ["with-id"] else []) ++
        (if m.overrides.any (·.hasInit) then ["optional"] else []) ++ (if m.overrides.any (!·.hasInit) then ["required"] else []) ++
        (if m.overrides.any (fun ov => isBoolScalar m ov.ty) then ["bool"] else []) }
  | _, _ => { corr := corr, spec := .skip "no-output" }

end CheckSimple
end WgslVerif
