import WgslVerif.Check.Gen
import WgslVerif.Props.C04
import WgslVerif.Props.C12
import WgslVerif.Props.C13
import WgslVerif.Props.C14
import WgslVerif.Props.C15
import WgslVerif.Props.C05
import WgslVerif.Props.C06
import WgslVerif.Props.C06Repr
import WgslVerif.Props.C16
import WgslVerif.Props.C07
import WgslVerif.Props.C07Buffer
/-
Driver checks for the properties whose specification is a decidable predicate `CxxOk m out`
proved of the model in Props/Cxx: the same predicate is evaluated on the REAL output.
-/
namespace WgslVerif
namespace CheckSimple

/-- which clause of C04 fails, for the finding signature -/
def c04Clause (m : Module) (o : Out) : String :=
  if o.groups.map (·.no) != List.range (groupCount (boundGlobals m)) then "numbering"
  else if o.pipelineGroups != o.groups.map (·.no) then "pipeline-layout-order"
  else match o.groups.find? fun g => !decide (GroupOk m g) with
    | some g =>
      if g.layoutFields.map (fun f => (some f.1, some f.2)) != (varsOf m g.no).map (fun v => (v.name, resKindOf m v)) then s!"group-fields (group {g.no})"
      else if g.bindEntries.map (fun e => (e.binding, some e.ctor, some e.field)) != (varsOf m g.no).map (fun v => (v.binding, (resKindOf m v).map ctorOfKind, v.name)) then s!"bind-entries (group {g.no})"
      else if g.entries.map (·.binding) != (varsOf m g.no).map (·.binding) then s!"layout-indices (group {g.no})"
      else s!"wiring (group {g.no})"
    | none => "set-all"

def c04 (c : Ctx) (r : Run) : Verdict :=
  let (cmp, _) := CheckGen.compare c r
  let corr := CheckGen.corrFor cmp ["group-numbers", "group-layout-fields", "group-bind-entries", "group-wiring", "bind-module", "pipeline-groups"]
  match c.module, r.real with
  | some m, .ok o =>
    let spec : Status := if decide (C04Ok m o) then .ok else
      let cl := c04Clause m o
      .fail s!"c04#{(cl.splitOn " ").head!}: {cl}: groups {shortRepr (o.groups.map fun g => (g.no, g.layoutFields.map (·.1), g.bindEntries.map fun e => (e.binding, e.field), g.setIndex)) 500} pipeline {o.pipelineGroups}"
    let nb := (boundGlobals m).length
    { corr := corr, spec := spec,
      tags := if nb == 0 then [] else [s!"groups{min o.groups.length 9}", s!"bindings{min nb 9}"] ++
        (if (boundGlobals m).map (·.binding) != ((boundGlobals m).map (·.binding)).mergeSort then ["unordered"] else []) }
  | _, _ => { corr := corr, spec := .skip "no-output" }

def c13 (c : Ctx) (r : Run) : Verdict :=
  let (cmp, _) := CheckGen.compare c r
  let corr := CheckGen.corrFor cmp ["push-stages", "push-ranges"]
  match c.module, r.real with
  | some m, .ok o =>
    let npc := (m.globals.filter fun g => g.space == .pushConstant).length
    let spec : Status :=
      if decide (C13Ok m o) then
        match o.pushRanges with
        | [rg] => if rg.hi % 4 == 0 then .ok else .fail s!"c13#size-not-multiple-of-4: {rg.hi}"
        | _ => .ok
      else
        let cl := match pushVar m, o.pushRanges with
          | none, _ => "unexpected-range"
          | some _, [] => "missing-range"
          | some g, [rg] =>
            if rg.lo != 0 then "start-not-zero"
            else if some rg.hi != (m.types[g.ty]?).map (fun (t : Ty) => t.size) then "wrong-size"
            else if rg.stagesRef != "PUSH_CONSTANT_STAGES" then "stages-reference"
            else "wrong-stages"
          | some _, _ => "several-ranges"
        .fail s!"c13#{cl}: ranges {shortRepr o.pushRanges 200} stages {shortRepr o.pushStages 120} expected size {shortRepr ((pushVar m).bind fun g => (m.types[g.ty]?).map (fun (t : Ty) => t.size))} stages {shortRepr ((pushVar m).map (pushStagesSpec m))}"
    { corr := corr, spec := spec,
      tags := if npc == 0 then ["no-push"] else [s!"push{npc}"] ++
        (match pushVar m with
          | some g => if (g.name.bind (globalShaderStages m).get?).isSome then ["used"] else ["unused-fallback"]
          | none => []) }
  | _, _ => { corr := corr, spec := .skip "no-output" }

def c14 (c : Ctx) (r : Run) : Verdict :=
  let (cmp, _) := CheckGen.compare c r
  let corr := CheckGen.corrFor cmp ["entry-consts", "compute", "fragment-entries", "vertex-entries", "boiler"]
  match c.module, r.real with
  | some m, .ok o =>
    let spec : Status := if decide (C14Ok m o) then .ok else
      let cl :=
        if o.entryConsts != (m.entries.map fun e => ("ENTRY_" ++ e.upper, e.name)) then "entry-constants"
        else if o.fragmentEntries.map (fun f => (f.fnName, f.entryConst, f.n)) !=
            ((m.entries.filter fun e => e.stage == .fragment).map fun e => (e.name ++ "_entry", "ENTRY_" ++ e.upper, targetsNeeded m e.fn)) then "fragment-target-count"
        else if o.vertexEntries.map (fun v => (v.fnName, v.entryConst, v.n, v.buffers.length)) !=
            ((m.entries.filter fun e => e.stage == .vertex).map fun e => (e.name ++ "_entry", "ENTRY_" ++ e.upper, structParamCount m e, structParamCount m e)) then "vertex-buffer-count"
        else if o.boiler != entryBoiler m ++ [("fn:create_shader_module", createShaderModuleText)] then "forwarders"
        else "compute"
      .fail s!"c14#{cl}: fragment {shortRepr (o.fragmentEntries.map fun f => (f.fnName, f.n)) 200} needed {shortRepr ((m.entries.filter fun e => e.stage == .fragment).map fun e => (e.name, targetsNeeded m e.fn)) 200}"
    { corr := corr, spec := spec,
      tags := if m.entries.isEmpty then [] else
        (m.entries.map fun e => match e.stage with | .vertex => "vs" | .fragment => "fs" | .compute => "cs").eraseDups ++ [s!"entries{min m.entries.length 9}"] ++
        -- what the helpers have to return when they are RUN (exec oracle): (helper, entry name, targets / buffers)
        ((m.entries.filter fun e => e.stage == .fragment).map fun e => s!"fe;{e.name}_entry;{e.name};{targetsNeeded m e.fn}") ++
        ((m.entries.filter fun e => e.stage == .vertex).map fun e => s!"ve;{e.name}_entry;{e.name};{structParamCount m e}") }
  | _, _ => { corr := corr, spec := .skip "no-output" }

def c15 (c : Ctx) (r : Run) : Verdict :=
  let (cmp, _) := CheckGen.compare c r
  let corr := CheckGen.corrFor cmp ["consts"]
  match c.module, r.real with
  | some m, .ok o =>
    let exp := m.consts.filterMap specConst
    let spec : Status := if decide (C15Ok m o) then .ok else
      let bad := (exp.zip o.consts).find? fun p => p.1 != p.2
      match bad with
      | some (e, a) =>
        let cl := if e.name != a.name then "name" else if e.ty != a.ty then s!"type-{e.ty}-emitted-as-{a.ty}" else "value"
        .fail s!"c15#{cl}: expected {shortRepr e 200} real {shortRepr a 200}"
      | none => .fail s!"c15#count: expected {exp.length} constants, real {o.consts.length}"
    let kinds := (m.consts.filterMap fun c => c.init.map fun l => match l with
      | .f64 _ => "f64" | .f32 _ => "f32" | .u32 _ => "u32" | .i32 _ => "i32" | .u64 _ => "u64" | .i64 _ => "i64"
      | .bool _ => "bool" | .abstractInt _ => "aint" | .abstractFloat _ => "afloat").eraseDups
    { corr := corr, spec := spec,
      tags := if m.consts.isEmpty then [] else kinds ++ (if m.consts.any (·.init.isNone) then ["non-literal"] else []) }
  | _, _ => { corr := corr, spec := .skip "no-output" }

def c12 (c : Ctx) (r : Run) : Verdict :=
  let (cmp, _) := CheckGen.compare c r
  let corr := CheckGen.corrFor cmp ["overrides", "vertex-entries", "fragment-entries"]
  match c.module, r.real with
  | some m, .ok o =>
    -- `OverridesScalar` is what naga's VALIDATOR guarantees (the front end alone lets `override v: vec2<f32>;` through): a module
    -- the validator rejects is outside the property ("accepted shader"), not a broken hypothesis
    if !decide (OverridesScalar m) then
      (if c.valid then { corr := .fail "hypothesis#overridesScalar: override of non-scalar type or unnamed in a module naga's validator accepts", spec := .skip "hypothesis" }
       else { corr := corr, spec := .skip "override of non-scalar type: the validator rejects the module" }) else
    let spec : Status := if decide (C12Ok m o) then .ok else
      let cl := match o.overrides with
        | none => "struct-missing"
        | some ro =>
          if m.overrides.isEmpty then "struct-unexpected"
          else if ro.fields.length != m.overrides.length then "field-count"
          else if ro.required.length != (m.overrides.filter fun (ov : Override) => !ov.hasInit).length then "required-count"
          else if ro.optional.length != (m.overrides.filter fun (ov : Override) => ov.hasInit).length then "optional-count"
          else "table"
      .fail s!"c12#{cl}: {shortRepr o.overrides 500}"
    { corr := corr, spec := spec,
      tags := if m.overrides.isEmpty then [] else
        [s!"overrides{min m.overrides.length 9}"] ++ (if m.overrides.any (·.id.isSome) then ["with-id"] else []) ++
        (if m.overrides.any (·.hasInit) then ["optional"] else []) ++ (if m.overrides.any (!·.hasInit) then ["required"] else []) ++
        (if m.overrides.any (fun ov => isBoolScalar m ov.ty) then ["bool"] else []) }
  | _, _ => { corr := corr, spec := .skip "no-output" }

def c05 (c : Ctx) (r : Run) : Verdict :=
  let (cmp, _) := CheckGen.compare c r
  let corr := CheckGen.corrFor cmp ["struct-names", "struct-asserts"]
  match c.module, r.real with
  | some m, .ok o =>
    if !typeArenaOkB m then { corr := .fail "hypothesis#typeArena: module outside TypeArenaOk", spec := .skip "hypothesis" } else
    if c.valid && !WgslLayout.layoutOK m then
      { corr := .fail s!"hypothesis#layoutOK: naga's recorded layout differs from Ext.WgslLayout at type {shortRepr (WgslLayout.firstBad m)}", spec := .skip "hypothesis" } else
    let spec : Status := if decide (C05Ok m r.opts o) then .ok else
      match o.structs.find? fun s => !decide (StructAssertsOk m r.opts s) with
      | some s =>
        let cl := if s.asserts.isEmpty then "missing-checks" else
          match s.asserts.head? with
          | some (.size ..) => "wrong-check"
          | _ => "size-check-missing"
        .fail s!"c05#{cl}: struct {s.name}: {shortRepr s.asserts 400}"
      | none => .fail "c05#unknown: ?"
    let nhs := (o.structs.filter fun s => !s.asserts.isEmpty).length
    { corr := corr, spec := spec,
      tags := if o.structs.isEmpty then [] else
        (if r.opts.bmHost then [s!"checked{min nhs 9}"] else ["bytemuck-host-off"]) ++
        (if o.structs.any (fun s => s.asserts.isEmpty) && r.opts.bmHost then ["unchecked-struct"] else []) }
  | _, _ => { corr := corr, spec := .skip "no-output" }

def c06 (c : Ctx) (r : Run) : Verdict :=
  let (cmp, _) := CheckGen.compare c r
  let corr := CheckGen.corrFor cmp ["struct-names", "struct-fields"]
  match c.module, r.real with
  | some m, .ok o =>
    if !typeArenaOkB m then { corr := .fail "hypothesis#typeArena: module outside TypeArenaOk", spec := .skip "hypothesis" } else
    -- representation clause (C06_repr): each field type comes from the family the selected representation prescribes
    let reprBad := o.structs.findSome? fun s =>
      match structMembersNamed m s.name with
      | none => none
      | some members =>
        let nb := members.filter fun mem => !isBuiltinMember mem
        (s.fields.zip nb).findSome? fun (fm : RField × Member) =>
          match m.types[fm.2.ty]? with
          | none => none
          | some ty =>
            let ok := match ty.inner, fm.1.ty, fm.1.runtime with
              | .array base .dynamic _, .vec e, true =>
                (match m.types[base]? with
                 | some bt => reprOk m r.opts.repr (typeFuel m) bt e
                 | none => false)
              | _, t, false => reprOk m r.opts.repr (typeFuel m) ty t
              | _, _, _ => false
            if ok then none else some s!"struct {s.name} field {fm.1.name}: {shortRepr fm.1.ty 120}"
    let spec : Status := if decide (C06Ok m o) then
        (match reprBad with
         | none => .ok
         | some d => .fail s!"c06#representation: {d} is not of the family the selected representation prescribes")
      else
      match o.structs.find? fun s => !decide (StructOk m s) with
      | some s =>
        let cl := match structMembersNamed m s.name with
          | none => "no-such-struct"
          | some members =>
            let mem := members.filter fun mem => !isBuiltinMember mem
            if s.fields.length != mem.length then "field-count"
            else if s.fields.map (fun (f : RField) => f.name) != mem.filterMap (fun (x : Member) => x.name) then "field-names-or-order"
            else "field-type"
        .fail s!"c06#{cl}: struct {s.name}: fields {shortRepr (s.fields.map fieldDenote) 300} spec {shortRepr ((structMembersNamed m s.name).map fun ms => (ms.filter fun mem => !isBuiltinMember mem).map (fieldSpec m)) 300}"
      | none => .fail "c06#unknown: ?"
    let reprTag := match r.opts.repr with | .rust => "rust" | .glam => "glam" | .nalgebra => "nalgebra"
    { corr := corr, spec := spec,
      tags := if o.structs.isEmpty then [] else [reprTag] ++
        (if o.structs.any (fun s => s.fields.any (·.runtime)) then ["runtime-array"] else []) ++
        (if o.structs.any (fun s => s.fields.any fun f => match f.ty with | .named _ => true | .array (.named _) _ => true | _ => false) then ["nested"] else []) }
  | some _, .panic _ => { corr := corr, spec := .skip "panic", tags := ["panic"] }
  | _, _ => { corr := corr, spec := .skip "no-output" }

def c16 (c : Ctx) (r : Run) : Verdict :=
  let (cmp, _) := CheckGen.compare c r
  let corr := CheckGen.corrFor cmp ["source", "boiler"]
  -- the property speaks about every Ok result, also of a source naga itself would not parse (the module is not needed)
  match r.real with
  | .ok o =>
    let spec : Status := if decide (C16Ok c.src c.path o) then .ok else
      match c.path, o.source with
      | some p, .includeStr p' => .fail s!"c16#include-path: expected {p} real {p'}"
      | none, .literal v raw =>
        if v != c.src then .fail s!"c16#literal-value: the literal's value differs from the source ({v.length} vs {c.src.length} chars)"
        else if RustLex.unescapeToken raw != some c.src then .fail s!"c16#literal-token: RustLex.unescapeToken of the raw token is not the source"
        else .fail "c16#consumer: create_shader_module template differs"
      | _, _ => .fail "c16#source-kind: literal vs include_str! does not follow the path argument"
    let nonAscii := c.src.toList.any fun ch => ch.toNat > 127
    let esc := c.src.toList.any fun ch => ch == '"' || ch == '\\' || ch.toNat < 32
    { corr := corr, spec := spec,
      tags := [if c.path.isSome then "include" else "embedded"] ++ (if nonAscii then ["non-ascii"] else []) ++
        (if esc then ["needs-escapes"] else []) ++ (if c.src.toList.any (fun ch => ch.toNat > 0xFFFF) then ["non-bmp"] else []) }
  | _ => { corr := corr, spec := .skip "no-output" }

end CheckSimple
end WgslVerif

namespace WgslVerif
namespace CheckSimple

/-- executable form of `VertexStructOk` (Props/C07) for one generated `impl S` block -/
def vertexStructOkB (m : Module) (v : RVertex) : Bool :=
  match structMembersNamed m v.name with
  | none => false
  | some members =>
    let located := members.filterMap fun (mem : Member) => match mem.binding with
      | some (.location l) => some (l, mem)
      | _ => none
    v.attrs.map (fun a => (a.location, some a.field, a.ofStruct)) == located.map (fun (lm : Nat × Member) => (lm.1, lm.2.name, v.name)) &&
    v.attrs.map (fun a => WgpuVertex.formatInfo a.format) == located.map (fun (lm : Nat × Member) => (m.types[lm.2.ty]?).bind numericOf) &&
    v.attrs.all (fun a => (WgpuVertex.formatInfo a.format).isSome) &&
    v.count == v.attrs.length && v.strideOf == v.name && v.attrsOf == v.name

/-- some field does not start where the previous one ended, or the struct has tail padding -/
def hasPadding (items : List (Nat × Nat)) : Bool :=
  (ReprC.layout items).2 != (items.map (·.1)).foldl (· + ·) 0

/-- wgpu's default `max_vertex_buffer_array_stride` -/
def vertexStrideLimit : Nat := 2048

def c07 (c : Ctx) (r : Run) : Verdict :=
  let (cmp, _) := CheckGen.compare c r
  let corr := CheckGen.corrFor cmp ["vertex-attrs", "vertex-entries"]
  match c.module, r.real with
  | some m, .ok o =>
    if !typeArenaOkB m then { corr := .fail "hypothesis#typeArena: module outside TypeArenaOk", spec := .skip "hypothesis" } else
    if !(m.types.all wgslWidth) then { corr := .fail "hypothesis#wgslWidth: non-boolean scalar that is not 4 or 8 bytes wide", spec := .skip "hypothesis" } else
    -- which structs are struct parameters of vertex entries
    let wanted := ((m.entries.filter fun e => e.stage == .vertex).flatMap fun e =>
      ((e.fn.args.filter fun a => a.2.isNone).filter (isStructArg m)).filterMap fun a => (m.types[a.1]?).bind (·.name)).eraseDups
    let have_ := o.vertex.map (·.name)
    let spec : Status :=
      match o.vertex.find? fun v => !vertexStructOkB m v with
      | some v => .fail s!"c07#attribute-table: impl {v.name}: attrs {shortRepr (v.attrs.map fun a => (a.format, a.field, a.location)) 300}"
      | none =>
        if !(wanted.all have_.contains) then .fail s!"c07#missing-impl: vertex input struct(s) {wanted.filter fun n => !have_.contains n} have no VERTEX_ATTRIBUTES"
        else if !(have_.all wanted.contains) then .fail s!"c07#extra-impl: {have_.filter fun n => !wanted.contains n}"
        else if have_.eraseDups.length != have_.length then .fail s!"c07#duplicate-impl: {have_}"
        else
          -- per entry helper: buffers in parameter order, own step-mode parameter each
          let ves := (m.entries.filter fun e => e.stage == .vertex)
          let bad := (ves.zip o.vertexEntries).find? fun (ev : EntryPoint × RVertexEntry) =>
            let names := ((ev.1.fn.args.filter fun a => a.2.isNone).filter (isStructArg m)).map fun a => (m.types[a.1]?).bind (·.name)
            !(ev.2.buffers.map (fun b => some b.1) == names && ev.2.n == ev.2.buffers.length &&
              ev.2.params.map (·.1) == ev.2.buffers.map (·.2) ++ (if m.overrides.isEmpty then [] else ["overrides"]) &&
              (ev.2.buffers.map (·.2)).eraseDups.length == ev.2.buffers.length)
          match bad with
          | some (e, v) => .fail s!"c07#entry-buffers: {e.name}: buffers {v.buffers} params {v.params}"
          | none =>
            if ves.length != o.vertexEntries.length then .fail "c07#entry-count: ?" else
            -- wgpu-core's vertex-buffer rules on the #[repr(C)] layout of the emitted struct (C07_buffer)
            let badBuf := o.vertex.find? fun v =>
              match o.structs.find? (fun s => s.name == v.name) with
              | some s => decide ((ReprC.layout (fieldItems s)).2 ≤ vertexStrideLimit) && !vertexBufferOkB vertexStrideLimit s v
              | none => false
            match badBuf with
            | some v => .fail s!"c07#vertex-buffer-rules: impl {v.name}: layout {shortRepr ((o.structs.find? (fun s => s.name == v.name)).map fun s => ReprC.layout (fieldItems s)) 200} attrs {shortRepr (v.attrs.map fun a => (a.format, a.field)) 300}"
            | none => .ok
    { corr := corr, spec := spec,
      tags :=
        -- expected per-entry buffers: (helper, WGSL entry name, struct parameters in order)
        ((m.entries.filter fun e => e.stage == .vertex).map fun e =>
          s!"ve;{e.name}_entry;{e.name};{".".intercalate (((e.fn.args.filter fun a => a.2.isNone).filter (isStructArg m)).filterMap fun a => (m.types[a.1]?).bind (·.name))}") ++
        if o.vertex.isEmpty && wanted.isEmpty then [] else
        [s!"structs{min o.vertex.length 9}"] ++
        (if o.vertex.any (fun v => v.attrs.map (·.location) != (v.attrs.map (·.location)).mergeSort) then ["unordered-locations"] else []) ++
        (if o.vertexEntries.any (fun v => v.buffers.length > 1) then ["multi-buffer"] else []) ++
        -- predicted #[repr(C)] layouts (compared with rustc's offset_of!/size_of by the exec oracle)
        (o.vertex.filterMap fun v => (o.structs.find? (fun s => s.name == v.name)).bind fun s =>
          if s.fields.all (fun f => (ReprC.sizeAlign f.ty).isSome) then
            let L := ReprC.layout (fieldItems s)
            some s!"vb;{v.name};{L.2};{".".intercalate (L.1.map toString)};{".".intercalate (v.attrs.map (·.format))};{".".intercalate (v.attrs.map fun a => toString a.location)}"
          else none) ++
        (if o.vertex.any (fun v => (o.structs.find? (fun s => s.name == v.name)).isNone) then ["struct-not-emitted"] else []) ++
        (if o.vertex.any (fun v => match o.structs.find? (fun s => s.name == v.name) with
            | some s => decide ((ReprC.layout (fieldItems s)).2 > vertexStrideLimit) | none => false) then ["over-stride-limit"] else []) ++
        (if o.vertex.any (fun v => match o.structs.find? (fun s => s.name == v.name) with
            | some s => hasPadding (fieldItems s)
            | none => false) then ["padded"] else []) }
  | _, _ => { corr := corr, spec := .skip "no-output" }

end CheckSimple
end WgslVerif
