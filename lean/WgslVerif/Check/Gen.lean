import WgslVerif.Check.Basic
import WgslVerif.Model.Top
/-
Whole-output correspondence: the model's `gen` against the real output, section by section.
Each property check selects the sections (projections) it depends on.
-/
namespace WgslVerif
namespace CheckGen

def diff [BEq α] [Repr α] (section_ : String) (model real : α) : List (String × String) :=
  if model == real then [] else [(section_, s!"model {shortRepr model 400} REAL {shortRepr real 400}")]

/-- first differing element of two lists, for a readable message -/
def diffList [BEq α] [Repr α] (section_ : String) (model real : List α) : List (String × String) :=
  if model == real then []
  else
    let rec go (i : Nat) : List α → List α → String
      | [], [] => "equal?"
      | a :: _, [] => s!"[{i}] model has {shortRepr a 300}, real ends"
      | [], b :: _ => s!"[{i}] model ends, real has {shortRepr b 300}"
      | a :: as, b :: bs => if a == b then go (i + 1) as bs else s!"[{i}] model {shortRepr a 300} REAL {shortRepr b 300}"
    [(section_, go 0 model real)]

/-- all sections; names are stable identifiers used by the property checks -/
def sections (mo re : Out) : List (String × String) :=
  diffList "struct-names" (mo.structs.map (·.name)) (re.structs.map (·.name)) ++
  diffList "struct-derives" (mo.structs.map fun s => (s.name, s.reprC, s.derives))
                            (re.structs.map fun s => (s.name, s.reprC, s.derives)) ++
  diffList "struct-fields" (mo.structs.map fun s => (s.name, s.fields)) (re.structs.map fun s => (s.name, s.fields)) ++
  diffList "struct-asserts" (mo.structs.map fun s => (s.name, s.asserts)) (re.structs.map fun s => (s.name, s.asserts)) ++
  diffList "consts" mo.consts re.consts ++
  diff "overrides" mo.overrides re.overrides ++
  diffList "group-numbers" (mo.groups.map (·.no)) (re.groups.map (·.no)) ++
  diffList "group-layout-fields" (mo.groups.map fun g => (g.no, g.layoutFields)) (re.groups.map fun g => (g.no, g.layoutFields)) ++
  diffList "group-entry-types" (mo.groups.map fun g => (g.no, g.entries.map fun e => (e.binding, e.ty)))
                               (re.groups.map fun g => (g.no, g.entries.map fun e => (e.binding, e.ty))) ++
  diffList "group-visibility" (mo.groups.map fun g => (g.no, g.entries.map fun e => (e.binding, e.vis)))
                              (re.groups.map fun g => (g.no, g.entries.map fun e => (e.binding, e.vis))) ++
  diffList "group-bind-entries" (mo.groups.map fun g => (g.no, g.bindEntries)) (re.groups.map fun g => (g.no, g.bindEntries)) ++
  diffList "group-wiring" (mo.groups.map fun g => (g.no, g.descLabel, g.layoutFnDesc, g.fromLayoutStruct, g.fromDesc, g.bindLabel, g.setIndex))
                          (re.groups.map fun g => (g.no, g.descLabel, g.layoutFnDesc, g.fromLayoutStruct, g.fromDesc, g.bindLabel, g.setIndex)) ++
  diff "bind-module" mo.bindModule re.bindModule ++
  diffList "vertex-attrs" mo.vertex re.vertex ++
  diffList "entry-consts" mo.entryConsts re.entryConsts ++
  diffList "vertex-entries" mo.vertexEntries re.vertexEntries ++
  diffList "fragment-entries" mo.fragmentEntries re.fragmentEntries ++
  diffList "compute" mo.compute re.compute ++
  (match mo.source, re.source with
    | .literal v _, .literal v' _ => diff "source" v v'
    | a, b => diff "source" a b) ++
  diff "push-stages" mo.pushStages re.pushStages ++
  diffList "push-ranges" mo.pushRanges re.pushRanges ++
  diffList "pipeline-groups" mo.pipelineGroups re.pipelineGroups ++
  diffList "boiler" mo.boiler re.boiler ++
  diffList "unknown" mo.unknown re.unknown

def errClass : GenError → String
  | .parseError => "parse" | .validationError => "validation"
  | .duplicateBinding n => s!"dup{n}" | .nonConsecutive => "gap" | .panic _ => "panic"

/-- Result of comparing one run with the model: differing sections, or an outcome-class mismatch. -/
inductive Cmp
  | same                                   -- both produced output and every section agrees
  | diffs (ds : List (String × String))    -- both produced output, these sections differ
  | sameError (cls : String)               -- both failed the same way
  | outcome (detail : String)              -- different outcome classes
  | notComparable (why : String)

def compare (c : Ctx) (r : Run) : Cmp × Option (Except GenError Out) :=
  match c.module with
  | none =>
    -- naga's front end rejects the source: the whole function has to return the parse error (C17_parse); an Ok result means the
    -- generator parsed something else than it was given
    (match r.real with
      | .err .parseError _ => .sameError "parse"
      | .err e msg => .outcome s!"naga's front end rejects the source; real error {errClass e} {msg}"
      | .ok _ => .outcome "naga's front end rejects the source; real ok"
      | .okUndecodable _ => .outcome "naga's front end rejects the source; real ok"
      | .panic msg => .outcome s!"naga's front end rejects the source; real panic: {msg}", none)
  | some m =>
    let mo := gen m r.opts c.src c.path
    let cmp := match mo, r.real with
      | .ok a, .ok b => match sections a b with
        | [] => Cmp.same
        | ds => .diffs ds
      | .error e, .err e' _ =>
        if errClass e == errClass e' then .sameError (errClass e)
        else if e' == .validationError then .notComparable "validator-preempted"
        else .outcome s!"model error {errClass e}, real error {errClass e'}"
      | .error (.panic t), .panic _ => .sameError ("panic:" ++ t)
      | .ok _, .err .validationError _ => .notComparable "validator-preempted"
      | .ok _, .err e' msg => .outcome s!"model ok, real error {errClass e'} {msg}"
      | .ok _, .panic msg => .outcome s!"model ok, real panic: {msg}"
      | .ok _, .okUndecodable w => .outcome s!"model ok, real output not readable: {w}"
      | .error e, .ok _ => .outcome s!"model {shortRepr e 80}, real ok"
      | .error e, .panic msg => .outcome s!"model {shortRepr e 80}, real panic: {msg}"
      | .error e, .okUndecodable w => .outcome s!"model {shortRepr e 80}, real output not readable: {w}"
    (cmp, some mo)

/-- corr status restricted to the given sections (and the outcome class) -/
def corrFor (cmp : Cmp) (wanted : List String) : Status :=
  match cmp with
  | .same => .ok
  | .sameError _ => .ok
  | .diffs ds =>
    match ds.filter fun d => wanted.contains d.1 with
    | [] => .ok
    | (s, d) :: _ => .fail s!"section#{s}: {d}"
  | .outcome d => .fail s!"outcome#class: {d}"
  | .notComparable w => .skip w

end CheckGen
end WgslVerif
