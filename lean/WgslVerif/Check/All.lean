import WgslVerif.Check.Gen
namespace WgslVerif
namespace CheckAll
/-- "ALL": every section of the output and the outcome class (used while developing and as the
correspondence behind C01/C18) -/
def check (c : Ctx) (r : Run) : Verdict :=
  let (cmp, _) := CheckGen.compare c r
  let st : Status := match cmp with
    | .same => .ok
    | .sameError _ => .ok
    | .diffs ds => .fail ("sections#" ++ ",".intercalate (ds.map (·.1)) ++ ": " ++ (ds.head?.map (·.2)).getD "")
    | .outcome d => .fail s!"outcome#class: {d}"
    | .notComparable w => .skip w
  let tag := match cmp with
    | .same => ["ok"] | .sameError cl => ["err:" ++ cl] | .diffs _ => ["diff"] | .outcome _ => ["outcome"]
    | .notComparable _ => []
  { corr := st, spec := .skip "n/a", tags := tag }
end CheckAll
end WgslVerif
