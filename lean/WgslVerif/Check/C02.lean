import WgslVerif.Check.Gen
import WgslVerif.Props.C02
import WgslVerif.Check.C03
namespace WgslVerif
namespace CheckC02
open WgpuBinding

def errName : BindErr → String
  | .wrongAddressSpace => "WrongAddressSpace" | .wrongType => "WrongType"
  | .wrongSamplerComparison => "WrongSamplerComparison" | .wrongTextureViewDimension => "WrongTextureViewDimension"
  | .wrongTextureClass => "WrongTextureClass" | .notAResource => "NotAResource"

def bglName : BglErr → String
  | .sampleTypeFloatFilterableBindingMultisampled => "SampleTypeFloatFilterableBindingMultisampled"
  | .non2DMultisampled => "Non2DMultisampled" | .storageTextureCube => "StorageTextureCube"

/-- per (group, binding): verdicts of the transcription on the REAL entries -/
def verdicts (m : Module) (o : Out) : List (Nat × Nat × Option String × Option String) :=
  o.groups.flatMap fun g =>
    ((varsOf m g.no).zip g.entries).map fun (ve : GroupBinding × REntry) =>
      match m.types[ve.1.ty]? with
      | some ty =>
        (g.no, ve.2.binding,
          (checkBindingUse ve.1.space ty.inner ve.2.ty).map errName,
          (bglEntryOk ve.2.ty).map bglName)
      | none => (g.no, ve.2.binding, some "NoType", none)

def check (c : Ctx) (r : Run) : Verdict :=
  let (cmp, _) := CheckGen.compare c r
  let corr := CheckGen.corrFor cmp ["group-numbers", "group-entry-types", "group-visibility", "pipeline-groups"]
  match c.module, r.real with
  | some m, .ok o =>
    if c.valid && !resourceShapesB m then
      { corr := .fail "hypothesis#resourceShapes: validated module outside resourceShapes", spec := .skip "hypothesis" } else
    let vs := verdicts m o
    let bad := vs.filter fun v => v.2.2.1.isSome || v.2.2.2.isSome
    let spec : Status :=
      -- "each resource the entry point uses ... is visible to that stage": a stage that statically uses the variable
      -- (`globalShaderStages`, proved to be that set by C03_visibility under CallsEarlier) is missing from the real entry's visibility
      let gs := globalShaderStages m
      let missingVis := if !callsEarlierB m then [] else o.groups.flatMap fun g => g.entries.filterMap fun ent =>
        match CheckC03.nameAt m g.no ent.binding with
        | none => none
        | some n =>
          let exp := gs.getD n
          if (exp.v && !ent.vis.v) || (exp.f && !ent.vis.f) || (exp.c && !ent.vis.c) then
            some s!"visibility#used-but-not-visible: {n} @group({g.no}) @binding({ent.binding}) is used by stages {CheckC03.stagesStr exp}, the layout entry is visible to {CheckC03.stagesStr ent.vis}"
          else none
      if let e :: _ := missingVis then .fail e
      else if !decide (C02PipelineOk m o) then
        .fail s!"pipeline#group-not-at-own-index: create_pipeline_layout lists the group layouts as {o.pipelineGroups}; a resource variable's @group is not at its own index"
      else if decide (C02Ok m o) then .ok else
      match bad with
      | (g, b, some e, _) :: _ => .fail s!"binding#{e}: @group({g}) @binding({b}) check_binding_use rejects the generated entry"
      | (g, b, none, some e) :: _ => .fail s!"bgl#{e}: @group({g}) @binding({b}) create_bind_group_layout rejects the generated entry"
      | _ => .fail "entries#count-or-index: entries do not line up with the variables of the group"
    let kinds := (o.groups.flatMap fun g => g.entries.map fun e => match e.ty with
      | .buffer .uniform _ => "uniform" | .buffer (.storage true) _ => "storage-ro" | .buffer (.storage false) _ => "storage-rw"
      | .texture (.float _) _ m => if m then "tex-float-ms" else "tex-float"
      | .texture .sint _ _ => "tex-sint" | .texture .uint _ _ => "tex-uint"
      | .texture .depth _ m => if m then "tex-depth-ms" else "tex-depth"
      | .storageTexture .readOnly _ _ => "st-ro" | .storageTexture .writeOnly _ _ => "st-wo"
      | .storageTexture .readWrite _ _ => "st-rw" | .storageTexture .atomic _ _ => "st-atomic"
      | .sampler .comparison => "sampler-cmp" | .sampler _ => "sampler").eraseDups
    -- for the cross-check with the real wgpu-core: transcription verdicts as tags
    let xs := bad.map fun v => s!"lean:{v.1}.{v.2.1}.{v.2.2.1.getD "-"}.{v.2.2.2.getD "-"}"
    { corr := corr, spec := spec, tags := kinds ++ xs }
  | _, _ => { corr := corr, spec := .skip "no-output" }

end CheckC02
end WgslVerif
