import WgslVerif.Check.Gen
import WgslVerif.Props.C10
import WgslVerif.Props.C10Struct
import WgslVerif.Props.C06
namespace WgslVerif
namespace CheckC10
open WgslLayout (roundUp)

/-- (align, size) encase assigns to an emitted struct, by name, from the REAL emitted structs -/
abbrev structMeta := @Encase.structMeta

/-- a member type the property lists (minus f64): representable leaves, arrays and nested structs of those -/
def inDomain (m : Module) : Nat → Nat → Bool
  | 0, _ => false
  | fuel + 1, h =>
    match m.types[h]? with
    | none => false
    | some ty =>
      match ty.inner with
      | .struct ms _ => ms.all fun mem => isBuiltinMember mem || inDomain m fuel mem.ty
      | .array base (.const _) _ => inDomain m fuel base
      | .array base .dynamic _ => inDomain m fuel base
      | _ => glamRepresentable m (typeFuel m) ty

def natList (l : List Nat) : String := ".".intercalate (l.map toString)

/-- one tag per ShaderType struct: `s;<name>;<class>;<predicted len k=0>;<stride of trailing runtime array or 0>;<predicted offsets>;<naga offsets>;<naga size>` -/
def check (c : Ctx) (r : Run) : Verdict :=
  let (cmp, _) := CheckGen.compare c r
  let corr := CheckGen.corrFor cmp ["struct-names", "struct-fields", "struct-derives"]
  match c.module, r.real with
  | some m, .ok o =>
    let tags := o.structs.filterMap fun s =>
      if !s.derives.contains "encase::ShaderType" then none else
      match structMembersNamed m s.name, (indexed m.types).find? (fun ht => structNameOf ht == some s.name) with
      | some members, some (h, t) =>
        let nb := members.filter fun mem => !isBuiltinMember mem
        let cls0 := if !inDomain m (typeFuel m) h then "out-of-domain"
          else if members.any isBuiltinMember then "builtin-member" else "plain"
        let sm := structMeta o.structs (o.structs.length + 1)
        -- sized fields; a trailing runtime `Vec<T>` contributes its element's (align, stride)
        let metas := s.fields.map fun f => match f.ty, f.runtime with
          | .vec e, true => (Encase.alignSizeOf sm e).map fun (p : Nat × Nat) => (p.1, 0)
          | ty, _ => Encase.alignSizeOf sm ty
        if !(metas.all (·.isSome)) then some s!"s;{s.name};{if cls0 == "out-of-domain" then cls0 else "unpredictable"};0;0;;{natList (nb.map (·.offset))};{t.laySize}"
        else
          let l := Encase.structLayout (metas.map fun x => x.getD (1, 0))
          let stride := match s.fields.getLast? with
            | some f => match f.ty, f.runtime with
              | .vec e, true => (Encase.alignSizeOf sm e).map (fun (p : Nat × Nat) => roundUp p.1 p.2) |>.getD 0
              | _, _ => 0
            | none => 0
          let natural := l.1 == nb.map (·.offset) && (stride != 0 || l.2.1 == t.laySize)
          let cls := if cls0 == "plain" && !natural then "explicit-attrs" else cls0
          -- byte lengths for 0, 1, 3 elements of a trailing runtime-sized array, by `Encase.runtimeLen` (what `C10_runtime` speaks about)
          let rl := if stride == 0 then "" else
            ".".intercalate ([0, 1, 3].map fun k => s!"{k}:{Encase.runtimeLen l.2.2 (l.1.getLast?.getD 0) stride k}")
          some s!"s;{s.name};{cls};{l.2.1};{stride};{natList l.1};{natList (nb.map (·.offset))};{t.laySize};{l.2.2};{rl}"
      | _, _ => some s!"s;{s.name};no-such-struct;0;0;;;0"
    -- "any emitted host-shareable struct" can be written through encase only if it derives encase's trait
    let gvt := globalVariableTypes m
    let notWritable := o.structs.filter fun s =>
      match (indexed m.types).find? (fun ht => structNameOf ht == some s.name) with
      | some (h, _) => r.opts.encase && gvt.contains h && !s.derives.contains "encase::ShaderType"
      | none => false
    -- `C10_struct_exec(_offsets)` evaluated on the REAL structs: for a struct type reachable from a variable that is in the
    -- theorem's domain (`C10S.natural`), under the glam representation, the layout `Ext.Encase` computes from the real items
    -- (nested ones looked up in the real output) must be naga's offsets and span
    let arenaOk := typeArenaOkB m
    let thm := (indexed m.types).filterMap fun (ht : Nat × Ty) =>
      match ht.2.inner, ht.2.name with
      | .struct ms span, some name =>
        if arenaOk && r.opts.repr == .glam && gvt.contains ht.1 && C10S.natural m (typeFuel m) ht.2 then
          match o.structs.find? fun s => s.name == name with
          | none => some (name, some "the struct is not emitted")
          | some s =>
            let sm := Encase.structMeta o.structs (o.structs.length + 1)
            let metas := s.fields.map fun f => Encase.alignSizeOf sm f.ty
            if !(metas.all (·.isSome)) then some (name, some "a field of the real item has no encase layout")
            else
              let l := Encase.structLayout (metas.map fun x => x.getD (1, 0))
              if l.1 == ms.map (·.offset) && l.2.1 == span && sm name == WgslLayout.alignSize m (typeFuel m) ht.2 then some (name, none)
              else some (name, some s!"encase lays the real item out at {natList l.1} size {l.2.1}, WGSL has {natList (ms.map (·.offset))} size {span}")
        else none
      | _, _ => none
    let thmTags := thm.map fun (x : String × Option String) => s!"t;{x.1};{if x.2.isNone then "holds" else "FAILS"}"
    let spec : Status := match notWritable, thm.find? (fun x => x.2.isSome) with
      | s :: _, _ => .fail s!"encase#not-writable: host-shareable struct {s.name} does not derive encase::ShaderType although the encase switch is on (derives {s.derives})"
      | [], some (name, some why) => .fail s!"encase#natural-struct-layout: struct {name} is in the domain of C10_struct but {why}"
      | [], _ => if thm.isEmpty then .skip "measured by the batch harness" else .ok
    { corr := corr, spec := spec, tags := tags ++ thmTags }
  | _, _ => { corr := corr, spec := .skip "no-output" }

end CheckC10
end WgslVerif
