import WgslVerif.IR
import WgslVerif.Out
/-
Model of `wgsl.rs:102-306`: `rust_scalar_type`, `rust_type` and its vector/matrix helpers (×3
representations), `buffer_binding_type`, `vertex_format`.
`todo!()`, `panic!` and `unwrap()` on reachable paths are `Except.error (.panic tag)`.
-/
namespace WgslVerif

abbrev G := Except GenError

def todo {α : Type} (tag : String) : G α := .error (.panic ("todo:" ++ tag))

/-- `name.as_ref().unwrap()` -/
def unwrapName (tag : String) : Option String → G String
  | some n => .ok n
  | none => .error (.panic ("unwrap:" ++ tag))

/-- `module.types[handle]` -/
def typeAt (m : Module) (h : Nat) : G Ty :=
  match m.types[h]? with
  | some t => .ok t
  | none => .error (.panic "bad-handle")

/-- `rust_scalar_type` -/
def rustScalarType (s : Scalar) : G RustTy :=
  match s.kind, s.width with
  | .sint, 1 => .ok (.prim "i8")
  | .uint, 1 => .ok (.prim "u8")
  | .sint, 2 => .ok (.prim "i16")
  | .uint, 2 => .ok (.prim "u16")
  | .sint, 4 => .ok (.prim "i32")
  | .uint, 4 => .ok (.prim "u32")
  | .float, 4 => .ok (.prim "f32")
  | .float, 8 => .ok (.prim "f64")
  | .bool, _ => .ok (.prim "bool")
  | _, _ => todo "scalar"

/-- `rust_vector_type` -/
def rustVectorType (n : VecSize) (s : Scalar) : G RustTy := do
  let t ← rustScalarType s
  pure (.array t n.toNat)

/-- `glam_vector_type` -/
def glamVectorType (n : VecSize) (s : Scalar) : G RustTy :=
  match n, s.kind, s.width with
  | .bi, .float, 4 => .ok (.glam "Vec2")
  | .tri, .float, 4 => .ok (.glam "Vec3")
  | .quad, .float, 4 => .ok (.glam "Vec4")
  | .bi, .float, 8 => .ok (.glam "DVec2")
  | .tri, .float, 8 => .ok (.glam "DVec3")
  | .quad, .float, 8 => .ok (.glam "DVec4")
  | .bi, .uint, 4 => .ok (.glam "UVec2")
  | .tri, .uint, 4 => .ok (.glam "UVec3")
  | .quad, .uint, 4 => .ok (.glam "UVec4")
  | .bi, .sint, 4 => .ok (.glam "IVec2")
  | .tri, .sint, 4 => .ok (.glam "IVec3")
  | .quad, .sint, 4 => .ok (.glam "IVec4")
  | _, _, _ => rustVectorType n s

/-- `nalgebra_vector_type` -/
def nalgebraVectorType (n : VecSize) (s : Scalar) : G RustTy := do
  let t ← rustScalarType s
  pure (.nalgebraV t n.toNat)

/-- `rust_matrix_type(rows, columns, width)` = `[[T; columns]; rows]` -/
def rustMatrixType (rows cols : VecSize) (width : Nat) : G RustTy := do
  let t ← rustScalarType ⟨.float, width⟩
  pure (.array (.array t cols.toNat) rows.toNat)

/-- `glam_matrix_type` -/
def glamMatrixType (rows cols : VecSize) (width : Nat) : G RustTy :=
  match rows, cols, width with
  | .bi, .bi, 4 => .ok (.glam "Mat2")
  | .tri, .tri, 4 => .ok (.glam "Mat3")
  | .quad, .quad, 4 => .ok (.glam "Mat4")
  | .bi, .bi, 8 => .ok (.glam "DMat2")
  | .tri, .tri, 8 => .ok (.glam "DMat3")
  | .quad, .quad, 8 => .ok (.glam "DMat4")
  | _, _, _ => rustMatrixType rows cols width

/-- `nalgebra_matrix_type` = `SMatrix<T, rows, columns>` -/
def nalgebraMatrixType (rows cols : VecSize) (width : Nat) : G RustTy := do
  let t ← rustScalarType ⟨.float, width⟩
  pure (.nalgebraM t rows.toNat cols.toNat)

/-- `rust_type`; recursion over array element types by fuel -/
def rustType (m : Module) (repr : Repr3) : Nat → Ty → G RustTy
  | 0, _ => .error (.panic "fuel")
  | fuel + 1, ty =>
    match ty.inner with
    | .scalar s => rustScalarType s
    | .vector n s =>
      match repr with
      | .rust => rustVectorType n s
      | .glam => glamVectorType n s
      | .nalgebra => nalgebraVectorType n s
    | .matrix cols rows s =>
      match repr with
      | .rust => rustMatrixType rows cols s.width
      | .glam => glamMatrixType rows cols s.width
      | .nalgebra => nalgebraMatrixType rows cols s.width
    | .image .. => todo "image"
    | .sampler _ => todo "sampler"
    | .atomic s => rustScalarType s
    | .pointer _ => todo "pointer"
    | .valuePointer => todo "valuePointer"
    | .array base (.const n) _ =>
      match m.types[base]? with
      | some bt => do
        let e ← rustType m repr fuel bt
        pure (.array e n)
      | none => .error (.panic "bad-handle")
    | .array _ .dynamic _ => .error (.panic "rts-in-type")
    | .array _ .pending _ => todo "pending"
    | .struct _ _ =>
      match ty.name with
      | some n => .ok (.named n)
      | none => .error (.panic "unwrap:struct-name")
    | .bindingArray _ => todo "bindingArray"
    | .accel => todo "accel"
    | .rayQuery => todo "rayQuery"

def typeFuel (m : Module) : Nat := m.types.length + 1

/-- `buffer_binding_type` -/
def bufferBindingType : Space → BufTy
  | .uniform => .uniform
  | .storage a => .storage (!a.store)
  | _ => .uniform

/-- `vertex_format`, as the `{:?}` name of the `wgpu::VertexFormat` variant -/
def vertexFormat (ty : Ty) : G String :=
  match ty.inner with
  | .scalar s =>
    match s.kind, s.width with
    | .sint, 4 => .ok "Sint32"
    | .uint, 4 => .ok "Uint32"
    | .float, 4 => .ok "Float32"
    | .float, 8 => .ok "Float64"
    | _, _ => todo "vertex-format"
  | .vector .bi s =>
    match s.kind, s.width with
    | .sint, 1 => .ok "Sint8x2"
    | .uint, 1 => .ok "Uint8x2"
    | .sint, 2 => .ok "Sint16x2"
    | .uint, 2 => .ok "Uint16x2"
    | .uint, 4 => .ok "Uint32x2"
    | .sint, 4 => .ok "Sint32x2"
    | .float, 4 => .ok "Float32x2"
    | .float, 8 => .ok "Float64x2"
    | _, _ => todo "vertex-format"
  | .vector .tri s =>
    match s.kind, s.width with
    | .uint, 4 => .ok "Uint32x3"
    | .sint, 4 => .ok "Sint32x3"
    | .float, 4 => .ok "Float32x3"
    | .float, 8 => .ok "Float64x3"
    | _, _ => todo "vertex-format"
  | .vector .quad s =>
    match s.kind, s.width with
    | .sint, 1 => .ok "Sint8x4"
    | .uint, 1 => .ok "Uint8x4"
    | .sint, 2 => .ok "Sint16x4"
    | .uint, 2 => .ok "Uint16x4"
    | .uint, 4 => .ok "Uint32x4"
    | .sint, 4 => .ok "Sint32x4"
    | .float, 4 => .ok "Float32x4"
    | .float, 8 => .ok "Float64x4"
    | _, _ => todo "vertex-format"
  | _ => todo "vertex-format"

end WgslVerif
