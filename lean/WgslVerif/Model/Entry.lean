import WgslVerif.Model.Types
/-
Model of `entry.rs:10-283` and `wgsl.rs:316-367`: fragment target count, `ENTRY_*` constants,
vertex input structs and their attribute tables, vertex/fragment entry helpers.
-/
namespace WgslVerif

/-- `VertexInput` -/
structure VertexInput where
  ty : Nat
  name : String
  snake : String
  fields : List (Nat × Member)
  deriving Repr, Inhabited

/-- `fragment_target_count`: largest written location plus one -/
def fragmentTargetCount (m : Module) (f : Fn) : Nat :=
  match f.result with
  | some (ty, b) =>
    match b with
    | some (.location l) => l + 1
    | some (.builtin _) => 0
    | none =>
      match m.types[ty]? with
      | some t =>
        match t.inner with
        | .struct members _ =>
          (members.filterMap fun mem => match mem.binding with
            | some (.location l) => some (l + 1)
            | _ => none).foldl max 0
        | _ => 0
      | none => 0
  | none => 0

/-- `entry_point_constants` -/
def entryPointConstants (m : Module) : List (String × String) :=
  m.entries.map fun e => ("ENTRY_" ++ e.upper, e.name)

/-- located members of a struct argument (`member.binding.as_ref().unwrap()`) -/
def locatedMembers : List Member → G (List (Nat × Member))
  | [] => .ok []
  | mem :: rest =>
    match mem.binding with
    | none => .error (.panic "unwrap:member-binding")
    | some (.builtin _) => locatedMembers rest
    | some (.location l) => do
      let r ← locatedMembers rest
      pure ((l, mem) :: r)

/-- the `filter_map` closure of `vertex_entry_structs` -/
def vertexInputOf (m : Module) (a : Nat × Option Binding) : G (Option VertexInput) :=
  match m.types[a.1]? with
  | some ty =>
    match ty.inner with
    | .struct members _ => do
      let name ← unwrapName "struct-name" ty.name
      let fields ← locatedMembers members
      pure (some { ty := a.1, name := name, snake := ty.snake, fields := fields })
    | _ => pure none
  | none => .error (.panic "bad-handle")

/-- `vertex_entry_structs` -/
def vertexEntryStructs (m : Module) (e : EntryPoint) : G (List VertexInput) :=
  (e.fn.args.filter fun a => a.2.isNone).filterMapM (vertexInputOf m)

/-- `dedup_by_key(|s| s.name)`: drop an element whose key equals the previous kept one -/
def dedupByName : List VertexInput → List VertexInput
  | [] => []
  | [x] => [x]
  | x :: y :: rest => if x.name = y.name then dedupByName (x :: rest) else x :: dedupByName (y :: rest)
termination_by l => l.length

/-- `get_vertex_input_structs`: all vertex entries, stable sort by name, dedup by name -/
def getVertexInputStructs (m : Module) : G (List VertexInput) := do
  let per ← (m.entries.filter fun e => e.stage == .vertex).mapM (vertexEntryStructs m)
  let all := per.flatten
  pure (dedupByName (all.mergeSort fun a b => decide (a.name ≤ b.name)))

/-- `vertex_input_structs`: the `impl Name { VERTEX_ATTRIBUTES; vertex_buffer_layout }` blocks -/
def vertexStructMethods (m : Module) : G (List RVertex) := do
  let inputs ← getVertexInputStructs m
  inputs.mapM fun inp => do
    let attrs ← inp.fields.mapM fun (lm : Nat × Member) => do
      let fname ← unwrapName "member-name" lm.2.name
      let ty ← typeAt m lm.2.ty
      let fmt ← vertexFormat ty
      pure ({ format := fmt, ofStruct := inp.name, field := fname, location := lm.1 } : RAttr)
    pure { name := inp.name, count := inp.fields.length, attrs := attrs,
           strideOf := inp.name, attrsOf := inp.name }

def overridesParam (m : Module) : List (String × String) :=
  if m.overrides.isEmpty then [] else [("overrides", "& OverrideConstants")]

def constSrc (m : Module) : ConstSrc :=
  if m.overrides.isEmpty then .default else .overrides

/-- the per-entry helpers of `vertex_states` -/
def vertexEntries (m : Module) : G (List RVertexEntry) :=
  (m.entries.filter fun e => e.stage == .vertex).mapM fun e => do
    let inputs ← vertexEntryStructs m e
    pure { fnName := e.name ++ "_entry"
           n := inputs.length
           params := (inputs.map fun i => (i.snake, "wgpu :: VertexStepMode")) ++ overridesParam m
           entryConst := "ENTRY_" ++ e.upper
           buffers := inputs.map fun i => (i.name, i.snake)
           constants := constSrc m }

/-- the per-entry helpers of `fragment_states` -/
def fragmentEntries (m : Module) : List RFragmentEntry :=
  (m.entries.filter fun e => e.stage == .fragment).map fun e =>
    let n := fragmentTargetCount m e.fn
    { fnName := e.name ++ "_entry"
      n := n
      params := [("targets", "[ Option < wgpu :: ColorTargetState > ; " ++ toString n ++ " ]")] ++ overridesParam m
      entryConst := "ENTRY_" ++ e.upper
      constants := constSrc m }

def vertexEntryStructText : String :=
  "# [ derive ( Debug ) ] pub struct VertexEntry < const N : usize > { pub entry_point : & 'static str , pub buffers : [ wgpu :: VertexBufferLayout < 'static > ; N ] , pub constants : std :: collections :: HashMap < String , f64 > }"

def vertexStateFnText : String :=
  "pub fn vertex_state < 'a , const N : usize > ( module : & 'a wgpu :: ShaderModule , entry : & 'a VertexEntry < N > ) -> wgpu :: VertexState < 'a > { wgpu :: VertexState { module , entry_point : Some ( entry . entry_point ) , buffers : & entry . buffers , compilation_options : wgpu :: PipelineCompilationOptions { constants : & entry . constants , .. Default :: default ( ) } } }"

def fragmentEntryStructText : String :=
  "# [ derive ( Debug ) ] pub struct FragmentEntry < const N : usize > { pub entry_point : & 'static str , pub targets : [ Option < wgpu :: ColorTargetState > ; N ] , pub constants : std :: collections :: HashMap < String , f64 > }"

def fragmentStateFnText : String :=
  "pub fn fragment_state < 'a , const N : usize > ( module : & 'a wgpu :: ShaderModule , entry : & 'a FragmentEntry < N > ) -> wgpu :: FragmentState < 'a > { wgpu :: FragmentState { module , entry_point : Some ( entry . entry_point ) , targets : & entry . targets , compilation_options : wgpu :: PipelineCompilationOptions { constants : & entry . constants , .. Default :: default ( ) } } }"

/-- fixed template items emitted by `vertex_states` / `fragment_states` (only when non-empty) -/
def entryBoiler (m : Module) : List (String × String) :=
  (if m.entries.any (·.stage == .vertex)
    then [("struct:VertexEntry", vertexEntryStructText), ("fn:vertex_state", vertexStateFnText)] else []) ++
  (if m.entries.any (·.stage == .fragment)
    then [("struct:FragmentEntry", fragmentEntryStructText), ("fn:fragment_state", fragmentStateFnText)] else [])

end WgslVerif
