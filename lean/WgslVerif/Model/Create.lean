import WgslVerif.Model.Top
/-
Model of `lib.rs:310-322`: the two gates in front of generation (`naga::front::wgsl::parse_str`
and `Validator::validate`), with the front end and the validator as PARAMETERS, and of
`lib.rs:445-469`: `pretty_print_rustfmt` as a state machine over the answers of the OS.
-/
namespace WgslVerif

/-- `CreateModuleError` plus the panic outcome -/
inductive CreateError (PE VE : Type)
  | parseError (e : PE)
  | validationError (e : VE)
  | generation (e : GenError)      -- DuplicateBinding / NonConsecutiveBindGroups / a panic
  deriving Repr

/-- `create_shader_module_inner` -/
def create {PE VE : Type} (parse : String → Except PE Module) (validate : Module → Except VE Unit)
    (src : String) (path : Option String) (o : Options) : Except (CreateError PE VE) Out :=
  match parse src with
  | .error e => .error (.parseError e)
  | .ok m =>
    if o.validate then
      match validate m with
      | .error e => .error (.validationError e)
      | .ok () =>
        match gen m o src path with
        | .ok out => .ok out
        | .error e => .error (.generation e)
    else
      match gen m o src path with
      | .ok out => .ok out
      | .error e => .error (.generation e)

/-! ### the formatter -/

/-- answers of the operating system to `pretty_print_rustfmt`'s four interactions -/
structure ProcEnv where
  /-- `Command::spawn` succeeded (`rustfmt` found and started) -/
  spawn : Bool
  /-- `stdin.write_all` succeeded (fails with EPIPE when the child is gone before reading) -/
  write : Bool
  /-- `wait_with_output`: `none` = I/O error; `some (success, stdout)` with stdout `none` when it is not UTF-8 -/
  wait : Option (Bool × Option String)
  deriving Repr

inductive FmtOutcome
  | returned (s : String)
  | panicked (why : String)
  deriving DecidableEq, Repr

/-- `pretty_print_rustfmt` / `format_with_rustfmt`: any failure – spawn, write, wait, exit status,
UTF-8, empty output – falls back to the unformatted token text -/
def prettyPrintRustfmt (env : ProcEnv) (raw : String) : FmtOutcome :=
  if !env.spawn then .returned raw
  else match env.wait with
    | none => .returned raw
    | some (success, out) =>
      if !env.write then .returned raw
      else if !success then .returned raw
      else match out with
        | none => .returned raw
        | some o => if o = "" then .returned raw else .returned o

/-- the function before the repair ("fix: fall back to the unformatted tokens on any rustfmt
failure"): the three `unwrap()`s panic, empty output is returned as is -/
def Legacy.prettyPrintRustfmt (env : ProcEnv) (raw : String) : FmtOutcome :=
  if !env.spawn then .returned raw
  else if !env.write then .panicked "write_all(..).unwrap()"
  else match env.wait with
    | none => .panicked "wait_with_output().unwrap()"
    | some (true, none) => .panicked "String::from_utf8(..).unwrap()"
    | some (true, some out) => .returned out
    | some (false, _) => .returned raw

end WgslVerif
