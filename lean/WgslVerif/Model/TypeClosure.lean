import WgslVerif.IR
/-
Model of `structs.rs:180-198 add_types_recursive` (with the early return on an already
inserted type) and of the loop over the global variables in `structs.rs:15-18`.
The `HashSet<Handle<Type>>` is a `List Nat` used only through `contains`/`insert`; the
counter is the one `verif_hooks::tick_type` counts in the real code.
-/
namespace WgslVerif

/-- the types `add_types_recursive` recurses into from type `t`, in order -/
def typeSucc (m : Module) (t : Nat) : List Nat :=
  match m.types[t]? with
  | some ty =>
    match ty.inner with
    | .pointer b => [b]
    | .array b _ _ => [b]
    | .struct ms _ => ms.map (·.ty)
    | .bindingArray b => [b]
    | _ => []
  | none => []

/-- `add_types_recursive`; state = (set, number of invocations) -/
def addTypes (m : Module) : Nat → Nat → List Nat × Nat → List Nat × Nat
  | 0, _, acc => (acc.1, acc.2 + 1)
  | fuel + 1, t, (set, cnt) =>
    if t ∈ set then (set, cnt + 1)
    else (typeSucc m t).foldl (fun a s => addTypes m fuel s a) (t :: set, cnt + 1)

def globalVariableTypesSt (m : Module) : List Nat × Nat :=
  m.globals.foldl (fun a g => addTypes m (m.types.length + 1) g.ty a) ([], 0)

/-- `global_variable_types` -/
def globalVariableTypes (m : Module) : List Nat := (globalVariableTypesSt m).1

end WgslVerif
