import WgslVerif.Model.Structs
import WgslVerif.Model.BindGroups
import WgslVerif.Model.Entry
import WgslVerif.Model.Consts
/-
Model of `lib.rs:310-562`: `create_shader_module_inner` after parsing and validation,
`push_constant_range_stages`, `compute_module`, the source literal choice, and the
`pretty_print` (prettyplease) path's requirement that the tokens parse as a Rust file.
-/
namespace WgslVerif

/-- `workgroup_size` + `create_compute_pipeline`, per compute entry -/
def computeModule (m : Module) : List RCompute :=
  (m.entries.filter fun e => e.stage == .compute).flatMap fun e =>
    [ .wg (e.upper ++ "_WORKGROUP_SIZE") e.wg.1 e.wg.2.1 e.wg.2.2,
      .pipeline ("create_" ++ e.name ++ "_pipeline") ("Compute Pipeline " ++ e.name) e.name ]

/-- `push_constant_range_stages`: (size, stages) of the first push-constant variable -/
def pushConstantRangeStages (m : Module) (gs : StageMap) : G (Option (Nat × Stages)) :=
  match m.globals.find? fun g => g.space == .pushConstant with
  | none => .ok none
  | some g =>
    match m.types[g.ty]? with
    | none => .error (.panic "bad-handle")
    | some ty =>
      let stages := match g.name.bind gs.get? with
        | some s => s
        | none => entryStages m
      .ok (some (ty.size, stages))

def createShaderModuleText : String :=
  "pub fn create_shader_module ( device : & wgpu :: Device ) -> wgpu :: ShaderModule { let source = std :: borrow :: Cow :: Borrowed ( SOURCE ) ; device . create_shader_module ( wgpu :: ShaderModuleDescriptor { label : None , source : wgpu :: ShaderSource :: Wgsl ( source ) } ) }"

/-- identifiers `syn` refuses to parse as an identifier (strict and reserved keywords) -/
def rustKeywords : List String :=
  ["_", "abstract", "as", "async", "await", "become", "box", "break", "const", "continue", "crate",
   "do", "dyn", "else", "enum", "extern", "false", "final", "fn", "for", "if", "impl", "in", "let",
   "loop", "macro", "match", "mod", "move", "mut", "override", "priv", "pub", "ref", "return",
   "Self", "self", "static", "struct", "super", "trait", "true", "try", "type", "typeof", "unsafe",
   "unsized", "use", "virtual", "where", "while", "yield"]

/-- the WGSL-derived names the output uses as bare Rust identifiers -/
def emittedIdents (o : Out) : List String :=
  o.structs.flatMap (fun s => s.name :: s.fields.map (·.name)) ++
  o.consts.map (·.name) ++
  (match o.overrides with | some ov => ov.fields.map (·.1) | none => []) ++
  o.groups.flatMap (fun g => g.layoutFields.map (·.1)) ++
  o.vertexEntries.flatMap (fun e => e.params.map (·.1))

/-- `include_str!(path)` when a path is given, the source as a string literal otherwise -/
def sourceOf (src : String) (path : Option String) : RSource :=
  match path with
  | some p => .includeStr p
  | none => .literal src ""

def pushRangesOf (push : Option (Nat × Stages)) : List RPushRange :=
  match push with
  | some p => [⟨"PUSH_CONSTANT_STAGES", 0, p.1⟩]
  | none => []

/-- `pretty_print`: `syn::parse_file(..).unwrap()` panics when a WGSL name is a Rust keyword -/
def finish (o : Options) (out : Out) : G Out :=
  if !o.rustfmt && (emittedIdents out).any (fun n => rustKeywords.contains n) then
    .error (.panic "unparsable-output")
  else .ok out

/-- `create_shader_module_inner` after the parse/validate gates (C17 covers those). -/
def gen (m : Module) (o : Options) (src : String) (path : Option String) : G Out := do
  let data ← getBindGroupData m
  let gs := globalShaderStages m
  let structs ← structs m o
  let cs := consts m
  let (groups, bindModule) ← bindGroupsModule m data gs
  let vertex ← vertexStructMethods m
  let compute := computeModule m
  let entryConsts := entryPointConstants m
  let ves ← vertexEntries m
  let fes := fragmentEntries m
  let push ← pushConstantRangeStages m gs
  let ovs ← pipelineOverridableConstants m
  finish o
    { structs := structs, consts := cs, overrides := ovs, groups := groups, bindModule := bindModule
      vertex := vertex, entryConsts := entryConsts, vertexEntries := ves, fragmentEntries := fes
      compute := compute
      source := sourceOf src path
      pushStages := push.map fun p => ("PUSH_CONSTANT_STAGES", p.2)
      pipelineGroups := data.map (·.1)
      pushRanges := pushRangesOf push
      boiler := entryBoiler m ++ [("fn:create_shader_module", createShaderModuleText)]
      unknown := [] }

end WgslVerif
