import WgslVerif.Model.Types
/-
Model of `consts.rs`: `consts`, `pipeline_overridable_constants`, `override_key`.
Float values are carried as IEEE bit patterns; the decimal text `quote!` prints and rustc
reads back is outside the model (the extractor re-parses it with Rust's own `str::parse`).
-/
namespace WgslVerif

/-- `type = value` pair chosen for a literal -/
def constTypeAndValue : Lit → String × LitVal
  | .f64 b => ("f64", .fval b "f64")
  | .f32 b => ("f32", .fval b "f32")
  | .u32 n => ("u32", .ival n "u32")
  | .i32 n => ("i32", .ival n "i32")
  | .u64 n => ("u64", .ival n "u64")
  | .bool b => ("bool", .bval b)
  | .i64 n => ("i64", .ival n "i64")
  | .abstractInt n => ("i64", .ival n "i64")
  | .abstractFloat b => ("f64", .fval b "f64")

/-- `consts` -/
def consts (m : Module) : List RConst :=
  m.consts.filterMap fun c =>
    match c.name, c.init with
    | some n, some l =>
      let tv := constTypeAndValue l
      some { name := n, ty := tv.1, val := tv.2 }
    | _, _ => none

/-- `override_key`: the decimal `@id` when present, the name otherwise -/
def overrideKey (ov : Override) : G String :=
  match ov.name with
  | none => .error (.panic "unwrap:override-name")
  | some n =>
    match ov.id with
    | some i => .ok (toString i)
    | none => .ok n

def isBoolScalar (m : Module) (h : Nat) : Bool :=
  match m.types[h]? with
  | some ty =>
    match ty.inner with
    | .scalar s => s.kind == .bool
    | _ => false
  | none => false

def overrideEntry (m : Module) (ov : Override) : G ROverrideEntry := do
  let key ← overrideKey ov
  let name ← unwrapName "override-name" ov.name
  pure { key := key, field := name, conv := if isBoolScalar m ov.ty then .bool else .cast }

/-- `rust_type(module, &module.types[o.ty], MatrixVectorTypes::Rust)` -/
def overrideFieldType (m : Module) (ov : Override) : G RustTy :=
  match m.types[ov.ty]? with
  | some t => rustType m .rust (typeFuel m) t
  | none => .error (.panic "bad-handle")

/-- `pipeline_overridable_constants` -/
def pipelineOverridableConstants (m : Module) : G (Option ROverrides) := do
  let fields ← m.overrides.mapM fun ov => do
    let name ← unwrapName "override-name" ov.name
    let ty ← overrideFieldType m ov
    pure (name, if ov.hasInit then RustTy.option ty else ty)
  let required ← (m.overrides.filter fun ov => !ov.hasInit).mapM (overrideEntry m)
  let optional ← (m.overrides.filter fun ov => ov.hasInit).mapM (overrideEntry m)
  if fields.isEmpty then pure none
  else pure (some { fields := fields, required := required, optional := optional,
                    mutable := !optional.isEmpty })

end WgslVerif
