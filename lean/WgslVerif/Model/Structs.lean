import WgslVerif.Model.Types
import WgslVerif.Model.TypeClosure
/-
Model of `structs.rs:10-245`: the struct filter, `rust_struct`, `struct_members`,
`struct_has_rts_array_member`, the derive list, the layout assertions and the documented
panics for unsupported runtime-array combinations.
-/
namespace WgslVerif

def isBuiltinMember (mem : Member) : Bool :=
  match mem.binding with
  | some (.builtin _) => true
  | _ => false

def isDynArray (m : Module) (h : Nat) : Bool :=
  match m.types[h]? with
  | some ty => match ty.inner with
    | .array _ .dynamic _ => true
    | _ => false
  | none => false

/-- `struct_has_rts_array_member` -/
def structHasRtsArrayMember (m : Module) (members : List Member) : Bool :=
  members.any fun mem => isDynArray m mem.ty

/-- `struct_members`: one field per (non-builtin) member; `idx` counts from 0, `len` = number of members -/
def structMembersFrom (m : Module) (o : Options) (len : Nat) : Nat → List Member → G (List RField)
  | _, [] => .ok []
  | idx, mem :: rest => do
    let name ← unwrapName "member-name" mem.name
    let ty ← match m.types[mem.ty]? with
      | some t => pure t
      | none => .error (.panic "bad-handle")
    let field ← match ty.inner with
      | .array base .dynamic _ =>
        if idx ≠ len - 1 then .error (.panic "rts-not-last")
        else match m.types[base]? with
          | some bt => do
            let e ← rustType m o.repr (typeFuel m) bt
            pure ({ name := name, ty := .vec e, runtime := true } : RField)
          | none => .error (.panic "bad-handle")
      | _ => do
        let t ← rustType m o.repr (typeFuel m) ty
        pure ({ name := name, ty := t, runtime := false } : RField)
    let restFields ← structMembersFrom m o len (idx + 1) rest
    pure (field :: restFields)

def structMembers (m : Module) (o : Options) (members : List Member) : G (List RField) :=
  structMembersFrom m o members.length 0 members

/-- the derive list of `rust_struct` (after the panics have been ruled out) -/
def deriveListB (bmVertex bmHost encase serde hasRts isHostShareable : Bool) : List String :=
  ["Debug"] ++ (if !hasRts then ["Copy"] else []) ++ ["Clone", "PartialEq"] ++
  (if bmVertex && !isHostShareable then ["bytemuck::Pod", "bytemuck::Zeroable"] else []) ++
  (if bmHost && isHostShareable then ["bytemuck::Pod", "bytemuck::Zeroable"] else []) ++
  (if encase && isHostShareable then ["encase::ShaderType"] else []) ++
  (if serde then ["serde::Serialize", "serde::Deserialize"] else [])

def deriveList (o : Options) (hasRts isHostShareable : Bool) : List String :=
  deriveListB o.bmVertex o.bmHost o.encase o.serde hasRts isHostShareable

/-- `rust_struct` -/
def rustStruct (m : Module) (o : Options) (gvt : List Nat) (h : Nat) (t : Ty)
    (allMembers : List Member) : G RStruct := do
  let structName ← unwrapName "struct-name" t.name
  let members := allMembers.filter fun mem => !isBuiltinMember mem
  -- assert_member_offsets (built eagerly: the member names are unwrapped here first)
  let offsetAsserts ← members.mapM fun mem => do
    let n ← unwrapName "member-name" mem.name
    pure (RAssert.offset structName n mem.offset
      ("offset of " ++ structName ++ "." ++ n ++ " does not match WGSL"))
  let sizeAssert := RAssert.size structName t.laySize ("size of " ++ structName ++ " does not match WGSL")
  let hasRts := structHasRtsArrayMember m members
  let fields ← structMembers m o members
  let isHostShareable := gvt.contains h
  if hasRts && !o.encase then .error (.panic "rts-needs-encase")
  else if o.bmVertex && !isHostShareable && hasRts then .error (.panic "rts-bytemuck")
  else if o.bmHost && isHostShareable && hasRts then .error (.panic "rts-bytemuck")
  else
    pure { name := structName
           reprC := !hasRts
           derives := deriveList o hasRts isHostShareable
           fields := fields
           asserts := if o.bmHost && isHostShareable then sizeAssert :: offsetAsserts else [] }

/-- the filter of `structs()`:  `!isResult && isArgument || global_variable_types.contains(h)` -/
def structWanted (m : Module) (gvt : List Nat) (h : Nat) : Bool :=
  (!(m.entries.any fun e => (e.fn.result.map (·.1)) == some h) &&
    (m.entries.any fun e => e.fn.args.any fun a => a.1 == h)) || gvt.contains h

/-- the types in arena order paired with their handle -/
def indexed (l : List α) : List (Nat × α) := (List.range l.length).zip l

/-- `structs`, with the `HashSet` of variable types as a parameter (it is only ever asked
`contains`; C18 proves the result does not depend on its iteration order) -/
def structsWith (m : Module) (o : Options) (gvt : List Nat) : G (List RStruct) :=
  ((indexed m.types).filter fun ht => structWanted m gvt ht.1).filterMapM fun ht =>
    match ht.2.inner with
    | .struct members _ => do
      let s ← rustStruct m o gvt ht.1 ht.2 members
      pure (some s)
    | _ => pure none

/-- `structs` -/
def structs (m : Module) (o : Options) : G (List RStruct) :=
  structsWith m o (globalVariableTypes m)

end WgslVerif
