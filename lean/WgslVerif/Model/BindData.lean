import WgslVerif.IR
import WgslVerif.Out
/-
Model of `bindgroup.rs:388-430 get_bind_group_data`.

The `BTreeMap<u32, GroupData>` is an association list with strictly ascending keys
(`upsert` = `groups.entry(g).or_insert(empty)` followed by the duplicate scan and push).
-/
namespace WgslVerif

/-- `GroupBinding` (the group number is carried along for the specification). -/
structure GroupBinding where
  group : Nat
  binding : Nat
  name : Option String
  ty : Nat
  space : Space
  deriving DecidableEq, Repr, Inhabited

abbrev Groups := List (Nat × List GroupBinding)

/-- `groups.entry(g).or_insert(empty)` + duplicate scan + push -/
def upsert (b : GroupBinding) : Groups → Except GenError Groups
  | [] => .ok [(b.group, [b])]
  | (k, bs) :: rest =>
    if b.group < k then .ok ((b.group, [b]) :: (k, bs) :: rest)
    else if b.group = k then
      if bs.any (fun x => x.binding = b.binding) then .error (.duplicateBinding b.binding)
      else .ok ((k, bs ++ [b]) :: rest)
    else match upsert b rest with
      | .ok r => .ok ((k, bs) :: r)
      | .error e => .error e

def collect : List GroupBinding → Groups → Except GenError Groups
  | [], gs => .ok gs
  | b :: bs, gs => match upsert b gs with
      | .ok gs' => collect bs gs'
      | .error e => .error e

/-- the function on the list of bound variables, in declaration order -/
def getBindGroupDataOf (bs : List GroupBinding) : Except GenError Groups :=
  match collect bs [] with
  | .error e => .error e
  | .ok gs => if gs.map (·.1) = List.range gs.length then .ok gs else .error .nonConsecutive

/-- the bound global variables of a module, in declaration (arena) order -/
def boundGlobals (m : Module) : List GroupBinding :=
  m.globals.filterMap fun g =>
    match g.binding with
    | some (grp, b) => some { group := grp, binding := b, name := g.name, ty := g.ty, space := g.space }
    | none => none

def getBindGroupData (m : Module) : Except GenError Groups :=
  getBindGroupDataOf (boundGlobals m)

end WgslVerif
