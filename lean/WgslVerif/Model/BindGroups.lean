import WgslVerif.Model.Types
import WgslVerif.Model.BindData
import WgslVerif.Model.Stages
/-
Model of `bindgroup.rs:20-386`: `bind_groups_module`, `bind_group_layout`,
`bind_group_layout_descriptor`, `bind_group_layout_entry`, `storage_access`, `bind_group`.
-/
namespace WgslVerif

inductive BindClass | buffer | image | sampler | unsupported
  deriving DecidableEq, Repr

/-- the three-way case split all three emitters share -/
def bindClass (ty : Ty) : BindClass :=
  match ty.inner with
  | .struct .. | .array .. | .scalar _ | .vector .. | .matrix .. => .buffer
  | .image .. => .image
  | .sampler _ => .sampler
  | _ => .unsupported

def bindingTyOf (m : Module) (b : GroupBinding) : G Ty :=
  match m.types[b.ty]? with
  | some t => .ok t
  | none => .error (.panic "bad-handle")

/-- `bind_group_layout`: the fields of `BindGroupLayoutN` -/
def layoutFields (m : Module) (bs : List GroupBinding) : G (List (String × ResKind)) :=
  bs.mapM fun b => do
    let name ← unwrapName "binding-name" b.name
    let ty ← bindingTyOf m b
    match bindClass ty with
    | .buffer => pure (name, ResKind.buffer)
    | .image => pure (name, ResKind.texture)
    | .sampler => pure (name, ResKind.sampler)
    | .unsupported => .error (.panic "unsupported-binding-type")

/-- `storage_access` -/
def storageAccess (a : Access) : G StAccess :=
  if a.atomic then .ok .atomic
  else match a.load, a.store with
    | true, true => .ok .readWrite
    | true, false => .ok .readOnly
    | false, true => .ok .writeOnly
    | false, false => todo "storage-access"

def viewDim (dim : ImageDim) (arrayed : Bool) : G ViewDim :=
  match dim, arrayed with
  | .d1, false => .ok .d1
  | .d2, false => .ok .d2
  | .d2, true => .ok .d2Array
  | .d3, false => .ok .d3
  | .cube, false => .ok .cube
  | .cube, true => .ok .cubeArray
  | _, _ => .error (.panic "unsupported-image-dimension")

/-- the `ty:` of `bind_group_layout_entry` -/
def bindingType (ty : Ty) (space : Space) : G BindingTy :=
  match ty.inner with
  | .struct .. | .array .. | .scalar _ | .vector .. | .matrix .. =>
    .ok (.buffer (bufferBindingType space) false)
  | .image dim arrayed cls => do
    let vd ← viewDim dim arrayed
    match cls with
    | .sampled k multi =>
      match k with
      | .sint => pure (.texture .sint vd multi)
      | .uint => pure (.texture .uint vd multi)
      | .float => pure (.texture (.float true) vd multi)   -- "TODO: Don't assume all textures are filterable."
      | _ => todo "sample-kind"
    | .depth multi => pure (.texture .depth vd multi)
    | .storage fmt access => do
      let acc ← storageAccess access
      pure (.storageTexture acc fmt vd)
  | .sampler cmp => .ok (.sampler (if cmp then .comparison else .filtering))
  | _ => .error (.panic "unsupported-binding-type")

/-- `bind_group_layout_entry` -/
def layoutEntry (m : Module) (gs : StageMap) (b : GroupBinding) : G REntry := do
  let vis := match b.name.bind gs.get? with
    | some s => s
    | none => Stages.none
  let ty ← bindingTyOf m b
  let bt ← bindingType ty b.space
  pure { binding := b.binding, vis := vis, ty := bt }

/-- the `entries:` of `bind_group` -/
def bindEntries (m : Module) (bs : List GroupBinding) : G (List RBindEntry) :=
  bs.mapM fun b => do
    let name ← unwrapName "binding-name" b.name
    let ty ← bindingTyOf m b
    match bindClass ty with
    | .buffer => pure ⟨b.binding, .buffer, name⟩
    | .image => pure ⟨b.binding, .textureView, name⟩
    | .sampler => pure ⟨b.binding, .sampler, name⟩
    | .unsupported => .error (.panic "unsupported-binding-type")

/-- everything emitted for one group -/
def groupFacts (m : Module) (gs : StageMap) (no : Nat) (bs : List GroupBinding) : G RGroup := do
  let lf ← layoutFields m bs
  let ents ← bs.mapM (layoutEntry m gs)
  let bes ← bindEntries m bs
  pure { no := no, layoutFields := lf
         descLabel := "LayoutDescriptor" ++ toString no
         entries := ents
         layoutFnDesc := no, fromLayoutStruct := no, fromDesc := no
         bindLabel := "BindGroup" ++ toString no
         bindEntries := bes, setIndex := no }

def setBindGroupTraitText : String :=
  "pub trait SetBindGroup { fn set_bind_group ( & mut self , index : u32 , bind_group : & wgpu :: BindGroup , offsets : & [ wgpu :: DynamicOffset ] ) ; }"

def passImplsStd : List RPassImpl :=
  [⟨"wgpu :: ComputePass < '_ >", ["index", "bind_group", "offsets"]⟩,
   ⟨"wgpu :: RenderPass < '_ >", ["index", "bind_group", "offsets"]⟩,
   ⟨"wgpu :: RenderBundleEncoder < '_ >", ["index", "bind_group", "offsets"]⟩]

/-- `bind_groups_module` -/
def bindGroupsModule (m : Module) (data : Groups) (gs : StageMap) :
    G (List RGroup × Option RBindModule) := do
  let groups ← data.mapM fun (kb : Nat × List GroupBinding) => groupFacts m gs kb.1 kb.2
  let keys := data.map (·.1)
  let bm : Option RBindModule :=
    if groups.isEmpty then none
    else some { bgFields := keys.map fun k => (k, k)
                bgSet := keys
                traitText := setBindGroupTraitText
                passImpls := passImplsStd
                setParams := keys.map fun k => (k, k)
                setCalls := keys }
  pure (groups, bm)

end WgslVerif
