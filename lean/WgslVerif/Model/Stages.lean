import WgslVerif.IR
/-
Model of `wgsl.rs:9-100`: `global_shader_stages`, `update_stages`, `update_stages_blocks`,
`entry_stages` -- the memoised version (one visited set of function handles per entry point).

* `&mut BTreeMap<String, ShaderStages>` is an association list used only through
  `get`/`entry().or_insert(NONE)` + `union` (`StageMap.add`);
* `&mut HashSet<Handle<Function>>` is a `List Nat` used only through `contains`/`insert`;
* recursion over the call graph takes fuel (`functions.length + 1` for an entry point; adequate
  under `CallsEarlier`, `Lemmas/Stages.lean`);
* the two counters are the ones the cfg-guarded hooks in /repo count
  (`verif_hooks::tick_stage_fn`, `tick_stage_stmt`).
-/
namespace WgslVerif

abbrev StageMap := List (String × Stages)

namespace StageMap
def get? (m : StageMap) (n : String) : Option Stages :=
  match m with
  | [] => none
  | (k, v) :: rest => if k = n then some v else get? rest n

/-- `*entry(name).or_insert(NONE) = that.union(stage)` -/
def add (m : StageMap) (n : String) (s : Stages) : StageMap :=
  match m with
  | [] => [(n, Stages.none.union s)]
  | (k, v) :: rest => if k = n then (k, v.union s) :: rest else (k, v) :: add rest n s

def getD (m : StageMap) (n : String) : Stages := (m.get? n).getD Stages.none
end StageMap

structure StState where
  stages : StageMap
  visited : List Nat
  fnVisits : Nat
  stmtVisits : Nat
  deriving Repr, Inhabited

def StState.tickStmt (st : StState) : StState := { st with stmtVisits := st.stmtVisits + 1 }

/-- `if visited.insert(f) { update_stages(module, &module.functions[f], …) }` -/
def visitCall (rec : Nat → StState → StState) (f : Nat) (st : StState) : StState :=
  if f ∈ st.visited then st else rec f { st with visited := f :: st.visited }

mutual
/-- one iteration of the `for statement in block.iter()` loop of `update_stages_blocks` -/
def walkStmt (rec : Nat → StState → StState) : Stmt → StState → StState
  | .call f _, st => visitCall rec f st.tickStmt
  | .block b, st => walkList rec b st.tickStmt
  | .ifs a r, st => walkList rec r (walkList rec a st.tickStmt)
  | .switch cs, st => walkCases rec cs st.tickStmt
  | .loop b c, st => walkList rec c (walkList rec b st.tickStmt)
  | .other _, st => st.tickStmt
/-- `update_stages_blocks` -/
def walkList (rec : Nat → StState → StState) : List Stmt → StState → StState
  | [], st => st
  | s :: ss, st => walkList rec ss (walkStmt rec s st)
def walkCases (rec : Nat → StState → StState) : List (List Stmt) → StState → StState
  | [], st => st
  | c :: cs, st => walkCases rec cs (walkList rec c st)
end

/-- one iteration of the expression loop of `update_stages` -/
def exprStep (m : Module) (stage : Stages) (rec : Nat → StState → StState) (st : StState) :
    Expr → StState
  | .global g =>
    match (m.globals[g]?).bind (·.name) with
    | some n => { st with stages := st.stages.add n stage }
    | none => st
  | .callResult f => visitCall rec f st
  | .other => st

/-- `update_stages` -/
def updateStages (m : Module) (stage : Stages) : Nat → Fn → StState → StState
  | 0, _, st => st
  | fuel + 1, f, st =>
    let rec' : Nat → StState → StState := fun h s =>
      match m.functions[h]? with
      | some g => updateStages m stage fuel g s
      | none => s
    let st := { st with fnVisits := st.fnVisits + 1 }
    let st := walkList rec' f.body st
    f.exprs.foldl (exprStep m stage rec') st

/-- the body of the `for entry in &module.entry_points` loop: a fresh visited set per entry -/
def entryStep (m : Module) (st : StState) (e : EntryPoint) : StState :=
  let r := updateStages m (Stages.ofStage e.stage) (m.functions.length + 1) e.fn { st with visited := [] }
  r

def globalShaderStagesSt (m : Module) : StState :=
  m.entries.foldl (entryStep m) { stages := [], visited := [], fnVisits := 0, stmtVisits := 0 }

/-- `global_shader_stages` -/
def globalShaderStages (m : Module) : StageMap := (globalShaderStagesSt m).stages

/-- `entry_stages`: union of the stages of all entry points -/
def entryStages (m : Module) : Stages :=
  m.entries.foldl (fun s e => s.union (Stages.ofStage e.stage)) Stages.none

end WgslVerif
