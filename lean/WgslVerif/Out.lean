import WgslVerif.IR
/-
`Out`: the generated Rust module as a record of structured *facts*.
The Lean model produces an `Out`; the harness extracts an `Out` from the real text
(`harness/src/facts.rs`, decoded in `DecodeOut.lean`).
-/
namespace WgslVerif

inductive RustTy
  | prim (s : String)                       -- i8 u8 i16 u16 i32 u32 i64 u64 f32 f64 bool
  | array (t : RustTy) (n : Nat)
  | glam (s : String)                       -- glam::<s>
  | nalgebraV (t : RustTy) (n : Nat)        -- nalgebra::SVector<t, n>
  | nalgebraM (t : RustTy) (r c : Nat)      -- nalgebra::SMatrix<t, r, c>
  | named (s : String)
  | vec (t : RustTy)                        -- Vec<t>
  | option (t : RustTy)
  | unknown (s : String)
  deriving DecidableEq, Repr, Inhabited

structure RField where
  name : String
  ty : RustTy
  /-- carries `#[size(runtime)]` -/
  runtime : Bool
  deriving DecidableEq, Repr, Inhabited

inductive RAssert
  | size (s : String) (n : Nat) (msg : String)
  | offset (s f : String) (n : Nat) (msg : String)
  deriving DecidableEq, Repr, Inhabited

structure RStruct where
  name : String
  reprC : Bool
  derives : List String
  fields : List RField
  asserts : List RAssert
  deriving DecidableEq, Repr, Inhabited

inductive LitVal
  | ival (v : Int) (suffix : String)
  | fval (bits : Nat) (suffix : String)
  | bval (b : Bool)
  deriving DecidableEq, Repr, Inhabited

structure RConst where
  name : String
  ty : String
  val : LitVal
  deriving DecidableEq, Repr, Inhabited

inductive Conv | cast | bool
  deriving DecidableEq, Repr, Inhabited

structure ROverrideEntry where
  key : String
  field : String
  conv : Conv
  deriving DecidableEq, Repr, Inhabited

structure ROverrides where
  fields : List (String × RustTy)
  required : List ROverrideEntry
  optional : List ROverrideEntry
  mutable : Bool
  deriving DecidableEq, Repr, Inhabited

inductive BufTy | uniform | storage (readOnly : Bool)
  deriving DecidableEq, Repr, Inhabited

inductive SampleTy | float (filterable : Bool) | sint | uint | depth
  deriving DecidableEq, Repr, Inhabited

inductive ViewDim | d1 | d2 | d2Array | d3 | cube | cubeArray
  deriving DecidableEq, Repr, Inhabited

inductive StAccess | readOnly | writeOnly | readWrite | atomic
  deriving DecidableEq, Repr, Inhabited

inductive SamplerTy | filtering | nonFiltering | comparison
  deriving DecidableEq, Repr, Inhabited

inductive BindingTy
  | buffer (t : BufTy) (dynOffset : Bool)
  | texture (s : SampleTy) (view : ViewDim) (multi : Bool)
  | storageTexture (access : StAccess) (fmt : String) (view : ViewDim)
  | sampler (k : SamplerTy)
  deriving DecidableEq, Repr, Inhabited

structure REntry where
  binding : Nat
  vis : Stages
  ty : BindingTy
  deriving DecidableEq, Repr, Inhabited

inductive ResKind | buffer | texture | sampler
  deriving DecidableEq, Repr, Inhabited

/-- `wgpu::BindingResource` constructor used in a bind group entry -/
inductive ResCtor | buffer | textureView | sampler
  deriving DecidableEq, Repr, Inhabited

structure RBindEntry where
  binding : Nat
  ctor : ResCtor
  field : String
  deriving DecidableEq, Repr, Inhabited

structure RGroup where
  no : Nat
  layoutFields : List (String × ResKind)
  descLabel : String
  entries : List REntry
  /-- index of the `LAYOUT_DESCRIPTORk` used by `get_bind_group_layout` -/
  layoutFnDesc : Nat
  /-- `from_bindings(device, bindings: BindGroupLayoutk)` -/
  fromLayoutStruct : Nat
  /-- `LAYOUT_DESCRIPTORk` used inside `from_bindings` -/
  fromDesc : Nat
  bindLabel : String
  bindEntries : List RBindEntry
  /-- index passed to `pass.set_bind_group` by `set` -/
  setIndex : Nat
  deriving DecidableEq, Repr, Inhabited

structure RPassImpl where
  target : String
  args : List String
  deriving DecidableEq, Repr, Inhabited

structure RBindModule where
  /-- `BindGroups` struct: (field index, type index) -/
  bgFields : List (Nat × Nat)
  /-- `BindGroups::set` calls, in order -/
  bgSet : List Nat
  traitText : String
  passImpls : List RPassImpl
  /-- `set_bind_groups` parameters (param index, type index) and call order -/
  setParams : List (Nat × Nat)
  setCalls : List Nat
  deriving DecidableEq, Repr, Inhabited

structure RAttr where
  format : String
  ofStruct : String
  field : String
  location : Nat
  deriving DecidableEq, Repr, Inhabited

structure RVertex where
  name : String
  count : Nat
  attrs : List RAttr
  strideOf : String
  attrsOf : String
  deriving DecidableEq, Repr, Inhabited

inductive ConstSrc | overrides | default
  deriving DecidableEq, Repr, Inhabited

structure RVertexEntry where
  fnName : String
  n : Nat
  params : List (String × String)
  entryConst : String
  buffers : List (String × String)     -- (struct, step-mode parameter)
  constants : ConstSrc
  deriving DecidableEq, Repr, Inhabited

structure RFragmentEntry where
  fnName : String
  n : Nat
  params : List (String × String)
  entryConst : String
  constants : ConstSrc
  deriving DecidableEq, Repr, Inhabited

inductive RCompute
  | wg (name : String) (x y z : Nat)
  | pipeline (fnName label entry : String)
  deriving DecidableEq, Repr, Inhabited

inductive RSource
  | literal (value : String) (raw : String)
  | includeStr (path : String)
  deriving DecidableEq, Repr, Inhabited

structure RPushRange where
  stagesRef : String
  lo : Nat
  hi : Nat
  deriving DecidableEq, Repr, Inhabited

structure Out where
  structs : List RStruct
  consts : List RConst
  overrides : Option ROverrides
  groups : List RGroup
  bindModule : Option RBindModule
  vertex : List RVertex
  entryConsts : List (String × String)
  vertexEntries : List RVertexEntry
  fragmentEntries : List RFragmentEntry
  compute : List RCompute
  source : RSource
  pushStages : Option (String × Stages)
  pipelineGroups : List Nat
  pushRanges : List RPushRange
  /-- fixed template items, as normalised token text: (key, text) -/
  boiler : List (String × String)
  /-- anything the extractor could not classify (always `[]` for the model) -/
  unknown : List (String × String)
  deriving DecidableEq, Repr, Inhabited

/-- What a call of the generator can result in. -/
inductive GenError
  | parseError
  | validationError
  | duplicateBinding (b : Nat)
  | nonConsecutive
  | panic (tag : String)
  deriving DecidableEq, Repr, Inhabited

end WgslVerif
