import WgslVerif.Sexp
import WgslVerif.IR
/-
Decoder for the IR wire format written by `harness/src/irdump.rs`.
Driver-side code only (no theorem refers to it).  Every decoder is strict: an
unknown tag or a wrong arity makes the whole case undecodable, which the driver
reports; nothing is defaulted.
-/
namespace WgslVerif
open Sexp

namespace Dec

def kind? : Sexp → Option ScalarKind
  | atom "sint" => some .sint | atom "uint" => some .uint | atom "float" => some .float
  | atom "bool" => some .bool | atom "aint" => some .abstractInt | atom "afloat" => some .abstractFloat
  | _ => none

def vec? : Sexp → Option VecSize
  | atom "2" => some .bi | atom "3" => some .tri | atom "4" => some .quad
  | _ => none

def name? : Sexp → Option (Option String) := asOpt? asStr?

def binding? : Sexp → Option (Option Binding) :=
  asOpt? fun
    | list [atom "builtin", str t] => some (.builtin t)
    | list [atom "location", n] => (asNat? n).map .location
    | _ => none

def member? : Sexp → Option Member
  | list [atom "m", n, ty, b, off] => do
    pure { name := ← name? n, ty := ← asNat? ty, binding := ← binding? b, offset := ← asNat? off }
  | _ => none

def access? (l s a : Sexp) : Option Access := do
  pure { load := ← asBool? l, store := ← asBool? s, atomic := ← asBool? a }

def dim? : Sexp → Option ImageDim
  | atom "d1" => some .d1 | atom "d2" => some .d2 | atom "d3" => some .d3 | atom "cube" => some .cube
  | _ => none

def cls? : Sexp → Option ImageClass
  | list [atom "sampled", k, m] => do pure (.sampled (← kind? k) (← asBool? m))
  | list [atom "depth", m] => do pure (.depth (← asBool? m))
  | list [atom "storage", str f, l, s, a] => do pure (.storage f (← access? l s a))
  | _ => none

def asize? : Sexp → Option ArraySize
  | list [atom "const", n] => (asNat? n).map .const
  | atom "dynamic" => some .dynamic
  | atom "pending" => some .pending
  | _ => none

def inner? : Sexp → Option TypeInner
  | list [atom "scalar", k, w] => do pure (.scalar ⟨← kind? k, ← asNat? w⟩)
  | list [atom "vector", n, k, w] => do pure (.vector (← vec? n) ⟨← kind? k, ← asNat? w⟩)
  | list [atom "matrix", c, r, k, w] => do pure (.matrix (← vec? c) (← vec? r) ⟨← kind? k, ← asNat? w⟩)
  | list [atom "atomic", k, w] => do pure (.atomic ⟨← kind? k, ← asNat? w⟩)
  | list [atom "pointer", b] => do pure (.pointer (← asNat? b))
  | atom "valuePointer" => some .valuePointer
  | list [atom "array", b, s, st] => do pure (.array (← asNat? b) (← asize? s) (← asNat? st))
  | list (atom "struct" :: span :: ms) => do pure (.struct (← ms.mapM member?) (← asNat? span))
  | list [atom "image", d, a, c] => do pure (.image (← dim? d) (← asBool? a) (← cls? c))
  | list [atom "sampler", c] => do pure (.sampler (← asBool? c))
  | atom "accel" => some .accel
  | atom "rayQuery" => some .rayQuery
  | list [atom "bindingArray", b] => do pure (.bindingArray (← asNat? b))
  | _ => none

def ty? : Sexp → Option Ty
  | list [atom "ty", n, i, sz, ls, la, str snake] => do
    pure { name := ← name? n, inner := ← inner? i, size := ← asNat? sz,
           laySize := ← asNat? ls, layAlign := ← asNat? la, snake := snake }
  | _ => none

def space? : Sexp → Option Space
  | atom "function" => some .function | atom "private" => some .priv
  | atom "workgroup" => some .workgroup | atom "uniform" => some .uniform
  | atom "handle" => some .handle | atom "pushConstant" => some .pushConstant
  | list [atom "storage", l, s, a] => do pure (.storage (← access? l s a))
  | _ => none

def global? : Sexp → Option Global
  | list [atom "g", n, sp, b, ty] => do
    let b ← asOpt? (fun
      | list [g, i] => do pure ((← asNat? g), (← asNat? i))
      | _ => none) b
    pure { name := ← name? n, space := ← space? sp, binding := b, ty := ← asNat? ty }
  | _ => none

def lit? : Sexp → Option Lit
  | list [atom "f64", n] => (asNat? n).map .f64
  | list [atom "f32", n] => (asNat? n).map .f32
  | list [atom "u32", n] => (asNat? n).map .u32
  | list [atom "i32", n] => (asInt? n).map .i32
  | list [atom "u64", n] => (asNat? n).map .u64
  | list [atom "i64", n] => (asInt? n).map .i64
  | list [atom "bool", b] => (asBool? b).map .bool
  | list [atom "aint", n] => (asInt? n).map .abstractInt
  | list [atom "afloat", n] => (asNat? n).map .abstractFloat
  | _ => none

def const? : Sexp → Option Const
  | list [atom "c", n, l, ty] => do
    pure { name := ← name? n, init := ← asOpt? lit? l, ty := ← asNat? ty }
  | _ => none

def override? : Sexp → Option Override
  | list [atom "o", n, id, ty, hi] => do
    pure { name := ← name? n, id := ← asOpt? asNat? id, ty := ← asNat? ty, hasInit := ← asBool? hi }
  | _ => none

partial def stmt? : Sexp → Option Stmt
  | list [atom "call", f, r] => do pure (.call (← asNat? f) (← asBool? r))
  | list (atom "block" :: ss) => do pure (.block (← ss.mapM stmt?))
  | list [atom "if", list a, list r] => do pure (.ifs (← a.mapM stmt?) (← r.mapM stmt?))
  | list (atom "switch" :: cs) => do
    pure (.switch (← cs.mapM fun c => do (← asList? c).mapM stmt?))
  | list [atom "loop", list b, list c] => do pure (.loop (← b.mapM stmt?) (← c.mapM stmt?))
  | list [atom "o", atom t] => some (.other t)
  | _ => none

def expr? : Sexp → Option Expr
  | list [atom "g", n] => (asNat? n).map .global
  | list [atom "cr", n] => (asNat? n).map .callResult
  | atom "o" => some .other
  | _ => none

def tyBinding? : Sexp → Option (Nat × Option Binding)
  | list [ty, b] => do pure (← asNat? ty, ← binding? b)
  | _ => none

def fn? : Sexp → Option Fn
  | list [atom "fn", n, list (atom "args" :: as), list [atom "result", r],
          list (atom "body" :: ss), list (atom "exprs" :: es)] => do
    pure { name := ← name? n, args := ← as.mapM tyBinding?, result := ← asOpt? tyBinding? r,
           body := ← ss.mapM stmt?, exprs := ← es.mapM expr? }
  | _ => none

def stage? : Sexp → Option Stage
  | atom "vertex" => some .vertex | atom "fragment" => some .fragment | atom "compute" => some .compute
  | _ => none

def entry? : Sexp → Option EntryPoint
  | list [atom "ep", str n, str up, st, list [atom "wg", x, y, z], f] => do
    pure { name := n, upper := up, stage := ← stage? st,
           wg := (← asNat? x, ← asNat? y, ← asNat? z), fn := ← fn? f }
  | _ => none

def module? : Sexp → Option Module
  | list (atom "module" :: fs) => do
    pure { types := ← (← field? "types" fs).mapM ty?,
           globals := ← (← field? "globals" fs).mapM global?,
           consts := ← (← field? "consts" fs).mapM const?,
           overrides := ← (← field? "overrides" fs).mapM override?,
           functions := ← (← field? "functions" fs).mapM fn?,
           entries := ← (← field? "entries" fs).mapM entry? }
  | _ => none

def repr3? : Sexp → Option Repr3
  | atom "rust" => some .rust | atom "glam" => some .glam | atom "nalgebra" => some .nalgebra
  | _ => none

/-- `(options bmVertex bmHost encase serde repr rustfmt validate)` -/
def options? : Sexp → Option Options
  | list [atom "options", a, b, c, d, r, f, v] => do
    pure { bmVertex := ← asBool? a, bmHost := ← asBool? b, encase := ← asBool? c, serde := ← asBool? d,
           repr := ← repr3? r, rustfmt := ← asBool? f, validate := ← asBool? v }
  | _ => none

end Dec
end WgslVerif
