/-
Ext.RustLex – executable transcription of the Rust lexer's (non-raw) string-literal semantics
(`\n \r \t \\ \0 \' \" \xHH \u{…}`; a bare `"` or CR is not allowed inside), the relation
`EscOf s raw` = "raw is s with every character written verbatim (where allowed) or as one of its
legal escapes", and the round-trip theorem for ALL strings and ALL escape choices.
Validated against `syn::LitStr::value()` on every emitted literal (harness) and rustc (batch).
(ported from notes/rustlex_feasibility_probe.lean.txt)
-/
namespace WgslVerif
namespace RustLex

def hexVal (c : Char) : Option Nat :=
  if '0' ≤ c ∧ c ≤ '9' then some (c.toNat - '0'.toNat)
  else if 'a' ≤ c ∧ c ≤ 'f' then some (c.toNat - 'a'.toNat + 10)
  else if 'A' ≤ c ∧ c ≤ 'F' then some (c.toNat - 'A'.toNat + 10)
  else none

inductive St where
  | normal
  | bs                       -- after backslash
  | x1                       -- after \x
  | x2 (hi : Nat)            -- after \xH
  | u0                       -- after \u, expecting {
  | u (v : Nat) (n : Nat)    -- inside \u{...}: value so far, digits so far

def mkChar (v : Nat) : Option Char :=
  if v.isValidChar then some (Char.ofNat v) else none

/-- contents of a (non-raw) string literal → value; `none` = not a valid literal body -/
def unesc : St → List Char → Option (List Char)
  | .normal, [] => some []
  | _, [] => none
  | .normal, c :: r =>
      if c = '\\' then unesc .bs r
      else if c = '"' ∨ c = '\r' then none
      else (unesc .normal r).map (c :: ·)
  | .bs, c :: r =>
      if c = 'n' then (unesc .normal r).map ('\n' :: ·)
      else if c = 'r' then (unesc .normal r).map ('\r' :: ·)
      else if c = 't' then (unesc .normal r).map ('\t' :: ·)
      else if c = '\\' then (unesc .normal r).map ('\\' :: ·)
      else if c = '0' then (unesc .normal r).map ('\x00' :: ·)
      else if c = '\'' then (unesc .normal r).map ('\'' :: ·)
      else if c = '"' then (unesc .normal r).map ('"' :: ·)
      else if c = 'x' then unesc .x1 r
      else if c = 'u' then unesc .u0 r
      else none
  | .x1, c :: r => match hexVal c with
      | some h => if h < 8 then unesc (.x2 h) r else none
      | none => none
  | .x2 hi, c :: r => match hexVal c with
      | some lo => (unesc .normal r).map (Char.ofNat (hi * 16 + lo) :: ·)
      | none => none
  | .u0, c :: r => if c = '{' then unesc (.u 0 0) r else none
  | .u v n, c :: r =>
      if c = '}' then
        if n = 0 then none else match mkChar v with
          | some ch => (unesc .normal r).map (ch :: ·)
          | none => none
      else if c = '_' then unesc (.u v n) r
      else match hexVal c with
        | some d => if n < 6 then unesc (.u (v * 16 + d) (n + 1)) r else none
        | none => none

/-- value of a run of hex digits (most significant first), as the `\u{}` state accumulates it -/
def hexRun : Nat → List Char → Option Nat
  | v, [] => some v
  | v, c :: r => match hexVal c with
      | some d => hexRun (v * 16 + d) r
      | none => none

/-- one character's legal encodings inside a string literal -/
inductive EscChar : Char → List Char → Prop
  | verbatim (c) : c ≠ '\\' → c ≠ '"' → c ≠ '\r' → EscChar c [c]
  | nl : EscChar '\n' ['\\', 'n']
  | cr : EscChar '\r' ['\\', 'r']
  | tab : EscChar '\t' ['\\', 't']
  | bsl : EscChar '\\' ['\\', '\\']
  | nul : EscChar '\x00' ['\\', '0']
  | sq : EscChar '\'' ['\\', '\'']
  | dq : EscChar '"' ['\\', '"']
  | hex (h l hi lo) : hexVal h = some hi → hexVal l = some lo → hi < 8 →
      EscChar (Char.ofNat (hi * 16 + lo)) ['\\', 'x', h, l]
  | uni (c : Char) (ds : List Char) : ds ≠ [] → ds.length ≤ 6 → hexRun 0 ds = some c.toNat →
      EscChar c (['\\', 'u', '{'] ++ ds ++ ['}'])

inductive EscOf : List Char → List Char → Prop
  | nil : EscOf [] []
  | cons {c s e raw} : EscChar c e → EscOf s raw → EscOf (c :: s) (e ++ raw)

theorem unesc_u_run (r : List Char) :
    ∀ (ds : List Char) (v n w : Nat), hexRun v ds = some w → n + ds.length ≤ 6 →
      unesc (.u v n) (ds ++ '}' :: r) = unesc (.u w (n + ds.length)) ('}' :: r) := by
  intro ds
  induction ds with
  | nil => intro v n w h _; simp [hexRun] at h; subst h; simp
  | cons d ds ih =>
    intro v n w h hl
    simp only [hexRun] at h
    cases hd : hexVal d with
    | none => simp [hd] at h
    | some x =>
      simp only [hd] at h
      have hne1 : d ≠ '}' := by intro e; subst e; simp [hexVal] at hd
      have hne2 : d ≠ '_' := by intro e; subst e; simp [hexVal] at hd
      simp only [List.cons_append, unesc, hne1, hne2, if_false, hd]
      have : n < 6 := by simp at hl; omega
      simp only [this, if_true]
      rw [ih (v * 16 + x) (n + 1) w h (by simp at hl ⊢; omega)]
      have e : n + 1 + ds.length = n + (d :: ds).length := by simp; omega
      rw [e]
      simp [unesc]

theorem unesc_char {c e} (h : EscChar c e) (r : List Char) :
    unesc .normal (e ++ r) = (unesc .normal r).map (c :: ·) := by
  cases h with
  | verbatim c h1 h2 h3 => simp [unesc, h1, h2, h3]
  | nl => simp [unesc]
  | cr => simp [unesc]
  | tab => simp [unesc]
  | bsl => simp [unesc]
  | nul => simp [unesc]
  | sq => simp [unesc]
  | dq => simp [unesc]
  | hex h l hi lo h1 h2 h3 => simp [unesc, h1, h2, h3]
  | uni c ds hne hlen hrun =>
    have := unesc_u_run r ds 0 0 c.toNat hrun (by omega)
    simp only [List.append_assoc, List.cons_append, List.nil_append, unesc]
    simp (config := {decide := true}) only [if_false]
    rw [this]
    have hn : 0 + ds.length ≠ 0 := by
      cases ds with
      | nil => exact absurd rfl hne
      | cons _ _ => simp
    have hv : c.toNat.isValidChar := c.valid
    simp only [unesc, if_true, hn, if_false, mkChar, Char.ofNat_toNat, hv]

theorem unesc_of_esc {s raw} (h : EscOf s raw) : unesc .normal raw = some s := by
  induction h with
  | nil => simp [unesc]
  | cons hc _ ih => rw [unesc_char hc, ih]; rfl


/-- the value of a string-literal TOKEN (with its surrounding quotes); `none` = not a valid literal -/
def unescapeToken (tok : String) : Option String :=
  match tok.toList with
  | '"' :: rest =>
    match rest.reverse with
    | '"' :: bodyRev => (unesc .normal bodyRev.reverse).map String.ofList
    | _ => none
  | _ => none

end RustLex
end WgslVerif
