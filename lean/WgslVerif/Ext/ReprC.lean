import WgslVerif.Out
/-
`Ext.ReprC` – size, alignment and `#[repr(C)]` field placement of the Rust types the generator
emits, and `Ext.WgpuVertex` – the vertex-buffer rules of wgpu-core 24.0.5
`Device::create_render_pipeline` (device/resource.rs, the loop over `desc.vertex.buffers`).

Both are *transcriptions* (trusted base).  They are validated on every C07 run against the real
thing: the harness compiles the real generated modules with rustc against the real wgpu / glam and
prints `offset_of!` / `size_of` as evaluated by the compiler (`batch exec`); the driver compares them
with `ReprC.layout`.

Sizes/alignments are those of x86-64 with glam 0.29 default features (SSE2: `Vec4`, `Mat2`, `Mat4`
are 16-aligned; the integer and double vectors are not), measured with rustc.
-/
namespace WgslVerif

namespace ReprC

/-- (size, alignment) of a Rust primitive -/
def primSA (s : String) : Option (Nat × Nat) :=
  if s = "i8" ∨ s = "u8" ∨ s = "bool" then some (1, 1)
  else if s = "i16" ∨ s = "u16" then some (2, 2)
  else if s = "i32" ∨ s = "u32" ∨ s = "f32" then some (4, 4)
  else if s = "i64" ∨ s = "u64" ∨ s = "f64" then some (8, 8)
  else none

/-- (size, alignment) of `glam::<s>` -/
def glamSA (s : String) : Option (Nat × Nat) :=
  if s = "Vec2" then some (8, 4)
  else if s = "Vec3" then some (12, 4)
  else if s = "Vec4" then some (16, 16)
  else if s = "DVec2" then some (16, 8)
  else if s = "DVec3" then some (24, 8)
  else if s = "DVec4" then some (32, 8)
  else if s = "UVec2" then some (8, 4)
  else if s = "UVec3" then some (12, 4)
  else if s = "UVec4" then some (16, 4)
  else if s = "IVec2" then some (8, 4)
  else if s = "IVec3" then some (12, 4)
  else if s = "IVec4" then some (16, 4)
  else if s = "Mat2" then some (16, 16)
  else if s = "Mat3" then some (36, 4)
  else if s = "Mat4" then some (64, 16)
  else if s = "DMat2" then some (32, 8)
  else if s = "DMat3" then some (72, 8)
  else if s = "DMat4" then some (128, 8)
  else none

/-- (size, alignment) of an emitted field type; `none` for struct names (they need the
environment), `Vec`, `Option` and unclassified types -/
def sizeAlign : RustTy → Option (Nat × Nat)
  | .prim s => primSA s
  | .array t n => (sizeAlign t).map fun sa => (sa.1 * n, sa.2)
  | .glam s => glamSA s
  | .nalgebraV t n => (sizeAlign t).map fun sa => (sa.1 * n, sa.2)
  | .nalgebraM t r c => (sizeAlign t).map fun sa => (sa.1 * r * c, sa.2)
  | .named _ => none
  | .vec _ => none
  | .option _ => none
  | .unknown _ => none

/-- the next multiple of `a` at or after `x` (`a > 0`) -/
def roundUp (x a : Nat) : Nat := (x + a - 1) / a * a

/-- `#[repr(C)]` placement: every field at the next multiple of its alignment after the previous
field's end.  Returns the offsets and the end of the last field. -/
def place : Nat → List (Nat × Nat) → List Nat × Nat
  | off, [] => ([], off)
  | off, sa :: rest =>
    let o := roundUp off sa.2
    let r := place (o + sa.1) rest
    (o :: r.1, r.2)

/-- alignment of the struct: the largest field alignment (1 when there is no field) -/
def structAlign (items : List (Nat × Nat)) : Nat := items.foldl (fun a x => max a x.2) 1

/-- offsets of the fields and size of the struct -/
def layout (items : List (Nat × Nat)) : List Nat × Nat :=
  let r := place 0 items
  (r.1, roundUp r.2 (structAlign items))

end ReprC

namespace WgpuVertex

/-- one attribute of a buffer with the given `array_stride`:
`attribute.offset + format.size() <= max_stride` (`VertexAttributeStrideTooLarge`) and
`attribute.offset % min(format.size(), 4) == 0` (`InvalidVertexAttributeOffset`);
`max_stride` is the stride, or the device limit when the stride is 0 -/
def attrOk (limit stride : Nat) (a : Nat × Nat) : Bool :=
  let maxStride := if stride = 0 then limit else stride
  decide (a.1 + a.2 ≤ maxStride) && decide (a.1 % (min a.2 4) = 0) && decide (a.1 < 0x10000000)

/-- the device-independent rules for one vertex buffer layout:
`array_stride % VERTEX_STRIDE_ALIGNMENT == 0` (`UnalignedVertexStride`), `array_stride <= limit`
(`VertexStrideTooLarge`), and every attribute `(offset, format size)` passes `attrOk` -/
def bufferOk (limit stride : Nat) (attrs : List (Nat × Nat)) : Bool :=
  decide (stride % 4 = 0) && decide (stride ≤ limit) && attrs.all (attrOk limit stride)

end WgpuVertex

end WgslVerif
