import WgslVerif.IR
import WgslVerif.Out
/-
Ext.WgpuBinding – executable transcription of wgpu-core 24.0.5:

* `validation.rs:394-564` `Resource::check_binding_use` (`checkBindingUse`): compatibility of a
  shader resource (address space, type) with a `BindGroupLayoutEntry`;
* `device/resource.rs:1711-1887` the per-entry rules of `Device::create_bind_group_layout`
  (`bglEntryOk`), with every optional feature enabled.

Modelled, not verified.  `checkBindingUse` is validated on every generated shader against the
REAL `wgpu_core::validation::Interface::check_stage` (harness `oracle_wgpu`, Provided mode);
`bglEntryOk` is a transcription only (creating a layout needs a device).  The texture/sampler
filtering-pair rule of `check_stage` needs naga's sampling analysis and is not transcribed; it is
observed through the oracle only.
-/
namespace WgslVerif
namespace WgpuBinding

inductive BindErr
  | wrongAddressSpace | wrongType | wrongSamplerComparison | wrongTextureViewDimension
  | wrongTextureClass | notAResource
  deriving DecidableEq, Repr

/-- `naga::ImageClass` an entry's binding type stands for (validation.rs:494-544) -/
def expectedClass : BindingTy → Option ImageClass
  | .texture (.float _) _ multi => some (.sampled .float multi)
  | .texture .sint _ multi => some (.sampled .sint multi)
  | .texture .uint _ multi => some (.sampled .uint multi)
  | .texture .depth _ multi => some (.depth multi)
  | .storageTexture access fmt _ =>
    some (.storage fmt (match access with
      | .readOnly => ⟨true, false, false⟩
      | .writeOnly => ⟨false, true, false⟩
      | .readWrite => ⟨true, true, false⟩
      | .atomic => ⟨true, true, true⟩))
  | _ => none

def viewDimOf : BindingTy → Option ViewDim
  | .texture _ v _ => some v
  | .storageTexture _ _ v => some v
  | _ => none

/-- validation.rs:467-493 -/
def viewDimMatches (dim : ImageDim) (arrayed : Bool) (v : ViewDim) : Bool :=
  match arrayed, dim, v with
  | true, .d2, .d2Array => true
  | true, .cube, .cubeArray => true
  | false, .d1, .d1 => true
  | false, .d2, .d2 => true
  | false, .d3, .d3 => true
  | false, .cube, .cube => true
  | _, _, _ => false

/-- `Resource::check_binding_use` for a variable of address space `space` and type `inner`; `none` = accepted -/
def checkBindingUse (space : Space) (inner : TypeInner) (e : BindingTy) : Option BindErr :=
  match inner with
  | .image dim arrayed cls =>
    match viewDimOf e with
    | none => some .wrongTextureViewDimension
    | some v =>
      if !viewDimMatches dim arrayed v then some .wrongTextureViewDimension
      else match expectedClass e with
        | none => some .wrongType
        | some c => if c = cls then none else some .wrongTextureClass
  | .sampler comparison =>
    match e with
    | .sampler k => if (k == .comparison) != comparison then some .wrongSamplerComparison else none
    | _ => some .wrongType
  | .accel => some .wrongType
  | _ =>
    -- everything else is a buffer resource (validation.rs `Interface::new`)
    match e with
    | .buffer bt _ =>
      let cls : Space := match bt with
        | .uniform => .uniform
        | .storage readOnly => .storage ⟨true, !readOnly, false⟩
      if space = cls then none else some .wrongAddressSpace
    | _ => some .wrongType

inductive BglErr
  | sampleTypeFloatFilterableBindingMultisampled | non2DMultisampled | storageTextureCube
  deriving DecidableEq, Repr

/-- per-entry rules of `create_bind_group_layout` with all features and downlevel flags -/
def bglEntryOk (e : BindingTy) : Option BglErr :=
  match e with
  | .texture (.float true) _ true => some .sampleTypeFloatFilterableBindingMultisampled
  | .texture _ v true => if v ≠ .d2 then some .non2DMultisampled else none
  | .storageTexture _ _ .cube => some .storageTextureCube
  | .storageTexture _ _ .cubeArray => some .storageTextureCube
  | _ => none

end WgpuBinding
end WgslVerif
