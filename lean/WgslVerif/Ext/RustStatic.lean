import WgslVerif.Model.Top
/-
`Ext.RustStatic`: the static semantics of the Rust fragment the generator emits (C01), as an
executable predicate over the *facts* of a generated module (`Out`) and the options.

It is a TRANSCRIPTION (modelled, not verified) of the rules rustc and the derive macros of
bytemuck 1.25 / encase 0.10 (feature `glam`) / serde 1 / glam 0.29 (feature `bytemuck`) apply to the
items the generator can emit:

* every item of one namespace in one module has its own name (type namespace: user structs, the
  generated structs and modules; value namespace: user constants, `ENTRY_*`, `SOURCE`,
  `PUSH_CONSTANT_STAGES`, the generated functions); parameters of one function differ;
* a user struct must not shadow a crate or prelude name the generated code spells (`wgpu::..`,
  `std::..`, `glam::..`, `Option<..>`, ..);
* every name the generated code refers to is defined: field types, the struct of an attribute table
  and its fields, `ENTRY_*` of an entry helper, `S::vertex_buffer_layout` of a buffer, `OverrideConstants`;
* every derive is satisfiable by every field type (`Derive.implements`);
* a constant's literal has the constant's declared type;
* no WGSL-derived identifier is a Rust keyword.

It is validated on every C01 run against rustc itself, both ways: a module rustc accepts must have
no *definite* issue, and every rejection by rustc must be explained by an issue (harness `batch check`,
`checklib/props.py extra_c01`).  `unknown` issues mark inputs outside the transcription's domain
(lower-case constants, which unhygienic derive expansions may capture): rustc may go either way.
-/
namespace WgslVerif
namespace RustStatic

/-! ### Derive obligations per field type -/

def shaderTypeScalars : List String := ["f32", "u32", "i32"]

/-- glam types encase 0.10 implements `ShaderType` for (feature `glam`) -/
def shaderTypeGlam : List String :=
  ["Vec2", "Vec3", "Vec4", "UVec2", "UVec3", "UVec4", "IVec2", "IVec3", "IVec4", "Mat2", "Mat3", "Mat4"]

def findStruct (structs : List RStruct) (n : String) : Option RStruct :=
  structs.find? fun s => s.name == n

/-- does a field type implement the derivable trait `tr`?  `named n` answers for a struct type `n` -/
def implementsWith (named : String → Bool) (tr : String) : RustTy → Bool
  | .prim s =>
    if tr == "bytemuck::Pod" then s != "bool"
    else if tr == "encase::ShaderType" then shaderTypeScalars.contains s
    else true
  | .array t n =>
    -- serde implements its traits for arrays of at most 32 elements; bytemuck's default features include
    -- `min_const_generics` (`[T; N]` is Pod / Zeroable for every N); encase rejects zero-length arrays
    if tr == "serde::Serialize" || tr == "serde::Deserialize" then decide (n ≤ 32) && implementsWith named tr t
    else if tr == "encase::ShaderType" then n != 0 && implementsWith named tr t
    else implementsWith named tr t
  | .glam s =>
    if tr == "encase::ShaderType" then shaderTypeGlam.contains s else true
  | .nalgebraV _ _ => true
  | .nalgebraM _ _ _ => true
  | .named n => named n
  | .vec t =>
    if tr == "Copy" || tr == "bytemuck::Pod" || tr == "bytemuck::Zeroable" then false
    else implementsWith named tr t
  | .option t => implementsWith named tr t
  | .unknown _ => false

/-- a struct type implements a derivable trait iff it is emitted and derives it -/
def structDerives (structs : List RStruct) (tr : String) (n : String) : Bool :=
  match findStruct structs n with
  | some s => s.derives.contains tr
  | none => false

/-- does a field type implement the derivable trait `tr`, given the emitted structs and their derive lists? -/
def implements (structs : List RStruct) (tr : String) (t : RustTy) : Bool :=
  implementsWith (structDerives structs tr) tr t

/-- struct names a field type mentions -/
def namedIn : RustTy → List String
  | .named n => [n]
  | .array t _ => namedIn t
  | .nalgebraV t _ => namedIn t
  | .nalgebraM t _ _ => namedIn t
  | .vec t => namedIn t
  | .option t => namedIn t
  | _ => []

def usesGlam : RustTy → Bool
  | .glam _ => true
  | .array t _ => usesGlam t
  | .vec t => usesGlam t
  | .option t => usesGlam t
  | _ => false

def usesNalgebra : RustTy → Bool
  | .nalgebraV _ _ => true
  | .nalgebraM _ _ _ => true
  | .array t _ => usesNalgebra t
  | .vec t => usesNalgebra t
  | .option t => usesNalgebra t
  | _ => false

/-! ### Items per namespace -/

/-- module root, type namespace: user structs, generated structs, generated modules -/
def typeItems (o : Out) : List String :=
  o.structs.map (·.name) ++
  (o.boiler.filterMap fun kt =>
    if kt.1 == "struct:VertexEntry" then some "VertexEntry"
    else if kt.1 == "struct:FragmentEntry" then some "FragmentEntry" else none) ++
  (if o.overrides.isSome then ["OverrideConstants"] else []) ++
  (if o.bindModule.isSome then ["bind_groups"] else []) ++
  (if o.compute.isEmpty then [] else ["compute"])

/-- module root, value namespace: user constants, generated constants and functions -/
def valueItems (o : Out) : List String :=
  o.consts.map (·.name) ++
  o.entryConsts.map (·.1) ++
  ["SOURCE"] ++
  (match o.pushStages with | some p => [p.1] | none => []) ++
  (o.boiler.filterMap fun kt =>
    if kt.1 == "fn:vertex_state" then some "vertex_state"
    else if kt.1 == "fn:fragment_state" then some "fragment_state"
    else if kt.1 == "fn:create_shader_module" then some "create_shader_module" else none) ++
  o.vertexEntries.map (·.fnName) ++
  o.fragmentEntries.map (·.fnName) ++
  (if o.bindModule.isSome then ["set_bind_groups"] else []) ++
  ["create_pipeline_layout"]

/-- items of `mod compute` (all in the value namespace) -/
def computeItems (o : Out) : List String :=
  o.compute.map fun
    | .wg n _ _ _ => n
    | .pipeline f _ _ => f

/-- crate names the generated text spells as the first segment of a path -/
def crateNames (o : Out) : List String :=
  ["wgpu", "std"] ++
  (if o.structs.any (fun s => s.derives.any fun d => d == "bytemuck::Pod" || d == "bytemuck::Zeroable") then ["bytemuck"] else []) ++
  (if o.structs.any (fun s => s.derives.contains "encase::ShaderType") then ["encase"] else []) ++
  (if o.structs.any (fun s => s.derives.any fun d => d == "serde::Serialize" || d == "serde::Deserialize") then ["serde"] else []) ++
  (if o.structs.any (fun s => s.fields.any fun f => usesGlam f.ty) then ["glam"] else []) ++
  (if o.structs.any (fun s => s.fields.any fun f => usesNalgebra f.ty) then ["nalgebra"] else [])

/-- prelude names of the type namespace the generated text spells -/
def preludeTypeNames : List String := ["Option", "String", "Vec", "Default"]

/-- prelude names of the value namespace the generated text spells -/
def preludeValueNames : List String := ["None", "Some", "Ok", "Err"]

/-! ### Issues -/

inductive Issue
  /-- rustc rejects the module -/
  | definite (cls : String) (what : String)
  /-- outside the transcription's domain: rustc may accept or reject -/
  | unknown (cls : String) (what : String)
  deriving DecidableEq, Repr, Inhabited

def Issue.isDefinite : Issue → Bool
  | .definite .. => true
  | .unknown .. => false

def Issue.cls : Issue → String
  | .definite c _ => c
  | .unknown c _ => c

def Issue.what : Issue → String
  | .definite _ w => w
  | .unknown _ w => w

/-- the first element that occurs twice (for the message only) -/
def firstDup : List String → String
  | [] => ""
  | x :: xs => if xs.contains x then x else firstDup xs

def dupIssue (cls : String) (l : List String) : List Issue :=
  if l.Nodup then [] else [.definite cls (firstDup l)]

def dupIssueNat (cls : String) (l : List Nat) : List Issue :=
  if l.Nodup then [] else [.definite cls ""]

def structHasField (structs : List RStruct) (s f : String) : Bool :=
  match findStruct structs s with
  | some st => st.fields.any fun fl => fl.name == f
  | none => false

def hasLower (s : String) : Bool := s.toList.any fun c => c.isLower

def litMatches (ty : String) : LitVal → Bool
  | .ival _ suf => suf == ty
  | .fval _ suf => suf == ty
  | .bval _ => ty == "bool"

/-- duplicate items / parameters / fields -/
def nameIssues (o : Out) : List Issue :=
  dupIssue "dup-type-item" (typeItems o) ++
  dupIssue "dup-value-item" (valueItems o) ++
  dupIssue "dup-value-item" (computeItems o) ++
  o.vertexEntries.flatMap (fun e => dupIssue "dup-param" (e.params.map (·.1))) ++
  o.fragmentEntries.flatMap (fun e => dupIssue "dup-param" (e.params.map (·.1))) ++
  o.structs.flatMap (fun s => dupIssue "dup-field" (s.fields.map (·.name))) ++
  (match o.overrides with | some ov => dupIssue "dup-field" (ov.fields.map (·.1)) | none => []) ++
  o.groups.flatMap (fun g => dupIssue "dup-field" (g.layoutFields.map (·.1))) ++
  dupIssueNat "dup-group-item" (o.groups.map (·.no)) ++
  dupIssue "dup-impl" (o.vertex.map (·.name))

/-- user structs that shadow a crate or prelude name the generated text uses -/
def shadowIssues (o : Out) : List Issue :=
  (o.structs.filterMap fun s => if (crateNames o).contains s.name then some (Issue.definite "crate-shadowed" s.name) else none) ++
  (o.structs.filterMap fun s => if preludeTypeNames.contains s.name then some (Issue.unknown "prelude-shadowed" s.name) else none) ++
  (o.consts.filterMap fun c => if preludeValueNames.contains c.name then some (Issue.unknown "prelude-shadowed" c.name) else none)

/-- field types name emitted structs -/
def resolveFieldTypes (o : Out) : List Issue :=
  let snames := o.structs.map (·.name)
  o.structs.flatMap fun s => s.fields.flatMap fun f =>
    (namedIn f.ty).filterMap fun n => if snames.contains n then none else some (Issue.definite "unresolved-type" (s.name ++ "." ++ f.name ++ ":" ++ n))

/-- the `impl S { VERTEX_ATTRIBUTES; vertex_buffer_layout }` blocks refer to an emitted struct and its fields -/
def resolveVertex (o : Out) : List Issue :=
  let snames := o.structs.map (·.name)
  let vnames := o.vertex.map (·.name)
  (o.vertex.filterMap fun v => if snames.contains v.name then none else some (Issue.definite "unresolved-vertex-struct" v.name)) ++
  (o.vertex.flatMap fun v =>
    -- (a missing struct of the block's own name is reported once, by the clause above)
    (if snames.contains v.strideOf || v.strideOf == v.name then [] else [Issue.definite "unresolved-type" v.strideOf]) ++
    (if vnames.contains v.attrsOf then [] else [Issue.definite "unresolved-attrs" v.attrsOf]) ++
    v.attrs.filterMap fun a =>
      if !snames.contains a.ofStruct then none    -- reported above
      else if structHasField o.structs a.ofStruct a.field then none
      else some (Issue.definite "unresolved-field" (a.ofStruct ++ "." ++ a.field)))

/-- the entry helpers refer to their `ENTRY_*` constant, to attribute tables, to their own parameters and to
`OverrideConstants` only when it exists -/
def resolveEntries (o : Out) : List Issue :=
  let vnames := o.vertex.map (·.name)
  let enames := o.entryConsts.map (·.1)
  (o.vertexEntries.flatMap fun e =>
    (if enames.contains e.entryConst then [] else [Issue.definite "unresolved-entry-const" e.entryConst]) ++
    (e.buffers.flatMap fun b =>
      (if vnames.contains b.1 then [] else [Issue.definite "unresolved-vertex-layout" b.1]) ++
      (if (e.params.map (·.1)).contains b.2 then [] else [Issue.definite "unresolved-param" b.2])) ++
    (if e.constants == .overrides && !(o.overrides.isSome && (e.params.map (·.1)).contains "overrides")
      then [Issue.definite "unresolved-overrides" e.fnName] else [])) ++
  (o.fragmentEntries.flatMap fun e =>
    (if enames.contains e.entryConst then [] else [Issue.definite "unresolved-entry-const" e.entryConst]) ++
    (if e.constants == .overrides && !(o.overrides.isSome && (e.params.map (·.1)).contains "overrides")
      then [Issue.definite "unresolved-overrides" e.fnName] else []))

/-- the pipeline layout, the group items, `BindGroups` and `set_bind_groups` refer to existing groups and fields -/
def resolveGroups (o : Out) : List Issue :=
  let gnos := o.groups.map (·.no)
  (o.pipelineGroups.filterMap fun g => if gnos.contains g then none else some (Issue.definite "unresolved-group" (toString g))) ++
  (o.groups.flatMap fun g =>
    (if gnos.contains g.layoutFnDesc && gnos.contains g.fromLayoutStruct && gnos.contains g.fromDesc then []
     else [Issue.definite "unresolved-group" (toString g.no)]) ++
    g.bindEntries.filterMap fun b =>
      if (g.layoutFields.map (·.1)).contains b.field then none else some (Issue.definite "unresolved-field" b.field)) ++
  (match o.bindModule with
    | some bm => ((bm.bgFields.map (·.2)) ++ bm.bgSet ++ (bm.setParams.map (·.2)) ++ bm.setCalls).filterMap fun g =>
        if gnos.contains g then none else some (Issue.definite "unresolved-group" (toString g))
    | none => [])

/-- the push constant range refers to the exported stage constant -/
def resolvePush (o : Out) : List Issue :=
  o.pushRanges.filterMap fun r =>
    if (o.pushStages.map (·.1)) == some r.stagesRef then none else some (Issue.definite "unresolved-push-stages" r.stagesRef)

/-- every referenced item is defined -/
def resolveIssues (o : Out) : List Issue :=
  resolveFieldTypes o ++ resolveVertex o ++ resolveEntries o ++ resolveGroups o ++ resolvePush o

/-- the leaf of a field type that decides a derive obligation, for messages: `bool`, `f64`, `glam-DVec3`, `array-33`, .. -/
def tyTag (tr : String) : RustTy → String
  | .prim s => s
  | .array t n =>
    if (tr == "serde::Serialize" || tr == "serde::Deserialize") && decide (32 < n) then "array-" ++ toString n
    else if tr == "encase::ShaderType" && n == 0 then "array-0" else tyTag tr t
  | .glam s => "glam-" ++ s
  | .nalgebraV _ _ => "nalgebra"
  | .nalgebraM _ _ _ => "nalgebra"
  | .named n => "struct-" ++ n
  | .vec t => tyTag tr t
  | .option t => tyTag tr t
  | .unknown s => "unknown-" ++ s

/-- every derive is satisfiable; structural requirements of the derive macros -/
def deriveIssues (o : Out) : List Issue :=
  o.structs.flatMap fun s =>
    (s.derives.flatMap fun d => s.fields.filterMap fun f =>
      if implements o.structs d f.ty then none
      else some (Issue.definite "derive-unsat" (d ++ ":" ++ tyTag d f.ty ++ ":" ++ s.name ++ "." ++ f.name))) ++
    -- encase's derive refuses a struct without fields ("Only non empty structs with named fields are supported!")
    (if s.derives.contains "encase::ShaderType" && s.fields.isEmpty then [Issue.definite "derive-shape" ("ShaderType-on-empty-struct:" ++ s.name)] else []) ++
    (if s.derives.contains "Copy" && !s.derives.contains "Clone" then [Issue.definite "derive-shape" ("Copy-without-Clone:" ++ s.name)] else []) ++
    (if s.derives.contains "bytemuck::Pod" && !s.reprC then [Issue.definite "derive-shape" ("Pod-without-repr:" ++ s.name)] else []) ++
    (if s.derives.contains "bytemuck::Pod" && !s.derives.contains "Copy" then [Issue.definite "derive-shape" ("Pod-without-Copy:" ++ s.name)] else []) ++
    (if s.derives.contains "bytemuck::Pod" && !s.derives.contains "bytemuck::Zeroable" then [Issue.definite "derive-shape" ("Pod-without-Zeroable:" ++ s.name)] else []) ++
    -- a `Vec` field needs `#[size(runtime)]` and the last position (encase); `#[size(runtime)]` needs encase's derive
    (s.fields.dropLast.filterMap fun f => if f.runtime then some (Issue.definite "derive-shape" ("runtime-not-last:" ++ s.name)) else none) ++
    (s.fields.filterMap fun f =>
      if f.runtime && !s.derives.contains "encase::ShaderType" then some (Issue.definite "derive-shape" ("size-attr-without-encase:" ++ s.name)) else none)

def literalIssues (o : Out) : List Issue :=
  o.consts.filterMap fun c => if litMatches c.ty c.val then none else some (Issue.definite "literal-type" c.name)

def keywordIssues (o : Out) : List Issue :=
  (emittedIdents o).filterMap fun n => if rustKeywords.contains n then some (Issue.definite "keyword-ident" n) else none

/-- constants the generated module defines itself -/
def generatedConstNames (o : Out) : List String :=
  o.entryConsts.map (·.1) ++ ["SOURCE"] ++ (match o.pushStages with | some p => [p.1] | none => [])

/-- constants that an unhygienic `let name` / pattern of a derive expansion or of the generated functions can
resolve to (E0530 / E0005 / E0308): a user constant with a lower-case letter, and ANY constant in scope - user or
generated (`SOURCE`, `ENTRY_*`, `PUSH_CONSTANT_STAGES`) or from the prelude (`None`, `Some`, `Ok`, `Err`) - that is named like a struct field (the derive macros bind
the field names).  Which locals the derive macros use is not transcribed: outside the domain. -/
def captureIssues (o : Out) : List Issue :=
  let fieldNames := o.structs.flatMap fun s => s.fields.map (·.name)
  (o.consts.filterMap fun c =>
    if hasLower c.name || fieldNames.contains c.name then some (Issue.unknown "const-may-be-captured" c.name) else none) ++
  ((generatedConstNames o ++ preludeValueNames).filterMap fun n =>
    if fieldNames.contains n then some (Issue.unknown "const-may-be-captured" n) else none)

def issues (o : Out) : List Issue :=
  nameIssues o ++ shadowIssues o ++ resolveIssues o ++ deriveIssues o ++ literalIssues o ++ keywordIssues o ++ captureIssues o

def definiteIssues (o : Out) : List Issue := (issues o).filter (·.isDefinite)

/-- the module is predicted to compile (up to the permitted bytemuck failures, which are not issues) -/
def ok (o : Out) : Bool := (issues o).isEmpty

end RustStatic
end WgslVerif
